"""C17 - periodic transmissions run exactly when and with what the API state says.

SUT: SyncProducer.start/stop, PdoMap.start/stop/update (+ PdoVariable writes,
PdoBase.stop), NmtSlave heartbeat (start_heartbeat/stop_heartbeat, NMT state
changes through the API and from the bus, object 0x1017 written through
node.sdo and through the SDO server), NmtMaster.start/stop_node_guarding,
PeriodicMessageTask.update (both branches) and Network.disconnect (called, and through the context
manager protocol of Network: __exit__, a `with network:` block left normally or by an exception).

Rig: one simulated bus with two canopen.Network objects, "M" (master side:
SYNC producer, RemoteNodes with RPDO maps, node guarding, SDO clients) and "S"
(slave side: LocalNodes with TPDO maps, heartbeat producer, SDO servers, a SYNC
producer of its own).  The bus hands out recording cyclic tasks which, like a
CAN adapter that copies a cyclic frame into its own transmit list, remember the
frame given to send_periodic()/modify_data() *by value*; `mod` decides whether
the tasks offer modify_data() at all (both code paths of PeriodicMessageTask.update).

Oracle: harness/ref_c17.py, a model of the expected transmission per producer
written from the property text / CiA 301, fed the same ops.  After every op
the multiset of live tasks (bus, CAN id, payload, remote flag, period) must
equal the model's; additionally the moment a task is registered no other live
task of the same producer may exist.

Clause -> case family
  "at every moment at most one periodic task per producer"  all families: overlap probe inside
        send_periodic + multiset comparison after every op (a second task = extra live task)
  "it sends the producer's current CAN id, payload and period"
        sync:      enum/sync, history (start(p), start(), stop; int and float periods)
        PDO:       enum/pdo, history: start(p)/start()/period attribute/period learnt from reception,
                   variable writes (byte-aligned and bit fields), data assignment + update(), update(),
                   11- and 29-bit COB-IDs, maps configured from the OD and by hand; the other configuration
                   items of a map are varied too and have no say in any clause: marked valid/enabled or not
                   (OD: bit 31 of the COB-ID entry; by hand: True / False / never touched, the default; also
                   assigned while the map is stopped), RTR allowed (bit 30), transmission type, inhibit time /
                   event timer / SYNC start value.  enum/pdo-not-enabled repeats enum/pdo on such maps.
        heartbeat: enum/hb, history: payload after nmt.state=, send_command, NMT frames from the master
                   API / raw frames (addressed, broadcast, foreign node), period = 0x1017 / 1000
        guarding:  enum/guard, history: remote frame 0x700+id, period
                   enum/pdo-rx, history: frames with the map's own COB-ID on the bus while the map is
                   transmitting (echo, duplicate, second producer) change neither the task nor the period that
                   start() without argument re-uses
  "after stop, or after the heartbeat time is set to 0, none is running"
        stop ops of every producer (PdoMap.stop, node.pdo.stop, tpdo/rpdo.stop, sync.stop, stop_heartbeat,
        stop_node_guarding), 0x1017 := 0 locally and over SDO, start_heartbeat(0), boot with 0x1017 == 0
  "no earlier task keeps transmitting after a restart"
        restart-without-stop of every producer in enum/* (all op sequences up to a length) and history
  "disconnecting the network stops the PDO tasks of all its nodes"
        enum/disconnect (every subset of 4 maps on 2 nodes x order of disconnects x way of disconnecting
        x which maps are marked enabled), history (way drawn per disconnect)
  "buses whose cyclic tasks can and cannot modify data in place": `mod` is drawn / enumerated everywhere.

Finding F1 (genuine defect of the unchanged tree, kept out of the domain by construction and counted as
excluded): PdoMap.start() hands its own bytearray `self.data` to can.Message, which keeps bytearrays by
reference.  A PDO variable write (or `map.data[:] = ...; map.update()`) then changes Message.data before
PeriodicMessageTask.update() compares "old" and new data, finds them equal and - on a bus without
modify_data - does not restart the task: the adapter keeps sending the payload from start().  Minimal
input: mod=False, [pdo_start(0.1), pdo_write(var 0 := 1)] -> live 185#000000, expected 185#010000.
Only the first in-place change after each start() is affected (update() un-aliases the message).
The generators avoid exactly this class (history: an update() without change is inserted first;
enumeration: such sequences are reported as excluded); `known/F1` holds the two minimal inputs.

Deviations from DESIGN.md: the recording task of simbus keeps the can.Message by reference, which would
hide F1; this module uses its own by-value task (SnapTask).  NMT command PRE-OPERATIONAL from the bus while
the node is INITIALISING, start(0) while running and PdoMap.period assignment while running are not
generated (the property does not determine the outcome).
"""
import math

from hypothesis import strategies as st

from harness import refcodec as rc
from harness.core import Discrepancy, Outcome
from harness.odutil import build_od
from harness.ref_c17 import F1, UNKNOWN, field_range, type_width, valid_period
from harness.ref_c17 import Model as _RefModel
from harness.simbus import Frame, Hub, Port

PROPERTY = "C17"
LEVEL = "exploration"
RULE = ("case = configuration (bus with/without modify_data, 1-2 nodes each as LocalNode on network S and "
        "RemoteNode on network M, 0-2 TPDO/RPDO maps per node with drawn COB-ID/layout/set-up, heartbeat "
        "default) + history of 1..60 calls over SYNC, PDO, heartbeat (API, NMT frames, 0x1017 writes local and "
        "via SDO), node guarding and Network.disconnect. Per map also drawn: marked enabled or not (OD COB-ID "
        "bit 31; by hand True/False/untouched default; reassigned while stopped), RTR bit, transmission type, "
        "inhibit/event/SYNC-start entries - none of them may influence start, stop, data updates or "
        "disconnect. A disconnect is the call, Network.__exit__(None, None, None), or a `with network:` block "
        "left normally or by an exception. Exhaustive parts: every op sequence up to a fixed "
        "length over a small alphabet per producer (PDO: on enabled and on not-enabled maps), every subset of "
        "started maps x disconnect order x way of disconnecting x enabled marks. Oracle: "
        "reference model (ref_c17) of the expected live transmissions, compared as a multiset (bus, id, payload, "
        "remote, period) with the recording bus after every call, plus a no-overlap probe at registration "
        "time. sync.cob_id may be changed between calls (the next start() must use it; a task already running "
        "may carry either id until then); PDO COB-IDs include 0x7FF/0x800 (frame format is compared). "
        "Frames with a subscribed map's own COB-ID are put on the bus between the calls, while the map is "
        "stopped (reception: data and period are learnt) and while it is transmitting (echo / duplicate / second "
        "producer: task, payload and period stay, start() without argument still re-uses the period of the start "
        "call); enum/pdo-rx has every short sequence with such a frame on two subscribed maps. "
        "Non-trivial = history containing a restart without stop, a data/state update while running, a "
        "set-to-zero while running, a disconnect with live PDO tasks or a frame with the map's own COB-ID "
        "heard while transmitting; distinct = canonical JSON of the case.")
ASSUMPTIONS = [
    "a cyclic task transmits the frame contents handed to send_periodic()/modify_data() at that time (adapter "
    "copies the frame, e.g. python-can's IXXAT task); tasks without modify_data cannot be changed afterwards",
    "PDO COB-IDs are outside the CiA 301 restricted ranges and distinct, so (bus, id, remote flag) names a producer",
    "after Network.disconnect() only stop calls are made on that network and it no longer hears the bus; SYNC, "
    "heartbeat and guarding tasks of a disconnected network may or may not be live (property is silent)",
    "the heartbeat producer is (re)configured from object 0x1017 on the INITIALISING -> PRE-OPERATIONAL transition "
    "made through the node's own API (DESIGN.md); the same NMT command from the bus is kept out of the domain",
    "start(0) is only issued while stopped and leaves the period attribute undetermined; PdoMap.period is only "
    "assigned while stopped; PdoMap.data is only changed together with update() or a variable write",
    "period comparison uses rel. tolerance 1e-9 (ms -> s conversion may round differently)",
    "leaving a `with network:` block (normally or by an exception) and Network.__exit__ are disconnects of that "
    "network; whether the exception of the block propagates is not judged",
    "a frame with the COB-ID of a transmitting map is not a call on that producer: the map keeps data, task and "
    "the period start() re-uses; whether it remembers the time of that frame is not stated, so the period learnt "
    "from the first reception after the following stop is undetermined (start() without argument excluded "
    "until the period is given again)",
    "reception (period learnt from received frames) is only generated for maps marked enabled whose mark never "
    "changed; PdoMap.enabled is only assigned while the map is stopped; a map that is not marked enabled can be "
    "started, updated and stopped like any other (start() is documented without such a condition)",
]
BUDGET = {"quick": 150, "thorough": 330}

HB_INDEX = 0x1017
OTHER_INDEX = 0x2100
VAR_BASE = 0x2000

X_HEARD = ("start() without period after a reception that followed a frame heard while transmitting: whether the "
           "frame heard while transmitting counts as the previous reception is not stated")


class Model(_RefModel):
    """The reference model plus frames with a map's own COB-ID that arrive while the map is transmitting
    (an echo of its own frames, a duplicated frame, a second producer on that COB-ID).

    Such a frame is none of the calls the property lets change a producer: the running task keeps CAN id,
    payload and period, the map keeps its data, and the period a later start() without argument re-uses is
    still the one the map was started with (flag "F").  What the property does not say is whether the map
    remembers the time of that frame; the period learnt from the first reception after the map was stopped
    again is therefore undetermined (start() without argument is kept out of the domain until the period is
    given again by start(p), an assignment or a further reception)."""

    def _pdo_rx(self, op, v):
        m = self._map(op)
        m.clock = op["ts"]                       # generator only: frame times on the bus are increasing
        if not self.connected[m.net] or not m.subscribed:
            return
        if m.running is not None:
            v.flags.add("F")
            m.heard_running = True
            return
        if getattr(m, "heard_running", False):
            m.heard_running = False
            assert len(op["data"]) == len(m.data)
            m.data = bytes(op["data"])
            m.period = UNKNOWN
            m.period_why = X_HEARD
            m.last_ts = op["ts"]
            return
        m.period_why = None
        super()._pdo_rx(op, v)

    def _pdo_start(self, op, v):
        m = self._map(op)
        if (op.get("p") is None and m.period is UNKNOWN and getattr(m, "period_why", None)
                and self.connected[m.net]):
            v.excluded = m.period_why
            return
        super()._pdo_start(op, v)
        if not v.excluded and v.raises is None:
            m.period_why = None

    def _pdo_period(self, op, v):
        super()._pdo_period(op, v)
        if not v.excluded:
            self._map(op).period_why = None


# ---- recording bus with by-value tasks ---------------------------------------------
class SnapTask:
    def __init__(self, hub, port, msg, period, modifiable):
        self.hub, self.port, self.period = hub, port, period
        self.live = True
        self.snap = self._copy(msg)
        if modifiable:
            self.modify_data = self._modify_data

    @staticmethod
    def _copy(m):
        return (m.arbitration_id, bytes(m.data), bool(m.is_remote_frame), bool(m.is_extended_id))

    def stop(self):
        self.live = False

    def _modify_data(self, msg):
        if msg.arbitration_id != self.snap[0]:
            raise ValueError("arbitration id mismatch")
        self.snap = self._copy(msg)


class SnapPort(Port):
    def send_periodic(self, msg, period, duration=None, store_task=True, **kw):
        key = (msg.arbitration_id, bool(msg.is_remote_frame))
        for t in self.hub.tasks:
            if t.live and t.port is self and (t.snap[0], t.snap[2]) == key:
                self.hub.overlaps.append((self.name,) + key)
        task = SnapTask(self.hub, self, msg, period, self.hub.modifiable_tasks)
        self.hub.tasks.append(task)
        return task


class SnapHub(Hub):
    def __init__(self):
        super().__init__()
        self.overlaps = []

    def port(self, name, network=None, handler=None):
        p = SnapPort(self, name)
        p.network = network
        p.handler = handler
        self.ports.append(p)
        return p


# ---- object dictionaries --------------------------------------------------------------
def _od_spec(node):
    spec = [{"kind": "var", "index": HB_INDEX, "name": "Producer heartbeat time", "dt": rc.UNSIGNED16,
             "default": node["hb"] if not node.get("hb_as_value") else 0,
             "value": node["hb"] if node.get("hb_as_value") else None},
            {"kind": "var", "index": OTHER_INDEX, "name": "other", "dt": rc.UNSIGNED16, "default": 0}]
    nvar = 0
    for direction, com, mp in (("tpdo", 0x1800, 0x1A00), ("rpdo", 0x1400, 0x1600)):
        for m in node.get(direction, []):
            no = m["no"]
            cob = m["cob"] | (0x20000000 if m["cob"] > 0x7FF else 0)
            if m.get("en", True) is not True:
                cob |= 0x80000000            # CiA 301: bit 31 = PDO does not exist / is not valid
            if m.get("rtr") is False:
                cob |= 0x40000000            # bit 30 = no RTR allowed on this PDO
            com_members = [
                {"sub": 0, "name": "n", "dt": rc.UNSIGNED8, "default": 6 if m.get("extra") else 2},
                {"sub": 1, "name": "COB-ID", "dt": rc.UNSIGNED32, "default": cob},
                {"sub": 2, "name": "type", "dt": rc.UNSIGNED8,
                 "default": 255 if m.get("tt") is None else m["tt"]}]
            if m.get("extra"):
                inhibit, event, sync_start = m["extra"]
                com_members += [
                    {"sub": 3, "name": "inhibit time", "dt": rc.UNSIGNED16, "default": inhibit},
                    {"sub": 5, "name": "event timer", "dt": rc.UNSIGNED16, "default": event},
                    {"sub": 6, "name": "SYNC start value", "dt": rc.UNSIGNED8, "default": sync_start}]
            spec.append({"kind": "record", "index": com + no - 1, "name": f"{direction}{no} com",
                         "members": com_members})
            members = [{"sub": 0, "name": "n", "dt": rc.UNSIGNED8,
                        "default": len(m["entries"]) if m["setup"] == "from_od" else 0}]
            m["_vars"] = []
            for j, e in enumerate(m["entries"]):
                idx = VAR_BASE + nvar
                nvar += 1
                m["_vars"].append(idx)
                spec.append({"kind": "var", "index": idx, "name": f"v{idx:x}", "dt": e["dt"], "pdo": True})
                members.append({"sub": j + 1, "name": f"e{j + 1}", "dt": rc.UNSIGNED32,
                                "default": (idx << 16 | e["bits"]) if m["setup"] == "from_od" else 0})
            for j in range(len(m["entries"]), 8):
                members.append({"sub": j + 1, "name": f"e{j + 1}", "dt": rc.UNSIGNED32, "default": 0})
            spec.append({"kind": "array", "index": mp + no - 1, "name": f"{direction}{no} map",
                         "members": members})
    return spec


class _LeaveBlock(Exception):
    """Raised by the harness inside a `with network:` block (route "with-raise")."""


# ways to disconnect a network: the call, and leaving the context manager the Network object is
ROUTES = ("call", "exit", "with", "with-raise")


class Rig:
    def __init__(self, cfg):
        import canopen
        self.hub = SnapHub()
        self.hub.modifiable_tasks = cfg["mod"]
        self.net = {}
        self.port = {}
        for name in ("M", "S"):
            self.net[name], self.port[name] = self.hub.attach(name)
        self.local = {}
        self.remote = {}
        self.maps = {}
        for node in cfg["nodes"]:
            node = dict(node)
            node["tpdo"] = [dict(m) for m in node.get("tpdo", [])]
            node["rpdo"] = [dict(m) for m in node.get("rpdo", [])]
            spec = _od_spec(node)
            nid = node["id"]
            loc = self.net["S"].create_node(nid, build_od(spec))
            rem = self.net["M"].add_node(canopen.RemoteNode(nid, build_od(spec)))
            rem.sdo.RESPONSE_TIMEOUT = 0.05
            self.local[nid], self.remote[nid] = loc, rem
            sides = [("L", loc.tpdo, node["tpdo"]), ("R", rem.rpdo, node["rpdo"])]
            if cfg.get("both_directions"):
                sides += [("r", rem.tpdo, node["tpdo"]), ("l", loc.rpdo, node["rpdo"])]
            for side, obj, mlist in sides:
                for m in mlist:
                    pm = obj[m["no"]]
                    if m["setup"] == "from_od":
                        pm.read(from_od=True)
                    else:
                        pm.clear()
                        for idx, e in zip(m["_vars"], m["entries"]):
                            if e["bits"] == type_width(e["dt"]):
                                pm.add_variable(idx)
                            else:
                                pm.add_variable(idx, 0, e["bits"])
                        pm.cob_id = m["cob"]
                        # configuration items of a map set up by hand; "default" = never touched
                        if m.get("en", True) != "default":
                            pm.enabled = m.get("en", True)
                        if m.get("rtr") is not None:
                            pm.rtr_allowed = m["rtr"]
                        if m.get("tt") is not None:
                            pm.trans_type = m["tt"]
                        if m.get("extra"):
                            pm.inhibit_time, pm.event_timer, pm.sync_start_value = m["extra"]
                        if m.get("sub"):
                            pm.subscribe()
                    self.maps[(side, nid, m["no"])] = pm

    def live(self):
        out = []
        for t in self.hub.tasks:
            if t.live:
                out.append((t.port.name,) + t.snap + (t.period,))
        return out

    def execute(self, op):
        k = op["op"]
        if k == "sync_start":
            if op.get("p") is None:
                self.net[op["net"]].sync.start()
            else:
                self.net[op["net"]].sync.start(op["p"])
        elif k == "sync_stop":
            self.net[op["net"]].sync.stop()
        elif k == "sync_cob":
            self.net[op["net"]].sync.cob_id = op["cob"]
        elif k.startswith("pdo_"):
            self._pdo(k, op)
        elif k == "l_state":
            self.local[op["node"]].nmt.state = op["state"]
        elif k == "l_cmd":
            self.local[op["node"]].nmt.send_command(op["code"])
        elif k == "m_state":
            nmt = self.net["M"].nmt if op["node"] == 0 else self.remote[op["node"]].nmt
            nmt.state = op["state"]
        elif k == "bus_cmd":
            self.hub.inject(Frame(0, bytes([op["cmd"], op["nid"]])))
        elif k == "hb_start":
            self.local[op["node"]].nmt.start_heartbeat(op["ms"])
        elif k == "hb_stop":
            self.local[op["node"]].nmt.stop_heartbeat()
        elif k == "hb_write":
            node = self.local[op["node"]] if op["via"] == "local" else self.remote[op["node"]]
            node.sdo[HB_INDEX].raw = op["v"]
        elif k == "hb_refused":
            node = self.local[op["node"]] if op["via"] == "local" else self.remote[op["node"]]
            node.sdo.download(HB_INDEX, 0, bytes(op["data"]))
        elif k == "od_write":
            node = self.local[op["node"]] if op["via"] == "local" else self.remote[op["node"]]
            node.sdo[OTHER_INDEX].raw = op["v"]
        elif k == "g_start":
            self.remote[op["node"]].nmt.start_node_guarding(op["p"])
        elif k == "g_stop":
            self.remote[op["node"]].nmt.stop_node_guarding()
        elif k == "disconnect":
            net = self.net[op["net"]]
            route = op.get("route", "call")
            if route == "call":
                net.disconnect()
            elif route == "exit":
                net.__exit__(None, None, None)
            elif route == "with":
                with net:
                    pass
            elif route == "with-raise":
                # the block is left by an exception of the caller; whether it propagates is not judged
                try:
                    with net:
                        raise _LeaveBlock()
                except _LeaveBlock:
                    pass
            else:
                raise KeyError(route)
            # a disconnected network has no notifier any more: it hears nothing
            self.port[op["net"]].network = None
        else:
            raise KeyError(k)

    def _pdo(self, k, op):
        if k == "pdo_stop_all":
            node = self.local[op["node"]] if op["side"] == "L" else self.remote[op["node"]]
            if op["which"] == "pdo":
                node.pdo.stop()
            elif op["side"] == "L":
                node.tpdo.stop()
            else:
                node.rpdo.stop()
            return
        pm = self.maps[(op["side"], op["node"], op["map"])]
        if k == "pdo_start":
            if op.get("p") is None:
                pm.start()
            else:
                pm.start(op["p"])
        elif k == "pdo_stop":
            pm.stop()
        elif k == "pdo_period":
            pm.period = op["p"]
        elif k == "pdo_enabled":
            pm.enabled = op["v"]
        elif k == "pdo_write":
            pm[op["var"]].raw = op["v"]
        elif k == "pdo_assign":
            if op.get("rebind"):
                pm.data = bytearray(op["data"])
            else:
                pm.data[:] = bytes(op["data"])
            pm.update()
        elif k == "pdo_update":
            pm.update()
        elif k == "pdo_poke":
            pm.data[:] = bytes(op["data"])
        elif k == "pdo_rx":
            self.hub.inject(Frame(pm.cob_id, bytes(op["data"]), ts=op["ts"]))
        else:
            raise KeyError(k)


# ---- comparison ---------------------------------------------------------------------
def _close(a, b):
    try:
        return a == b or math.isclose(a, b, rel_tol=1e-9, abs_tol=0.0)
    except TypeError:
        return False


def compare(model, live, tag):
    """Multiset comparison of the live tasks with the model's expectation."""
    exp = model.expected()
    used = [False] * len(exp)
    extra = []
    for lt in live:
        net, cid, data, remote, ext, period = lt
        hit = None
        for i, e in enumerate(exp):
            if (not used[i] and e.net == net and (e.can_id == cid or cid in e.alt) and e.data == data
                    and e.remote == remote
                    and ext == (cid > 0x7FF) and _close(period, e.period)):
                hit = i
                break
        if hit is None:
            extra.append(lt)
        else:
            used[hit] = True
    missing = [e for i, e in enumerate(exp) if not used[i] and not e.optional]
    if not extra and not missing:
        return None

    def show(lt):
        return f"{lt[0]}:{'R' if lt[3] else ''}{lt[1]:X}#{lt[2].hex()}{'x' if lt[4] else ''} every {lt[5]!r}s"

    detail = (f"{tag}: live tasks [{'; '.join(show(x) for x in live)}] expected "
              f"[{'; '.join(repr(e) for e in exp)}]")
    if extra:
        lt = extra[0]
        who, kind = model.who(lt[0], lt[1], lt[3])
        mine = [e for e in exp if e.who == who]
        same = [x for x in live if (x[0], x[1], x[3]) == (lt[0], lt[1], lt[3])]
        if not mine:
            what = "running-but-should-not"
        elif len(same) > len(mine):
            what = "leaked-or-second-task"
        elif lt[2] != mine[0].data:
            what = "stale-payload"
        elif not _close(lt[5], mine[0].period):
            what = "wrong-period"
        else:
            what = "wrong-frame"
        return Discrepancy(f"C17/{kind}/{what}", f"{who} {detail}")
    e = missing[0]
    return Discrepancy(f"C17/{e.kind}/not-running", f"{e.who} {detail}")


def run_case(case) -> Outcome:
    model = Model(case)
    # decide about the domain before touching the code under test
    probe = Model(case)
    for op in case["ops"]:
        v = probe.apply(op)
        if v.excluded:
            return Outcome(excluded=v.excluded)
    rig = Rig(case)
    D = []
    flags = set()
    d0 = compare(model, rig.live(), "after set-up")
    if d0:
        D.append(d0)
    for i, op in enumerate(case["ops"]):
        if D:
            break
        v = model.apply(op)
        flags |= v.flags
        tag = f"step {i} {_show_op(op)}"
        exc = None
        try:
            rig.execute(op)
        except Exception as e:  # judged below
            exc = e
        kind = _producer(op)
        if exc is not None:
            names = {c.__name__ for c in type(exc).__mro__}
            if not (v.raises in names or v.tolerates in names):
                D.append(Discrepancy(f"C17/{kind}/raises", f"{tag}: {type(exc).__name__}: {exc}"))
                break
        elif v.raises:
            D.append(Discrepancy(f"C17/{kind}/no-{v.raises}", f"{tag}: call returned, {v.raises} expected"))
            break
        if rig.hub.overlaps:
            net, cid, remote = rig.hub.overlaps[0]
            who, okind = model.who(net, cid, remote)
            D.append(Discrepancy(f"C17/{okind}/two-tasks-at-once",
                                 f"{tag}: a task for {who} was registered while an earlier one was still live"))
            break
        d = compare(model, rig.live(), tag)
        if d:
            D.append(d)
            break
        for port in rig.port.values():
            if port.notify_errors:
                fr, e = port.notify_errors[0]
                D.append(Discrepancy(f"C17/{kind}/raises", f"{tag}: {type(e).__name__}: {e} out of "
                                                           f"Network.notify for {fr}"))
                break
    nontrivial = bool(flags & {"R", "U", "Z", "D", "F"})
    fam = case.get("family", "history")
    klass = f"{fam}/{'mod' if case['mod'] else 'nomod'}/{''.join(sorted(flags)) or '-'}"
    return Outcome(nontrivial, klass, D)


def _producer(op):
    k = op["op"]
    if k.startswith("sync"):
        return "sync"
    if k.startswith("pdo"):
        return "pdo"
    if k.startswith("g_"):
        return "guarding"
    if k == "disconnect":
        return "disconnect"
    return "heartbeat"


def _show_op(op):
    return "{" + ", ".join(f"{k}={v.hex() if isinstance(v, (bytes, bytearray)) else v!r}"
                           for k, v in op.items()) + "}"


# ---- enumerated families ---------------------------------------------------------------
U8, I8, U16, I16, U32, I32, U64 = (rc.UNSIGNED8, rc.INTEGER8, rc.UNSIGNED16, rc.INTEGER16,
                                   rc.UNSIGNED32, rc.INTEGER32, rc.UNSIGNED64)


def E(dt, bits=None):
    return {"dt": dt, "bits": bits or type_width(dt)}


def _sequences(alphabet, max_len):
    def rec(prefix, n):
        if n == 0:
            yield prefix
            return
        for a in alphabet:
            yield from rec(prefix + [a], n - 1)
    for n in range(1, max_len + 1):
        yield from rec([], n)


SYNC_COBS = (0x80, 0x90, 0x100, 0x7F0)      # none of them is a PDO / heartbeat / guarding id of any case


def enum_sync(max_len):
    alpha = [{"op": "sync_cob", "net": "M", "cob": 0x90},
             {"op": "sync_start", "net": "M", "p": 0.1}, {"op": "sync_start", "net": "M", "p": 2},
             {"op": "sync_start", "net": "M", "p": None}, {"op": "sync_stop", "net": "M"},
             {"op": "sync_start", "net": "M", "p": 0}]
    for mod in (True, False):
        for seq in _sequences(alpha, max_len):
            yield {"family": "enum/sync", "mod": mod, "nodes": [{"id": 1, "hb": 0}], "ops": seq}


def directed_same_value():
    """A running map whose data was changed in place without a data-update call, then a write of the
    value the field already holds: a data update like any other - the task takes over the map's data."""
    for mod in (True, False):
        for side, node, a in (("L", {"id": 5, "hb": 0, "tpdo": [{"no": 1, "cob": 0x185, "setup": "direct",
                                                              "entries": [E(U8), E(U16)]}]},
                               {"side": "L", "node": 5, "map": 1}),
                              ("R", {"id": 9, "hb": 0, "rpdo": [{"no": 1, "cob": 0x209, "setup": "direct",
                                                              "entries": [E(U8), E(U16)]}]},
                               {"side": "R", "node": 9, "map": 1})):
            for data, var, v in ((bytes([0x34, 0x12, 0x01]), 0, 0x34), (bytes([7, 0, 0]), 1, 0),
                                 (bytes([0, 0xFF, 0xFF]), 0, 0)):
                yield {"family": "directed/same-value", "mod": mod, "nodes": [node], "ops": [
                    {"op": "pdo_start", "p": 0.1, **a}, {"op": "pdo_poke", "data": data, **a},
                    {"op": "pdo_write", "var": var, "v": v, **a}]}
                yield {"family": "directed/same-value", "mod": mod, "nodes": [node], "ops": [
                    {"op": "pdo_poke", "data": data, **a}, {"op": "pdo_start", "p": 0.1, **a},
                    {"op": "pdo_poke", "data": bytes(3), **a}, {"op": "pdo_update", **a}]}


def directed_refused_write():
    """A download to object 0x1017 that the node refuses (length does not match UNSIGNED16) is not a change
    of the heartbeat time object: the producer stays as it is (running with the old time, or not running)."""
    nid = 9
    boot = {"op": "l_state", "node": nid, "state": "PRE-OPERATIONAL"}
    for mod in (True, False):
        for hb in (0, 20, 1000):
            for prefix in ([], [boot], [boot, {"op": "hb_write", "node": nid, "via": "local", "v": 50}],
                           [{"op": "hb_start", "node": nid, "ms": 70}]):
                for via in ("local", "remote"):
                    for data in (b"\x00", b"\x05", b"\x01\x02\x03", b"\x14\x00\x00\x00", b"\x00\x00\x00\x00",
                                 b"\x00\x00\x00\x00\x00\x00\x00\x00\x00"):
                        for suffix in ([], [{"op": "l_state", "node": nid, "state": "OPERATIONAL"}]):
                            yield {"family": "directed/refused-write", "mod": mod, "nodes": [{"id": nid, "hb": hb}],
                                   "ops": prefix + [{"op": "hb_refused", "node": nid, "via": via, "data": data}]
                                   + suffix}


def enum_pdo(max_len, not_enabled=False, deal=2):
    """All op sequences up to max_len on two map variants; the longest ones are dealt 1 in `deal` to each
    variant.  not_enabled: the same on maps that are not marked enabled (from the OD: bit 31 of the COB-ID
    entry, no RTR, synchronous transmission type; by hand: `enabled` never touched) - start(), stop(), the
    node-wide stop and every data-update route have to work on them all the same."""
    family = "enum/pdo-not-enabled" if not_enabled else "enum/pdo"
    for mod in (True, False):
        for variant in (0, 1):
            if variant == 0:
                m = {"no": 1, "cob": 0x185, "setup": "from_od", "entries": [E(U8), E(U16)]}
                if not_enabled:
                    m.update(en=False, rtr=False, tt=1)
                node = {"id": 5, "hb": 0, "tpdo": [m]}
                a = {"side": "L", "node": 5, "map": 1}
                w = [{"op": "pdo_write", "var": 0, "v": 1, **a}, {"op": "pdo_write", "var": 1, "v": 0x1234, **a},
                     {"op": "pdo_write", "var": 0, "v": 0, **a}]
                d1, d2 = bytes([9, 8, 7]), bytes([0xAA, 0, 0x55])
            else:
                m = {"no": 2, "cob": 0x1ABCDE01 if mod else 0x7FF, "setup": "direct",
                     "entries": [E(U8, 3), E(I16), E(I8, 5)]}
                if not_enabled:
                    m.update(en="default", sub=True)
                node = {"id": 0x7F, "hb": 0, "rpdo": [m]}
                a = {"side": "R", "node": 0x7F, "map": 2}
                w = [{"op": "pdo_write", "var": 0, "v": 5, **a}, {"op": "pdo_write", "var": 1, "v": -2, **a},
                     {"op": "pdo_write", "var": 2, "v": -16, **a}]
                d1, d2 = bytes([1, 2, 3]), bytes([0xFF, 0xFF, 0xFF])
            alpha = [{"op": "pdo_start", "p": 0.1, **a}, {"op": "pdo_start", "p": 0.5, **a},
                     {"op": "pdo_start", "p": None, **a}, {"op": "pdo_stop", **a}] + w + [
                     {"op": "pdo_update", **a}, {"op": "pdo_assign", "data": d1, "rebind": False, **a},
                     {"op": "pdo_assign", "data": d2, "rebind": True, **a},
                     {"op": "pdo_stop_all", "side": a["side"], "node": a["node"], "which": "pdo"}]
            if not_enabled:
                alpha.append({"op": "pdo_stop_all", "side": a["side"], "node": a["node"], "which": "dir"})
            for j, seq in enumerate(_sequences(alpha, max_len)):
                if len(seq) == max_len and max_len > 2 and (j + variant) % deal:
                    continue   # the longest sequences are dealt alternately to the two variants
                yield {"family": family, "mod": mod, "nodes": [node], "ops": seq}


RX_GAPS = (0.008, 0.25, 0.05, 1.0, 0.002, 3.5)
RX_DATA = (bytes([0xEE, 0xEE, 0xEE]), bytes([0x01, 0x00, 0x80]), bytes(3))


def enum_pdo_rx(max_len, deal=2):
    """Frames with the map's own COB-ID on the bus between the calls - while the map is stopped (reception:
    the map learns data and period) and while it is transmitting (echo of its own frames, a duplicated
    frame, a second producer: nothing about the transmission may change, and start() without argument
    still re-uses the period of the start call).  All sequences up to max_len over start(p) / start() /
    stop / frame on the bus / variable write / update() on two subscribed maps (TPDO of a LocalNode read
    from the OD, RPDO of a RemoteNode set up by hand and subscribed); the k-th frame of a sequence comes
    RX_GAPS[k] after the one before."""
    for mod in (True, False):
        for variant in (0, 1):
            if variant == 0:
                node = {"id": 5, "hb": 0, "tpdo": [{"no": 1, "cob": 0x185, "setup": "from_od",
                                                    "entries": [E(U8), E(U16)]}]}
                a = {"side": "L", "node": 5, "map": 1}
                w = {"op": "pdo_write", "var": 1, "v": 0x1234, **a}
            else:
                node = {"id": 0x7F, "hb": 0, "rpdo": [{"no": 2, "cob": 0x1ABCDE01 if mod else 0x27F,
                                                       "setup": "direct", "sub": True,
                                                       "entries": [E(U8, 3), E(I16), E(I8, 5)]}]}
                a = {"side": "R", "node": 0x7F, "map": 2}
                w = {"op": "pdo_write", "var": 1, "v": -2, **a}
            rx = {"op": "pdo_rx", **a}
            alpha = [{"op": "pdo_start", "p": 0.1, **a}, {"op": "pdo_start", "p": 0.5, **a},
                     {"op": "pdo_start", "p": None, **a}, {"op": "pdo_stop", **a}, rx, w,
                     {"op": "pdo_update", **a}]
            for j, seq in enumerate(_sequences(alpha, max_len)):
                if rx not in seq:
                    continue       # without a frame on the bus: enum/pdo
                if len(seq) == max_len and max_len > 3 and (j + variant) % deal:
                    continue
                ops, ts, k = [], 100.0, 0
                for op in seq:
                    if op is rx:
                        ts = round(ts + RX_GAPS[k % len(RX_GAPS)], 6)
                        op = dict(rx, data=RX_DATA[k % len(RX_DATA)], ts=ts)
                        k += 1
                    ops.append(op)
                yield {"family": "enum/pdo-rx", "mod": mod, "nodes": [node], "ops": ops}


def enum_hb(max_len):
    nid = 9
    alpha = [{"op": "l_state", "node": nid, "state": "PRE-OPERATIONAL"},
             {"op": "l_state", "node": nid, "state": "OPERATIONAL"},
             {"op": "l_state", "node": nid, "state": "RESET"},
             {"op": "m_state", "node": nid, "state": "STOPPED"},
             {"op": "bus_cmd", "cmd": 1, "nid": 0},
             {"op": "hb_write", "node": nid, "via": "local", "v": 0},
             {"op": "hb_write", "node": nid, "via": "local", "v": 100},
             {"op": "hb_write", "node": nid, "via": "remote", "v": 1000},
             {"op": "hb_write", "node": nid, "via": "remote", "v": 0},
             {"op": "hb_start", "node": nid, "ms": 50},
             {"op": "hb_stop", "node": nid},
             {"op": "od_write", "node": nid, "via": "local", "v": 300}]
    for mod in (True, False):
        for hb in (0, 1000):
            for seq in _sequences(alpha, max_len):
                yield {"family": "enum/hb", "mod": mod, "nodes": [{"id": nid, "hb": hb}], "ops": seq}


def enum_guard(max_len):
    alpha = [{"op": "g_start", "node": 3, "p": 0.1}, {"op": "g_start", "node": 3, "p": 1},
             {"op": "g_stop", "node": 3}, {"op": "g_start", "node": 100, "p": 0.1}, {"op": "g_stop", "node": 100}]
    for mod in (True, False):
        for seq in _sequences(alpha, max_len):
            yield {"family": "enum/guard", "mod": mod,
                   "nodes": [{"id": 3, "hb": 0}, {"id": 100, "hb": 0}], "ops": seq}


# which maps of the disconnect rig are marked enabled: as listed in `maps` of enum_disconnect
#   (node 2 tpdo 1 from_od, node 2 rpdo 1 direct, node 3 tpdo 4 direct, node 3 rpdo 2 from_od)
EN_VARIANTS = ((True, True, True, True),                 # 0: the rig as it always was
               (False, "default", "default", False),     # 1: no map is marked enabled
               (False, True, "default", True),           # 2, 3: mixed
               (True, False, True, False))


def _disconnect_nodes(en):
    def cfg(m, e):
        if e is not True:
            m["en"] = e
        return m
    return [{"id": 2, "hb": 500,
             "tpdo": [cfg({"no": 1, "cob": 0x182, "setup": "from_od", "entries": [E(U16)]}, en[0])],
             "rpdo": [cfg({"no": 1, "cob": 0x202, "setup": "direct", "entries": [E(U8), E(U8)]}, en[1])]},
            {"id": 3, "hb": 0,
             "tpdo": [cfg({"no": 4, "cob": 0x483, "setup": "direct", "entries": [E(U32)]}, en[2])],
             "rpdo": [cfg({"no": 2, "cob": 0x303, "setup": "from_od", "entries": [E(I32), E(I32)]}, en[3])]}]


def _disc(net, route):
    op = {"op": "disconnect", "net": net}
    if route != "call":
        op["route"] = route
    return op


def enum_disconnect(thorough=False):
    maps = [("L", 2, 1), ("R", 2, 1), ("L", 3, 4), ("R", 3, 2)]
    others = [{"op": "sync_start", "net": "M", "p": 0.01}, {"op": "sync_start", "net": "S", "p": 0.02},
              {"op": "l_state", "node": 2, "state": "PRE-OPERATIONAL"},
              {"op": "hb_start", "node": 3, "ms": 20}, {"op": "g_start", "node": 2, "p": 0.3},
              {"op": "g_start", "node": 3, "p": 0.4}]
    stops = [{"op": "sync_stop", "net": "M"}, {"op": "sync_stop", "net": "S"}, {"op": "hb_stop", "node": 2},
             {"op": "hb_write", "node": 3, "via": "local", "v": 0}, {"op": "g_stop", "node": 2},
             {"op": "g_stop", "node": 3}]
    # route "call" on the all-enabled rig first: the family as it was before routes / `enabled` were varied
    for env, route in [(0, r) for r in ROUTES] + [(e, r) for e in (1, 2, 3) for r in ROUTES]:
        nodes = _disconnect_nodes(EN_VARIANTS[env])
        for mod in (True, False):
            for subset in range(16):
                for with_others in (False, True):
                    if with_others and env and not thorough:
                        continue
                    for order in (["M"], ["S"], ["M", "S"], ["S", "M"], ["M", "M"]):
                        ops = []
                        for b, (side, nid, no) in enumerate(maps):
                            if subset >> b & 1:
                                ops.append({"op": "pdo_start", "side": side, "node": nid, "map": no,
                                            "p": 0.05 * (b + 1)})
                        if with_others:
                            ops += others
                        ops += [_disc(n, route) for n in order]
                        if with_others:
                            ops += stops
                        yield {"family": "enum/disconnect", "mod": mod, "nodes": nodes, "ops": ops}
    # "the PDO tasks of ALL its nodes": also the maps of the other direction of each node object
    # (TPDO maps of a RemoteNode, RPDO maps of a LocalNode)
    maps6 = maps + [("r", 2, 1), ("l", 2, 1), ("r", 3, 4), ("l", 3, 2)]
    combos = [(0, "call")] + [(e, r) for e in (0, 1, 2, 3) for r in ROUTES if (e, r) != (0, "call")]
    for pass_no in range(len(combos) if thorough else 2):
        i = 0
        for mod in (True, False):
            for subset in range(1, 256):
                if bin(subset).count("1") > 3 and subset % 7:
                    continue
                i += 1
                for o, order in enumerate((["M", "S"], ["S"], ["M"])):
                    # pass 0: the family as it was; quick: one more pass that deals the other combinations of
                    # (enabled marks, route) round robin (every combination meets every order); thorough: one
                    # pass per combination
                    env, route = (combos[pass_no] if thorough or pass_no == 0
                                  else combos[1 + (i + 5 * o) % (len(combos) - 1)])
                    ops = []
                    for b, (side, nid, no) in enumerate(maps6):
                        if subset >> b & 1:
                            ops.append({"op": "pdo_start", "side": side, "node": nid, "map": no,
                                        "p": 0.01 * (b + 1)})
                    ops += [_disc(n, route) for n in order]
                    yield {"family": "enum/disconnect-both-directions", "mod": mod,
                           "nodes": _disconnect_nodes(EN_VARIANTS[env]), "both_directions": True, "ops": ops}


def known_defect_cases():
    """Minimal inputs of finding F1 (excluded by construction, counted in the evidence)."""
    a = {"side": "L", "node": 5, "map": 1}
    node = {"id": 5, "hb": 0, "tpdo": [{"no": 1, "cob": 0x185, "setup": "from_od", "entries": [E(U8), E(U16)]}]}
    for first in ({"op": "pdo_write", "var": 0, "v": 1, **a},
                  {"op": "pdo_assign", "data": bytes([1, 2, 3]), "rebind": False, **a}):
        yield {"family": "known/F1", "mod": False, "nodes": [node],
               "ops": [{"op": "pdo_start", "p": 0.1, **a}, first]}


# ---- Hypothesis histories -----------------------------------------------------------------
PERIODS = [0.001, 0.002, 0.01, 0.05, 0.1, 0.25, 0.5, 1, 1.0, 2, 2.5, 10, 59.999, 60, 60.0]
period_st = st.one_of(st.sampled_from(PERIODS), st.floats(0.001, 60.0, allow_nan=False, allow_infinity=False),
                      st.integers(1, 60))
hb_st = st.one_of(st.sampled_from([0, 0, 1, 2, 10, 100, 250, 999, 1000, 1001, 32767, 32768, 65534, 65535]),
                  st.integers(0, 65535))
LAYOUTS = [
    [], [E(U8)], [E(U16)], [E(I8), E(I16)], [E(U32), E(I32)], [E(U64)], [E(U16), E(U16), E(U16), E(U16)],
    [E(U8, 3), E(U8, 5), E(U16)], [E(U8, 1), E(I8, 7), E(U8)], [E(I8, 4), E(U16), E(U8, 4)], [E(U8, 3)],
    [E(U8, 1), E(U32), E(I8, 2)], [E(I16), E(U8, 7), E(I32)], [E(U8)] * 8,
]
STATE_NAMES = ["OPERATIONAL", "STOPPED", "PRE-OPERATIONAL", "PRE-OPERATIONAL", "INITIALISING", "RESET",
               "RESET COMMUNICATION", "OPERATIONAL", "SLEEP", "STANDBY"]
CMDS = [1, 2, 128, 129, 130, 1, 2, 80, 96, 3, 0, 255]


EN_DIRECT = (True, True, True, "default", "default", False)
EN_FROM_OD = (True, True, True, False, False)
TRANS_TYPES = (None, None, 0, 1, 2, 240, 241, 252, 253, 254, 255)

_CACHE = {}
_BOOL = st.booleans()


def _ints(lo, hi):
    key = ("i", lo, hi)
    if key not in _CACHE:
        _CACHE[key] = st.integers(lo, hi)
    return _CACHE[key]


def _bin(n):
    key = ("b", n)
    if key not in _CACHE:
        _CACHE[key] = st.binary(min_size=n, max_size=n)
    return _CACHE[key]


def pick(draw, seq):
    """sampled_from without building a new strategy object per call (hot path)."""
    return seq[draw(_ints(0, len(seq) - 1))]


@st.composite
def config(draw):
    mod = draw(st.booleans())
    ids = draw(st.lists(st.integers(1, 127), min_size=1, max_size=2, unique=True))
    n_maps = 4 * len(ids)
    cobs = draw(st.lists(st.one_of(st.integers(0x181, 0x57F), st.integers(0x800, 0x1FFFFFFF),
                                   st.sampled_from([0x780, 0x7FE, 0x7FF, 0x800])),
                         min_size=n_maps, max_size=n_maps, unique=True))
    nodes = []
    for nid in ids:
        node = {"id": nid, "hb": draw(hb_st)}
        if draw(st.booleans()):
            node["hb_as_value"] = True
        for direction in ("tpdo", "rpdo"):
            nos = draw(st.lists(st.sampled_from([1, 2, 3, 4, 4, 5, 17, 512]), min_size=0, max_size=2, unique=True))
            maps = []
            for no in nos:
                m = {"no": no, "cob": cobs.pop(), "setup": draw(st.sampled_from(["from_od", "direct"])),
                     "entries": draw(st.sampled_from(LAYOUTS))}
                if m["setup"] == "direct" and draw(st.booleans()):
                    m["sub"] = True
                # further configuration items of a map: valid/enabled mark, RTR allowed, transmission type,
                # inhibit time / event timer / SYNC start value.  Keys are only present when not the default.
                en = pick(draw, EN_DIRECT if m["setup"] == "direct" else EN_FROM_OD)
                if en is not True:
                    m["en"] = en
                rtr = pick(draw, (None, None, True, False))
                if rtr is not None:
                    m["rtr"] = rtr
                tt = pick(draw, TRANS_TYPES)
                if tt is not None:
                    m["tt"] = tt
                if draw(_ints(0, 3)) == 0:
                    m["extra"] = [draw(_ints(0, 65535)), draw(_ints(0, 65535)), draw(_ints(0, 240))]
                maps.append(m)
            if maps:
                node[direction] = maps
        nodes.append(node)
    return {"mod": mod, "nodes": nodes}


def _kinds(model, cfg, late=True):
    """Weighted list of op kinds that are in the domain in the model's current state."""
    k = []
    both = model.connected["M"] and model.connected["S"]
    for net in ("M", "S"):
        if model.connected[net]:
            k += [("sync_start", net)] * 3 + [("sync_start_noarg", net)] * 2
            if late:
                k.append(("disconnect", net))
            if model.sync[net]["running"] is None:
                k.append(("sync_start0", net))
        k += [("sync_stop", net)] * 2 + [("sync_cob", net)]
    if model.pdo:
        k += [("pdo", None)] * 22
    if model.connected["S"]:
        k += [("l_state", None)] * 5 + [("l_cmd", None)] * 2 + [("hb_start", None)] * 3 + [("bus_cmd", None)] * 3
    if model.connected["M"]:
        k += [("m_state", None)] * 3 + [("g_start", None)] * 5
    k += [("hb_stop", None)] * 2 + [("hb_write_local", None)] * 4 + [("g_stop", None)] * 2
    k += [("od_write_local", None), ("hb_refused_local", None)]
    if both:
        k += [("hb_write_remote", None)] * 4 + [("od_write_remote", None), ("hb_refused_remote", None)]
    return k


def _pdo_op(draw, model, key):
    m = model.pdo[key]
    a = {"side": key[0], "node": key[1], "map": key[2]}
    connected = model.connected[m.net]
    kinds = ["stop", "stop_all", "update"]
    if m.layout:
        kinds += ["write"] * 5
    if len(m.data):
        kinds += ["assign"] * 2 + ["poke"]
    if connected:
        kinds += ["start"] * 5
        if valid_period(m.period):
            kinds += ["start_noarg"] * 3
        if m.running is None:
            kinds += ["start0", "period"]
            if not m.subscribed:
                # (maps that take part in reception keep their mark: what `enabled` means for reception is
                # not stated, and the reception ops are wanted)
                kinds += ["enabled"]
            if m.period is None:
                kinds += ["start_noarg"]
            if m.subscribed:
                kinds += ["rx"]
        elif m.subscribed:
            # a frame with the map's own COB-ID on the bus while the map is transmitting (echo, duplicate,
            # second producer): no call on the producer, nothing about its transmission may change
            kinds += ["rx"] * 3
    kind = pick(draw, kinds)
    if kind == "start":
        return {"op": "pdo_start", "p": draw(period_st), **a}
    if kind == "start_noarg":
        return {"op": "pdo_start", "p": None, **a}
    if kind == "start0":
        return {"op": "pdo_start", "p": 0, **a}
    if kind == "stop":
        return {"op": "pdo_stop", **a}
    if kind == "stop_all":
        return {"op": "pdo_stop_all", "side": key[0], "node": key[1], "which": pick(draw, (["pdo", "dir"]))}
    if kind == "update":
        return {"op": "pdo_update", **a}
    if kind == "period":
        return {"op": "pdo_period", "p": draw(period_st), **a}
    if kind == "enabled":
        return {"op": "pdo_enabled", "v": draw(_BOOL), **a}
    if kind == "write":
        var = draw(_ints(0, len(m.layout) - 1))
        off, bits, dt = m.layout[var]
        lo, hi = field_range(dt, bits)
        v = pick(draw, [lo, hi, 0, 1, min(hi, 2)]) if draw(_BOOL) else draw(_ints(lo, hi))
        if draw(_ints(0, 3)) == 0:
            # the value the field holds already (e.g. after a reception or an assignment): still a data
            # update - the running task takes over the map's current data
            cur = (int.from_bytes(bytes(m.data), "little") >> off) & ((1 << bits) - 1)
            if lo < 0 and cur >> (bits - 1):
                cur -= 1 << bits
            v = cur
        return {"op": "pdo_write", "var": var, "v": v, **a}
    if kind == "assign":
        n = len(m.data)
        which = draw(_ints(0, 5))
        data = m.data if which == 0 else bytes(n) if which == 1 else draw(_bin(n))
        return {"op": "pdo_assign", "data": data, "rebind": draw(_BOOL), **a}
    if kind == "poke":
        return {"op": "pdo_poke", "data": draw(_bin(len(m.data))), **a}
    if kind == "rx":
        n = len(m.data)
        ts = round((getattr(m, "clock", None) or m.last_ts or 100.0)
                   + pick(draw, ([0.001, 0.01, 0.25, 1.0, 3.5])), 6)
        return {"op": "pdo_rx", "data": draw(_bin(n)), "ts": ts, **a}
    raise KeyError(kind)


@st.composite
def history(draw, max_ops):
    cfg = draw(config())
    model = Model(cfg)
    ids = [n["id"] for n in cfg["nodes"]]
    node_st = _CACHE.setdefault(("n", tuple(ids)), st.sampled_from(ids))
    n_ops = draw(_ints(1, max_ops))
    ops = []
    for j in range(n_ops):
        kind, net = pick(draw, _kinds(model, cfg, late=2 * j >= n_ops))
        if kind == "sync_start":
            op = {"op": "sync_start", "net": net, "p": draw(period_st)}
        elif kind == "sync_start_noarg":
            op = {"op": "sync_start", "net": net, "p": None}
        elif kind == "sync_start0":
            op = {"op": "sync_start", "net": net, "p": 0}
        elif kind == "sync_stop":
            op = {"op": "sync_stop", "net": net}
        elif kind == "sync_cob":
            op = {"op": "sync_cob", "net": net, "cob": pick(draw, SYNC_COBS)}
        elif kind == "disconnect":
            op = _disc(net, pick(draw, ROUTES))
        elif kind == "pdo":
            key = pick(draw, (sorted(model.pdo)))
            op = _pdo_op(draw, model, key)
        elif kind == "l_state":
            op = {"op": "l_state", "node": draw(node_st), "state": pick(draw, (STATE_NAMES))}
        elif kind == "l_cmd":
            op = {"op": "l_cmd", "node": draw(node_st), "code": pick(draw, (CMDS))}
        elif kind == "m_state":
            op = {"op": "m_state", "node": pick(draw, (ids + [0])),
                  "state": pick(draw, (STATE_NAMES))}
        elif kind == "bus_cmd":
            nid = pick(draw, ids + [0]) if draw(_BOOL) else draw(_ints(0, 127))
            op = {"op": "bus_cmd", "cmd": pick(draw, (CMDS)), "nid": nid}
        elif kind == "hb_start":
            op = {"op": "hb_start", "node": draw(node_st), "ms": draw(hb_st)}
        elif kind == "hb_stop":
            op = {"op": "hb_stop", "node": draw(node_st)}
        elif kind in ("hb_write_local", "hb_write_remote"):
            v = draw(hb_st)
            if not model.connected["S"]:
                v = 0
            op = {"op": "hb_write", "node": draw(node_st), "via": kind[9:], "v": v}
        elif kind in ("hb_refused_local", "hb_refused_remote"):
            op = {"op": "hb_refused", "node": draw(node_st), "via": kind[11:],
                  "data": pick(draw, ([b"\x05", b"\x01\x02\x03", b"\x64\x00\x00\x00"]))}
        elif kind in ("od_write_local", "od_write_remote"):
            op = {"op": "od_write", "node": draw(node_st), "via": kind[9:], "v": draw(_ints(0, 65535))}
        elif kind == "g_start":
            op = {"op": "g_start", "node": draw(node_st), "p": draw(period_st)}
        elif kind == "g_stop":
            op = {"op": "g_stop", "node": draw(node_st)}
        else:
            raise KeyError(kind)
        v = model.apply(op)
        if v.excluded == F1:
            # keep finding F1 out by construction: an update() without change first
            upd = {"op": "pdo_update", "side": op["side"], "node": op["node"], "map": op["map"]}
            model.apply(upd)
            ops.append(upd)
            v = model.apply(op)
        if v.excluded:
            continue
        ops.append(op)
    cfg["ops"] = ops
    return cfg


def search(ctx):
    thorough = ctx.tier == "thorough"
    ctx.enumerate(known_defect_cases(), None)
    # the small directed families first: they are over in a second, also on a loaded machine
    ctx.enumerate(directed_same_value(), "reception on a running map, then a write of the value already there")
    ctx.enumerate(directed_refused_write(), "refused downloads to 0x1017 (wrong length, 6 payloads x local/SDO) in "
                  "4 producer states x 3 heartbeat times, alone and followed by a state change")
    ctx.enumerate(enum_disconnect(thorough), "every subset of 4 PDO maps on 2 nodes x disconnect order x bus kind "
                  "x way of disconnecting (call, __exit__, with block left normally / by an exception) x which "
                  "maps are marked enabled")
    n = 4 if thorough else 3
    ctx.enumerate(enum_pdo(n, not_enabled=True, deal=4),
                  f"pdo, maps not marked enabled: all op sequences up to length {n - 1} on two map variants, "
                  f"every 4th of length {n}")
    n = 5 if thorough else 4
    ctx.enumerate(enum_pdo_rx(n, deal=3 if thorough else 2),
                  f"pdo, frames with the map's own COB-ID on the bus while stopped and while transmitting: all "
                  f"sequences with such a frame up to length {n - 1} over start(p)/start()/stop/frame/write/"
                  f"update on two subscribed maps, every {'3rd' if thorough else '2nd'} of length {n}")
    ctx.enumerate(enum_guard(6 if thorough else 4), f"guarding: all op sequences up to length {6 if thorough else 4}")
    rounds, per_round = (12, 1000) if thorough else (4, 400)
    # thorough: one round of random histories before the three big enumerations, so that a loaded machine
    # that exhausts the budget in them has still seen histories
    early = 1 if thorough else 0
    for k in range(early):
        ctx.hypothesis(history(60), per_round, salt=k)
    ctx.enumerate(enum_sync(6 if thorough else 4), f"sync: all op sequences up to length {6 if thorough else 4}")
    ctx.enumerate(enum_hb(4 if thorough else 3), f"heartbeat: all op sequences up to length {4 if thorough else 3}")
    ctx.enumerate(enum_pdo(5 if thorough else 3), f"pdo: all op sequences up to length {4 if thorough else 2} on two map variants, length "
                  f"{5 if thorough else 3} dealt alternately to the variants")
    # random histories in rounds, so that an exhausted time budget stops the generation as well
    for k in range(early, rounds):
        if ctx.over_budget():
            break
        ctx.hypothesis(history(60), per_round, salt=k)
