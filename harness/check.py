"""Entry point: python -m harness.check C07 --tier quick|thorough"""
from harness.core import main

if __name__ == "__main__":
    main()
