"""C13 - SDO block upload returns exactly the server's data or fails visibly.

SUT: BlockUploadStream via SdoClient.open(..., 'rb', block_transfer=True).
Peer: RefSdoServer (block upload side, bitwise CRC-16/XMODEM); the fault
injector drops / corrupts server frames on the simulated bus.
"""
import math

from hypothesis import strategies as st

from harness.core import Discrepancy, Outcome
from harness.odutil import build_od
from harness.refcodec import crc16_xmodem
from harness.refsdo import RefSdoServer
from harness.simbus import Frame, Hub

PROPERTY = "C13"
LEVEL = "fault_enumeration"
RULE = ("case = (value length and content, CRC requested by client x supported by server, size indicated or "
        "not, client block size 1..127, read route: raw read()/read(k) loops or buffered reader, fault). "
        "Faults: none | drop segment k | flip one bit in the data bytes of segment k | wrong CRC in the end "
        "frame | end frame with wrong n | end frame with wrong command. Enumerated: boundary lengths (7k+-1, "
        "889+-1, 2*889+-1, 1..64) undisturbed over all CRC/size/blksize classes; every segment position k x "
        "fault kind for lengths <= 300; Hypothesis adds random lengths up to 10^4. Oracle: undisturbed => "
        "exact value, strict validation of every client frame (initiate, start, acknowledges with the last "
        "in-order sequence number, final end); fault with CRC negotiated => SdoError or exact value, never "
        "other bytes; without CRC only detectable faults (loss, wrong end command) are asserted. "
        "Non-trivial = more than one sub-block or a fault; distinct = canonical JSON.")
ASSUMPTIONS = [
    "without CRC a flipped bit, a wrong CRC field or a wrong unused-byte count cannot be detected by any "
    "client; those runs are counted as informational and not asserted",
    "BlockUploadStream.blksize is a public class attribute; the harness varies it per case",
]
BUDGET = {"quick": 150, "thorough": 420}
NODE = 2


def payload(n, salt):
    if salt % 4 == 1:
        # mostly zero bytes (whole segments of zeros after non-zero data): an erased / sparse domain
        return bytes((((i * 29 + salt) % 255) + 1) if i % 23 == salt % 23 else 0 for i in range(n))
    if salt % 4 == 3 and n > 9:
        # one zero segment in otherwise dense data
        z = 7 * ((salt // 4) % max(1, n // 7))
        return bytes(0 if z <= i < z + 7 else ((i * 29 + salt * 5 + (i >> 7)) % 255) + 1 for i in range(n))
    return bytes(((i * 29 + salt * 5 + (i >> 7)) % 255) + 1 for i in range(n))


def run_case(case) -> Outcome:
    import canopen
    from canopen.sdo.exceptions import SdoError
    from canopen.sdo.client import BlockUploadStream
    n = case["len"]
    data = bytes(case["data"]) if "data" in case else payload(n, case.get("salt", 0))
    hub = Hub()
    srv = RefSdoServer(0x600 + NODE, 0x580 + NODE)
    srv.attach(hub)
    srv.crc_support = case.get("crc_srv", True)
    srv.block_size_indicated = case.get("size_ind", True)
    index, sub = 0x3000 + (n & 0xFF), (n >> 3) & 0xFF
    srv.store[(index, sub)] = data
    net, port = hub.attach("client")
    node = canopen.RemoteNode(NODE, build_od([]))
    net.add_node(node)
    node.sdo.RESPONSE_TIMEOUT = 0.004
    pre = case.get("pre")
    if pre:
        # an earlier block upload of another object through the same client, given up half-way with
        # part of a segment still un-read; nothing of it may show up in the transfer under test
        srv.store[(0x2FFF, 1)] = bytes([0xEE]) * pre["len"]
        try:
            fp0 = node.sdo.open(0x2FFF, 1, "rb", block_transfer=True, buffering=pre.get("buffering", 0))
            if pre.get("buffering", 0) == 0:
                fp0.readinto(bytearray(pre.get("k", 4)))
            else:
                fp0.read(pre.get("k", 4))
            fp0.close()
        except SdoError:
            pass
        srv._reset()
        srv.errors.clear()
        srv.acks = [] if srv.acks is not None else None
        srv.completed_block_uploads = 0
        srv.client_aborts = type(srv.client_aborts)()
    fault = case.get("fault")
    hit = {"n": 0, "seg": 0}

    def flt(fr, h):
        if fault is None or fr.can_id != srv.tx_id:
            return [fr]
        if srv.state == srv.BUL_ACK and fr.data[:1] != b"\x80":
            k = hit["seg"]
            hit["seg"] += 1
            if fault["kind"] in ("drop", "flip") and k == fault["k"]:
                hit["n"] += 1
                if fault["kind"] == "drop":
                    return []
                d = bytearray(fr.data)
                # only bytes that carry data: position of this segment in the value
                seq = d[0] & 0x7F
                base = srv.pos + 7 * (seq - 1)
                valid = max(1, min(7, len(data) - base))
                byte = 1 + fault.get("byte", 0) % valid
                d[byte] ^= 1 << (fault.get("bit", 0) % 8)
                return [Frame(fr.can_id, bytes(d), ts=fr.ts, src=fr.src)]
        elif srv.state == srv.BUL_END and fault["kind"] in ("end_n", "end_cs", "crc"):
            d = bytearray(fr.data)
            hit["n"] += 1
            if fault["kind"] == "end_n":
                nn = (d[0] >> 2) & 7
                d[0] = (d[0] & 0xE3) | (((nn + 1 + fault.get("k", 0) % 6) % 8) << 2)
            elif fault["kind"] == "crc":
                x = (fault.get("k", 0) % 0xFFFF) + 1
                d[1] ^= x & 0xFF
                d[2] ^= x >> 8
            else:
                d[0] = [0xC0, 0xC2, 0xC3, 0x60, 0xA1, 0x41][fault.get("k", 0) % 6] | (d[0] & 0x1C)
            return [Frame(fr.can_id, bytes(d), ts=fr.ts, src=fr.src)]
        return [fr]

    hub.filter = flt
    old_blk = BlockUploadStream.blksize
    BlockUploadStream.blksize = case.get("blksize", 127)
    exc = None
    got = None
    early = None
    try:
        fp = node.sdo.open(index, sub, "rb", block_transfer=True, buffering=case.get("buffering", 0),
                           request_crc_support=case.get("crc_req", True))
        with fp:
            reads = case.get("reads")
            if not reads:
                got = fp.read()
            else:
                got = b""
                i = 0
                while True:
                    k = reads[i % len(reads)]
                    i += 1
                    if k is not None and k < 0:
                        buf = bytearray(-k)          # readinto() with a buffer that may be smaller than a segment
                        nread = fp.readinto(buf)
                        chunk = bytes(buf[:nread or 0])
                    else:
                        chunk = fp.read() if k is None else fp.read(k)
                    if not chunk:
                        break
                    got += chunk
                    if k is None:
                        # io contract: read() without a size returns everything up to the end
                        more = fp.read()
                        if more:
                            early = (chunk, more)
                            got += more
                        break
    except Exception as e:
        exc = e
    finally:
        BlockUploadStream.blksize = old_blk
    D = []
    crc = case.get("crc_req", True) and srv.crc_support
    nsegs = max(1, math.ceil(n / 7))
    where = (f"len {n} crc {case.get('crc_req', True)}/{srv.crc_support} size_ind {srv.block_size_indicated} "
             f"blksize {case.get('blksize', 127)} buffering {case.get('buffering', 0)} reads {case.get('reads')} "
             f"fault {fault}")
    faulted = fault is not None and hit["n"] > 0
    if fault is not None and not faulted:
        return Outcome(excluded="fault position beyond the end of the transfer")
    if not faulted:
        kind = "undisturbed"
        if exc is not None:
            D.append(Discrepancy("C13/undisturbed/raises", f"{where}: {type(exc).__name__}: {exc}; "
                                                           f"server saw {srv.errors[:2]}"))
        elif early is not None:
            D.append(Discrepancy("C13/undisturbed/read-all-stops-early",
                                 f"{where}: read() returned {early[0][:20].hex()}({len(early[0])}B) although "
                                 f"{early[1][:20].hex()}({len(early[1])}B) was still to come"))
        elif bytes(got) != data:
            D.append(Discrepancy("C13/undisturbed/bytes", f"{where}: returned {bytes(got)[:20].hex()}"
                                                          f"({len(got)}B) want {data[:20].hex()}({len(data)}B)"))
        elif srv.errors:
            D.append(Discrepancy(f"C13/undisturbed/frame/{srv.errors[0].kind}", f"{where}: {srv.errors[0]}"))
        elif srv.completed_block_uploads != 1 or srv.state != srv.IDLE:
            D.append(Discrepancy("C13/undisturbed/not-closed", f"{where}: the client did not close the "
                                                               f"transfer with the end request"))
        elif any(a != s for a, s in (srv.acks or [])):
            D.append(Discrepancy("C13/undisturbed/ackseq", f"{where}: acknowledges (ackseq, sent) = "
                                                           f"{srv.acks[:5]}"))
        elif srv.client_aborts:
            D.append(Discrepancy("C13/undisturbed/abort", f"{where}: client aborted {srv.client_aborts}"))
    else:
        detectable = crc or fault["kind"] in ("drop", "end_cs")
        kind = f"fault-{fault['kind']}/" + ("asserted" if detectable else "informational")
        if exc is None:
            kind += "/returned"
            if bytes(got) != data and crc and fault["kind"] != "crc" and \
                    crc16_xmodem(bytes(got)) == crc16_xmodem(data):
                # e.g. a trailing zero byte dropped by a wrong unused-byte count: CRC-16/XMODEM (initial
                # value 0) is blind to it, so no client can notice
                return Outcome(excluded="the corrupted stream has the same CRC-16 as the value "
                                        "(undetectable by any client)")
            if bytes(got) != data and detectable:
                D.append(Discrepancy(f"C13/fault/{fault['kind']}/wrong-data-returned",
                                     f"{where}: returned {bytes(got)[:20].hex()}({len(got)}B) instead of "
                                     f"{data[:20].hex()}({len(data)}B) or an SDO error"))
        else:
            kind += "/raised"
            if not isinstance(exc, SdoError) and detectable:
                D.append(Discrepancy(f"C13/fault/{fault['kind']}/not-an-sdo-error",
                                     f"{where}: {type(exc).__name__}: {exc}"))
    nontrivial = faulted or nsegs > case.get("blksize", 127)
    return Outcome(nontrivial, f"{kind}/{'crc' if crc else 'nocrc'}/"
                               f"{'multi' if nsegs > case.get('blksize', 127) else 'single'}-block", D)


# ---- generation ---------------------------------------------------------------
def boundary_lengths():
    s = set(range(1, 65))
    for k in range(1, 22):
        s |= {7 * k - 1, 7 * k, 7 * k + 1}
    for m in (1, 2, 3):
        s |= {889 * m - 1, 889 * m, 889 * m + 1}
    return sorted(s)


ROUTES = [(0, None), (0, [7]), (0, [1]), (0, [100]), (1024, None), (1024, [5]), (3, None), (7, [9]), (8192, [64]),
          (3, [1, None]), (5, [2, 2, None]), (1024, [10, None]), (0, [-3, None]), (0, [-1, -9, 7]), (7, [-2, None]),
          (0, [-6, -6, None])]


def enum_undisturbed():
    i = 0
    for n in boundary_lengths():
        for crc_req, crc_srv in ((True, True), (True, False), (False, True), (False, False)):
            for size_ind in (True, False):
                for blk in (127, 1, 2, 5, 126) if n < 200 or True else (127,):
                    if math.ceil(n / 7) / blk > 300:
                        continue
                    i += 1
                    b, r = ROUTES[i % len(ROUTES)]
                    yield {"len": n, "salt": i % 17, "crc_req": crc_req, "crc_srv": crc_srv,
                           "size_ind": size_ind, "blksize": blk, "buffering": b, "reads": r}
                    if i % 11 == 0:
                        yield {"len": n, "salt": i % 17, "crc_req": crc_req, "crc_srv": crc_srv,
                               "size_ind": size_ind, "blksize": blk, "buffering": b, "reads": r,
                               "pre": {"len": (20, 8, 2000)[i % 3], "k": 1 + i % 6, "buffering": (0, 1024)[i % 2]}}


def enum_faults():
    i = 0
    for n in list(range(1, 301, 4)) + [6, 7, 8, 13, 14, 15, 20, 21, 22, 28, 49, 56, 63, 64, 70, 140, 147, 294, 300]:
        nsegs = math.ceil(n / 7)
        for blk in (127, 3, 1, 10):
            for k in range(nsegs):
                for kind in ("drop", "flip"):
                    i += 1
                    yield {"len": n, "salt": i % 11, "crc_req": i % 5 != 0, "crc_srv": True, "size_ind": i % 3 != 0,
                           "blksize": blk, "buffering": 0 if i % 2 else 1024, "reads": None,
                           "fault": {"kind": kind, "k": k, "byte": i % 7, "bit": i % 8}}
            for kind in ("crc", "end_n", "end_cs"):
                for k in range(6):
                    i += 1
                    yield {"len": n, "salt": i % 11, "crc_req": i % 7 != 0, "crc_srv": True, "size_ind": i % 3 != 0,
                           "blksize": blk, "buffering": 0, "reads": None, "fault": {"kind": kind, "k": k}}


@st.composite
def rand_case(draw, max_len):
    n = draw(st.one_of(st.sampled_from(boundary_lengths()), st.integers(1, 400),
                       st.integers(1, int(math.log2(max_len) * 8)).map(lambda e: max(1, min(max_len, int(2 ** (e / 8.0)))))))
    blk = draw(st.one_of(st.just(127), st.integers(1, 127)))
    nsegs = math.ceil(n / 7)
    if nsegs / blk > 400:
        blk = 127
    case = {"len": n, "crc_req": draw(st.booleans()), "crc_srv": draw(st.booleans()),
            "size_ind": draw(st.booleans()), "blksize": blk}
    if n <= 1500 and draw(st.booleans()):
        case["data"] = draw(st.binary(min_size=n, max_size=n))
    else:
        case["salt"] = draw(st.integers(0, 250))
    case["buffering"] = draw(st.sampled_from([0, 0, 2, 3, 7, 64, 1024, 8192]))
    case["reads"] = draw(st.one_of(st.none(), st.lists(st.integers(1, 80), min_size=1, max_size=3),
                                   st.lists(st.integers(1, 9), min_size=1, max_size=2).map(lambda l: l + [None]),
                                   st.lists(st.one_of(st.integers(-9, -1), st.integers(1, 9), st.none()),
                                            min_size=1, max_size=4)))
    if draw(st.integers(0, 4)) == 0:
        case["pre"] = {"len": draw(st.sampled_from([8, 20, 100, 2000])), "k": draw(st.integers(1, 6)),
                       "buffering": draw(st.sampled_from([0, 0, 1024]))}
    kind = draw(st.sampled_from(["none", "none", "drop", "flip", "crc", "end_n", "end_cs"]))
    if kind != "none":
        case["fault"] = {"kind": kind, "k": draw(st.integers(0, max(0, nsegs - 1))),
                         "byte": draw(st.integers(0, 6)), "bit": draw(st.integers(0, 7))}
    return case


def search(ctx):
    thorough = ctx.tier == "thorough"
    ctx.enumerate(enum_undisturbed(), "boundary lengths x CRC x size indication x client block size, undisturbed")
    ctx.enumerate(enum_faults(), "every segment position x {drop, flip} and end-frame faults, lengths <= 300")
    ctx.hypothesis(rand_case(10000 if thorough else 3000), 25000 if thorough else 500)
