"""C13 - SDO block upload returns exactly the server's data or fails visibly.

SUT: BlockUploadStream via SdoClient.open(..., 'rb', block_transfer=True).
Peer: RefSdoServer (block upload side, bitwise CRC-16/XMODEM); the fault
injector drops / corrupts server frames on the simulated bus.
"""
import math
import struct

from hypothesis import strategies as st

from harness.core import Discrepancy, Outcome
from harness.odutil import build_od
from harness.refcodec import crc16_xmodem
from harness.refsdo import RefSdoServer
from harness.simbus import Frame, Hub

PROPERTY = "C13"
LEVEL = "fault_enumeration"
RULE = ("case = (value length and content, CRC requested by client x supported by server, size indicated or "
        "not, client block size 1..127, read route, fault, optional earlier/later transfer through the same "
        "client). Read routes: raw read()/read(k)/readinto(small buffer) loops or buffered reader, either until "
        "an empty chunk (EOF read) or - 'stop' routes - exactly the value's length and then close() with no "
        "EOF read ever made (read(size), read(7) x size, readinto counted against the size). "
        "Faults: none | drop segment k | flip one bit in the data bytes of segment k | wrong CRC in the end "
        "frame (xor of 1..16 bits, byte-swapped, 0x0000, 0xFFFF, complement, high/low byte only, +-1, high byte "
        "lost, CRC with initial value 0xFFFF, CRC over the padded last segment) | end frame with wrong n | end "
        "frame with a wrong command and the original n | end frame replaced (wrong command x any n, all-zero "
        "frame, echo of the initiate response, duplicate of the last segment, an abort, one flipped bit of the "
        "command byte) | end frame lost. Enumerated: boundary lengths (7k+-1, "
        "889+-1, 2*889+-1, 1..64) undisturbed over all CRC/size/blksize classes, once with EOF routes and once "
        "with exact-size routes; every segment position k x {drop, flip} for lengths <= 300 with EOF routes and "
        "for 25 lengths <= 300 (+ 889, 890, 1778 at sub-block edges) with exact-size routes; every end-frame "
        "variant x CRC on/off x both route families for 21 lengths; Hypothesis adds random lengths up to 10^4. "
        "Oracle: undisturbed => "
        "exact value, strict validation of every client frame (initiate, start, acknowledges with the last "
        "in-order sequence number, final end request seen by the server when close() returns, whatever the read "
        "route); the reference server honours a protocol switch threshold announced by the client (pst > 0 and "
        "value not longer: it answers with the normal upload protocol, as CiA 301 allows). Fault with CRC "
        "negotiated => SdoError or exact value, never "
        "other bytes; an end frame that is well-formed, keeps n and carries a checksum different from the CRC of "
        "the value (CRC negotiated) => SdoError is required, returning is a discrepancy even with the right "
        "bytes; without CRC only detectable faults (loss of a segment or of the end frame, an end frame that is "
        "not 0xC1|n<<2) are asserted. The end-frame verdict is computed from the frame actually delivered "
        "(well-formed? which n? which CRC over the bytes that n leaves?), not from the fault's name. "
        "A later undisturbed block upload of a second object through the same client (after an undisturbed or a "
        "disturbed first one) must again return exactly its value and be closed. "
        "Non-trivial = more than one sub-block or a fault; distinct = canonical JSON.")
ASSUMPTIONS = [
    "without CRC a flipped bit, a wrong CRC field or a wrong unused-byte count cannot be detected by any "
    "client; those runs are counted as informational and not asserted",
    "BlockUploadStream.blksize is a public class attribute; the harness varies it per case",
    "a caller that knows the value's length (announced size, or the object dictionary) may read exactly that "
    "many bytes and close; the transfer counts as closed when the server has seen the end request by the time "
    "close() / the with-block returns",
    "a lost end frame is treated as a (degenerate) wrong end frame: only 'SdoError or exact value' is asserted",
    "before the later transfer that follows a disturbed one the reference server is put back to idle (what "
    "a disturbed transfer leaves in the server is not judged); what it leaves in the client is",
]
BUDGET = {"quick": 150, "thorough": 420}
NODE = 2


def payload(n, salt):
    if salt % 4 == 1:
        # mostly zero bytes (whole segments of zeros after non-zero data): an erased / sparse domain
        return bytes((((i * 29 + salt) % 255) + 1) if i % 23 == salt % 23 else 0 for i in range(n))
    if salt % 4 == 3 and n > 9:
        # one zero segment in otherwise dense data
        z = 7 * ((salt // 4) % max(1, n // 7))
        return bytes(0 if z <= i < z + 7 else ((i * 29 + salt * 5 + (i >> 7)) % 255) + 1 for i in range(n))
    return bytes(((i * 29 + salt * 5 + (i >> 7)) % 255) + 1 for i in range(n))


class _Server(RefSdoServer):
    """RefSdoServer that also honours the protocol switch threshold of the block upload initiate request:
    a client that announces pst > 0 allows the server to answer with the normal (expedited / segmented)
    upload protocol when the value is not longer than pst bytes - and this server then does."""

    def _block_upload(self, d):
        if d[0] & 3 == 0 and not d[0] & 0x18 and d[5] and 1 <= d[4] <= 127 and not (d[6] or d[7]):
            value = self._read(struct.unpack_from("<HB", d, 1))
            if isinstance(value, (bytes, bytearray)) and len(value) <= d[5]:
                return self._init_upload(d, from_block=True)
        return super()._block_upload(d)


# wrong command bytes for the end frame (bits 4..2 = n are filled in separately)
END_CS = [0xC0, 0xC2, 0xC3, 0x60, 0xA1, 0x41, 0xE1, 0x81, 0x21, 0x01]
CRC_MODES = ["swap", "zero", "ones", "inv", "hi", "lo", "inc", "dec", "trunc", "init_ffff", "padded"]
END_KINDS = ("end_n", "end_cs", "crc", "end_x", "end_drop")


def wrong_crc(c, mode, k, data, nsegs):
    """A structured wrong value for the checksum field (may coincide with the right one: judged later)."""
    if mode == "swap":
        return ((c & 0xFF) << 8) | (c >> 8)
    if mode == "zero":
        return 0
    if mode == "ones":
        return 0xFFFF
    if mode == "inv":
        return c ^ 0xFFFF
    if mode == "hi":
        return c ^ (0x0100 << (k % 8))
    if mode == "lo":
        return c ^ (1 << (k % 8))
    if mode == "inc":
        return (c + 1) & 0xFFFF
    if mode == "dec":
        return (c - 1) & 0xFFFF
    if mode == "trunc":
        return c & 0xFF
    if mode == "init_ffff":
        return crc16_xmodem(data, 0xFFFF)
    if mode == "padded":
        return crc16_xmodem(data.ljust(7 * nsegs, b"\0"))
    raise ValueError(mode)


def judge_end(frame, crc_on, data, nsegs):
    """What does the end frame that was actually delivered say, and can a client know that it is wrong?

    'invalid'      not an end-of-block-upload response (0xC1 | n << 2): any client can see it
    'wrong-crc'    well-formed, right n, checksum differs from the CRC of the value (CRC negotiated)
    'wrong-n'      well-formed, other n, checksum does not fit the bytes that this n leaves (CRC negotiated)
    'collision'    well-formed, other n, but the checksum fits the bytes that this n leaves: undetectable
    'undetectable' well-formed, other n, no CRC negotiated
    'same'         says the same as the server's frame in everything that is significant
    """
    frame = bytes(frame)
    if len(frame) != 8 or (frame[0] & 0xE3) != 0xC1:
        return "invalid"
    padded = data.ljust(7 * nsegs, b"\0")
    n_true = len(padded) - len(data)
    n2 = (frame[0] >> 2) & 7
    if not crc_on:
        return "same" if n2 == n_true else "undetectable"
    left = padded[:len(padded) - n2]
    if frame[1] | (frame[2] << 8) == crc16_xmodem(left):
        return "same" if left == data else "collision"
    return "wrong-crc" if n2 == n_true else "wrong-n"


def _consume(fp, case, n):
    """Read the stream the way the case says. -> (bytes, early)"""
    reads = case.get("reads")
    early = None
    if case.get("stop"):
        # the caller knows the length: exactly that many bytes are asked for, then the stream is closed;
        # no read ever reports end of file (unless the stream ends early)
        reads = reads or [0]
        got = b""
        i = 0
        while len(got) < n:
            k = reads[i % len(reads)]
            i += 1
            rem = n - len(got)
            if k is not None and k < 0:
                buf = bytearray(min(-k, rem))
                nread = fp.readinto(buf)
                chunk = bytes(buf[:nread or 0])
            else:
                chunk = fp.read(min(k, rem) if k else rem)
            if not chunk:
                break
            got += chunk
        return got, early
    if not reads:
        return fp.read(), early
    got = b""
    i = 0
    while True:
        k = reads[i % len(reads)]
        i += 1
        if k is not None and k < 0:
            buf = bytearray(-k)          # readinto() with a buffer that may be smaller than a segment
            nread = fp.readinto(buf)
            chunk = bytes(buf[:nread or 0])
        else:
            chunk = fp.read() if k is None else fp.read(k)
        if not chunk:
            break
        got += chunk
        if k is None:
            # io contract: read() without a size returns everything up to the end
            more = fp.read()
            if more:
                early = (chunk, more)
                got += more
            break
    return got, early


def run_case(case) -> Outcome:
    import canopen
    from canopen.sdo.exceptions import SdoError
    from canopen.sdo.client import BlockUploadStream
    n = case["len"]
    data = bytes(case["data"]) if "data" in case else payload(n, case.get("salt", 0))
    hub = Hub()
    srv = _Server(0x600 + NODE, 0x580 + NODE)
    srv.attach(hub)
    srv.crc_support = case.get("crc_srv", True)
    srv.block_size_indicated = case.get("size_ind", True)
    index, sub = 0x3000 + (n & 0xFF), (n >> 3) & 0xFF
    srv.store[(index, sub)] = data
    net, port = hub.attach("client")
    node = canopen.RemoteNode(NODE, build_od([]))
    net.add_node(node)
    node.sdo.RESPONSE_TIMEOUT = 0.004
    nsegs = max(1, math.ceil(n / 7))

    def forget():
        srv._reset()
        srv.errors.clear()
        srv.acks = [] if srv.acks is not None else None
        srv.completed_block_uploads = 0
        srv.client_aborts = type(srv.client_aborts)()

    pre = case.get("pre")
    if pre:
        # an earlier block upload of another object through the same client, given up half-way with
        # part of a segment still un-read; nothing of it may show up in the transfer under test
        srv.store[(0x2FFF, 1)] = bytes([0xEE]) * pre["len"]
        try:
            fp0 = node.sdo.open(0x2FFF, 1, "rb", block_transfer=True, buffering=pre.get("buffering", 0))
            if pre.get("buffering", 0) == 0:
                fp0.readinto(bytearray(pre.get("k", 4)))
            else:
                fp0.read(pre.get("k", 4))
            fp0.close()
        except SdoError:
            pass
        forget()
    fault = case.get("fault")
    hit = {"n": 0, "seg": 0, "init": None, "lastseg": None, "end": None}

    def flt(fr, h):
        if fault is None or fr.can_id != srv.tx_id:
            return [fr]
        if srv.state == srv.BUL_START:
            hit["init"] = bytes(fr.data)
        if srv.state == srv.BUL_ACK and fr.data[:1] != b"\x80":
            k = hit["seg"]
            hit["seg"] += 1
            hit["lastseg"] = bytes(fr.data)
            if fault["kind"] in ("drop", "flip") and k == fault["k"]:
                hit["n"] += 1
                if fault["kind"] == "drop":
                    return []
                d = bytearray(fr.data)
                # only bytes that carry data: position of this segment in the value
                seq = d[0] & 0x7F
                base = srv.pos + 7 * (seq - 1)
                valid = max(1, min(7, len(data) - base))
                byte = 1 + fault.get("byte", 0) % valid
                d[byte] ^= 1 << (fault.get("bit", 0) % 8)
                return [Frame(fr.can_id, bytes(d), ts=fr.ts, src=fr.src)]
        elif srv.state == srv.BUL_END and fault["kind"] in END_KINDS:
            d = bytearray(fr.data)
            hit["n"] += 1
            kk = fault.get("k", 0)
            if fault["kind"] == "end_drop":
                return []
            if fault["kind"] == "end_n":
                nn = (d[0] >> 2) & 7
                d[0] = (d[0] & 0xE3) | (((nn + 1 + kk % 6) % 8) << 2)
            elif fault["kind"] == "crc":
                if "mode" in fault:
                    x = wrong_crc(d[1] | (d[2] << 8), fault["mode"], kk, data, nsegs)
                    d[1], d[2] = x & 0xFF, x >> 8
                else:
                    x = (kk % 0xFFFF) + 1
                    d[1] ^= x & 0xFF
                    d[2] ^= x >> 8
            elif fault["kind"] == "end_cs":
                d[0] = [0xC0, 0xC2, 0xC3, 0x60, 0xA1, 0x41][kk % 6] | (d[0] & 0x1C)
            else:
                how = fault["how"]
                if how == "cs":
                    # wrong command; the n bits are whatever the case says (None: the server's)
                    nb = (d[0] & 0x1C) if fault.get("n") is None else ((fault["n"] % 8) << 2)
                    d[0] = (END_CS[kk % len(END_CS)] & 0xE3) | nb
                elif how == "zero":
                    d = bytearray(8)
                elif how == "init":
                    d = bytearray(hit["init"] or bytes(8))
                elif how == "dup":
                    d = bytearray(hit["lastseg"] or bytes(8))
                elif how == "abort":
                    d = bytearray(struct.pack("<BHBL", 0x80, index, sub, 0x08000000))
                elif how == "bit":
                    d[0] ^= 1 << (kk % 8)
                else:
                    raise ValueError(how)
            hit["end"] = bytes(d)
            return [Frame(fr.can_id, bytes(d), ts=fr.ts, src=fr.src)]
        return [fr]

    hub.filter = flt
    old_blk = BlockUploadStream.blksize
    BlockUploadStream.blksize = case.get("blksize", 127)
    exc = None
    got = None
    early = None
    post = case.get("post")
    post_res = None
    try:
        try:
            fp = node.sdo.open(index, sub, "rb", block_transfer=True, buffering=case.get("buffering", 0),
                               request_crc_support=case.get("crc_req", True))
            with fp:
                got, early = _consume(fp, case, n)
        except Exception as e:
            exc = e
        first = {"errors": list(srv.errors), "completed": srv.completed_block_uploads, "state": srv.state,
                 "acks": list(srv.acks or []), "aborts": list(srv.client_aborts)}
        if post:
            # a later, undisturbed block upload of another object through the same client
            hub.filter = None
            if fault is not None and hit["n"] > 0:
                forget()
            else:
                srv.errors.clear()
                srv.completed_block_uploads = 0
            data2 = payload(post["len"], post.get("salt", 5))
            srv.store[(0x2FFE, 2)] = data2
            try:
                with node.sdo.open(0x2FFE, 2, "rb", block_transfer=True, buffering=post.get("buffering", 0)) as fp2:
                    post_res = (fp2.read(), None)
            except Exception as e:
                post_res = (None, e)
    finally:
        BlockUploadStream.blksize = old_blk
    D = []
    crc = case.get("crc_req", True) and srv.crc_support
    where = (f"len {n} crc {case.get('crc_req', True)}/{srv.crc_support} size_ind {srv.block_size_indicated} "
             f"blksize {case.get('blksize', 127)} buffering {case.get('buffering', 0)} reads {case.get('reads')} "
             f"{'exact-size ' if case.get('stop') else ''}fault {fault}")
    faulted = fault is not None and hit["n"] > 0
    if fault is not None and not faulted:
        return Outcome(excluded="fault position beyond the end of the transfer")
    route = "/exact-size" if case.get("stop") else ""
    if not faulted:
        kind = "undisturbed" + route
        if exc is not None:
            D.append(Discrepancy("C13/undisturbed/raises", f"{where}: {type(exc).__name__}: {exc}; "
                                                           f"server saw {first['errors'][:2]}"))
        elif early is not None:
            D.append(Discrepancy("C13/undisturbed/read-all-stops-early",
                                 f"{where}: read() returned {early[0][:20].hex()}({len(early[0])}B) although "
                                 f"{early[1][:20].hex()}({len(early[1])}B) was still to come"))
        elif bytes(got) != data:
            D.append(Discrepancy("C13/undisturbed/bytes", f"{where}: returned {bytes(got)[:20].hex()}"
                                                          f"({len(got)}B) want {data[:20].hex()}({len(data)}B)"))
        elif first["errors"]:
            D.append(Discrepancy(f"C13/undisturbed/frame/{first['errors'][0].kind}",
                                 f"{where}: {first['errors'][0]}"))
        elif first["completed"] != 1 or first["state"] != srv.IDLE:
            D.append(Discrepancy("C13/undisturbed/not-closed", f"{where}: the client did not close the "
                                                               f"transfer with the end request"))
        elif any(a != s for a, s in first["acks"]):
            D.append(Discrepancy("C13/undisturbed/ackseq", f"{where}: acknowledges (ackseq, sent) = "
                                                           f"{first['acks'][:5]}"))
        elif first["aborts"]:
            D.append(Discrepancy("C13/undisturbed/abort", f"{where}: client aborted {first['aborts']}"))
    else:
        fk = fault["kind"]
        must_raise = False
        if fk in ("drop", "flip"):
            detectable = crc or fk == "drop"
            label = fk
        elif fk == "end_drop":
            detectable = True
            label = fk
        else:
            verdict = judge_end(hit["end"], crc, data, nsegs)
            if verdict == "same" and crc:
                return Outcome(excluded="the modified end frame says the same as the server's")
            if verdict == "collision":
                return Outcome(excluded="the corrupted stream has the same CRC-16 as the value "
                                        "(undetectable by any client)")
            detectable = verdict in ("invalid", "wrong-crc", "wrong-n")
            must_raise = verdict == "wrong-crc"
            label = fk
            if fk == "end_x":
                label += "-" + (fault["how"] if fault["how"] in ("cs", "bit") else "frame")
            elif "mode" in fault:
                label += "-structured"
        kind = f"fault-{label}{route}/" + ("asserted" if detectable else "informational")
        if exc is None:
            kind += "/returned"
            if bytes(got) != data and crc and fk not in ("crc", "drop") and \
                    crc16_xmodem(bytes(got)) == crc16_xmodem(data):
                # e.g. a trailing zero byte dropped by a wrong unused-byte count: CRC-16/XMODEM (initial
                # value 0) is blind to it, so no client can notice
                return Outcome(excluded="the corrupted stream has the same CRC-16 as the value "
                                        "(undetectable by any client)")
            if bytes(got) != data and detectable:
                D.append(Discrepancy(f"C13/fault/{fk}/wrong-data-returned",
                                     f"{where}: returned {bytes(got)[:20].hex()}({len(got)}B) instead of "
                                     f"{data[:20].hex()}({len(data)}B) or an SDO error"))
            elif must_raise:
                D.append(Discrepancy(f"C13/fault/{fk}/wrong-checksum-accepted",
                                     f"{where}: CRC negotiated, the end frame {hit['end'].hex()} carries a "
                                     f"checksum that is not the CRC-16 0x{crc16_xmodem(data):04X} of the value, "
                                     f"yet the upload returned ({len(got)}B) without an SDO error"))
        else:
            kind += "/raised"
            if not isinstance(exc, SdoError) and detectable:
                D.append(Discrepancy(f"C13/fault/{fk}/not-an-sdo-error",
                                     f"{where}: {type(exc).__name__}: {exc}"))
    if post and not D:
        if not faulted:
            kind += "/then-second"
        got2, exc2 = post_res
        w2 = f"{where}; then block upload of a second object ({post['len']}B, buffering {post.get('buffering', 0)})"
        if exc2 is not None:
            D.append(Discrepancy("C13/second-transfer/raises", f"{w2}: {type(exc2).__name__}: {exc2}; "
                                                               f"server saw {srv.errors[:2]}"))
        elif bytes(got2) != data2:
            D.append(Discrepancy("C13/second-transfer/bytes", f"{w2}: returned {bytes(got2)[:20].hex()}"
                                                              f"({len(got2)}B) want {data2[:20].hex()}({len(data2)}B)"))
        elif srv.errors:
            D.append(Discrepancy(f"C13/second-transfer/frame/{srv.errors[0].kind}", f"{w2}: {srv.errors[0]}"))
        elif srv.completed_block_uploads != 1 or srv.state != srv.IDLE:
            D.append(Discrepancy("C13/second-transfer/not-closed", f"{w2}: the client did not close the transfer"))
    nontrivial = faulted or nsegs > case.get("blksize", 127)
    return Outcome(nontrivial, f"{kind}/{'crc' if crc else 'nocrc'}/"
                               f"{'multi' if nsegs > case.get('blksize', 127) else 'single'}-block", D)


# ---- generation ---------------------------------------------------------------
def boundary_lengths():
    s = set(range(1, 65))
    for k in range(1, 22):
        s |= {7 * k - 1, 7 * k, 7 * k + 1}
    for m in (1, 2, 3):
        s |= {889 * m - 1, 889 * m, 889 * m + 1}
    return sorted(s)


ROUTES = [(0, None), (0, [7]), (0, [1]), (0, [100]), (1024, None), (1024, [5]), (3, None), (7, [9]), (8192, [64]),
          (3, [1, None]), (5, [2, 2, None]), (1024, [10, None]), (0, [-3, None]), (0, [-1, -9, 7]), (7, [-2, None]),
          (0, [-6, -6, None])]
# exact-size routes (case["stop"]): 0 = "everything that is left" in one call, k > 0 = read(min(k, left)),
# k < 0 = readinto(buffer of min(-k, left) bytes)
STOP_ROUTES = [(0, [7]), (1024, [0]), (0, [-3]), (1024, [5]), (3, [0]), (0, [-7, -1]), (8192, [64]), (7, [-2]),
               (0, [1]), (2, [9, -4]), (0, [0]), (16, [7])]


def enum_undisturbed():
    i = 0
    for n in boundary_lengths():
        for crc_req, crc_srv in ((True, True), (True, False), (False, True), (False, False)):
            for size_ind in (True, False):
                for blk in (127, 1, 2, 5, 126) if n < 200 or True else (127,):
                    if math.ceil(n / 7) / blk > 300:
                        continue
                    i += 1
                    b, r = ROUTES[i % len(ROUTES)]
                    yield {"len": n, "salt": i % 17, "crc_req": crc_req, "crc_srv": crc_srv,
                           "size_ind": size_ind, "blksize": blk, "buffering": b, "reads": r}
                    if i % 11 == 0:
                        yield {"len": n, "salt": i % 17, "crc_req": crc_req, "crc_srv": crc_srv,
                               "size_ind": size_ind, "blksize": blk, "buffering": b, "reads": r,
                               "pre": {"len": (20, 8, 2000)[i % 3], "k": 1 + i % 6, "buffering": (0, 1024)[i % 2]}}


def enum_faults():
    i = 0
    for n in list(range(1, 301, 4)) + [6, 7, 8, 13, 14, 15, 20, 21, 22, 28, 49, 56, 63, 64, 70, 140, 147, 294, 300]:
        nsegs = math.ceil(n / 7)
        for blk in (127, 3, 1, 10):
            for k in range(nsegs):
                for kind in ("drop", "flip"):
                    i += 1
                    yield {"len": n, "salt": i % 11, "crc_req": i % 5 != 0, "crc_srv": True, "size_ind": i % 3 != 0,
                           "blksize": blk, "buffering": 0 if i % 2 else 1024, "reads": None,
                           "fault": {"kind": kind, "k": k, "byte": i % 7, "bit": i % 8}}
            for kind in ("crc", "end_n", "end_cs"):
                for k in range(6):
                    i += 1
                    yield {"len": n, "salt": i % 11, "crc_req": i % 7 != 0, "crc_srv": True, "size_ind": i % 3 != 0,
                           "blksize": blk, "buffering": 0, "reads": None, "fault": {"kind": kind, "k": k}}


POSTS = [{"len": 20, "buffering": 0}, {"len": 5, "buffering": 1024}, {"len": 900, "buffering": 0},
         {"len": 7, "buffering": 3}]


def enum_undisturbed_stop(thorough):
    """The caller reads exactly the value's length and closes: no read ever reports end of file."""
    i = 0
    crcs = ((True, True), (True, False), (False, True), (False, False))
    for n in boundary_lengths():
        for blk in (127, 1, 5, 2, 126) if thorough else (127, 1, 5):
            if math.ceil(n / 7) / blk > 300:
                continue
            for size_ind in (True, False):
                for c in range(4 if thorough else 1):
                    i += 1
                    crc_req, crc_srv = crcs[(i + c) % 4]
                    b, r = STOP_ROUTES[i % len(STOP_ROUTES)]
                    case = {"len": n, "salt": i % 17, "crc_req": crc_req, "crc_srv": crc_srv, "size_ind": size_ind,
                            "blksize": blk, "buffering": b, "reads": r, "stop": True}
                    if i % 5 == 0:
                        case["post"] = dict(POSTS[(i // 5) % len(POSTS)], salt=i % 13)
                    yield case
    # ... and the EOF routes followed by a second transfer
    for n in boundary_lengths():
        i += 1
        if i % (1 if thorough else 3):
            continue
        b, r = ROUTES[i % len(ROUTES)]
        yield {"len": n, "salt": i % 17, "crc_req": i % 4 != 0, "crc_srv": i % 5 != 0, "size_ind": i % 3 != 0,
               "blksize": (127, 1, 5)[i % 3], "buffering": b, "reads": r,
               "post": dict(POSTS[i % len(POSTS)], salt=i % 13)}


STOP_FAULT_LENGTHS = [1, 5, 6, 7, 8, 13, 14, 15, 20, 21, 22, 26, 28, 49, 50, 56, 63, 64, 70, 100, 140, 147, 200, 294,
                      300]


def enum_faults_stop(thorough):
    """Every segment position x {drop, flip} through the exact-size routes."""
    i = 0
    lengths = sorted(set(STOP_FAULT_LENGTHS) | set(range(1, 301, 4))) if thorough else STOP_FAULT_LENGTHS
    for n in lengths:
        nsegs = math.ceil(n / 7)
        for blk in (127, 3, 1, 10) if thorough else (127, 3):
            for k in range(nsegs):
                for kind in ("drop", "flip"):
                    i += 1
                    b, r = STOP_ROUTES[i % len(STOP_ROUTES)]
                    case = {"len": n, "salt": i % 11, "crc_req": i % 5 != 0, "crc_srv": True, "size_ind": i % 3 != 0,
                            "blksize": blk, "buffering": b, "reads": r, "stop": True,
                            "fault": {"kind": kind, "k": k, "byte": i % 7, "bit": i % 8}}
                    if i % 9 == 0:
                        case["post"] = dict(POSTS[(i // 9) % len(POSTS)], salt=i % 13)
                    yield case
    for n in (889, 890, 1778):
        nsegs = math.ceil(n / 7)
        for k in sorted({0, 1, 63, 125, 126, 127, 128, nsegs // 2, nsegs - 2, nsegs - 1}):
            if not 0 <= k < nsegs:
                continue
            for kind in ("drop", "flip"):
                i += 1
                b, r = STOP_ROUTES[i % len(STOP_ROUTES)]
                yield {"len": n, "salt": i % 11, "crc_req": i % 5 != 0, "crc_srv": True, "size_ind": i % 3 != 0,
                       "blksize": 127, "buffering": b, "reads": r, "stop": True,
                       "fault": {"kind": kind, "k": k, "byte": i % 7, "bit": i % 8}}


def end_variants():
    for mode in CRC_MODES:
        yield {"kind": "crc", "mode": mode, "k": 0}
    yield {"kind": "crc", "mode": "hi", "k": 5}
    yield {"kind": "crc", "mode": "lo", "k": 7}
    yield {"kind": "crc", "k": 0x0100 - 1}        # xor 0x0100: only the high byte differs
    yield {"kind": "crc", "k": 0x8000 - 1}
    for c in range(len(END_CS)):
        for nb in (0, 7, None, 3):
            yield {"kind": "end_x", "how": "cs", "k": c, "n": nb}
    for how in ("zero", "init", "dup", "abort"):
        yield {"kind": "end_x", "how": how}
    for bit in range(8):
        yield {"kind": "end_x", "how": "bit", "k": bit}
    for k in range(6):
        yield {"kind": "end_n", "k": k}
    for k in range(6):
        yield {"kind": "end_cs", "k": k}
    yield {"kind": "end_drop"}


END_FAULT_LENGTHS = [1, 2, 5, 6, 7, 8, 13, 14, 15, 21, 22, 26, 28, 50, 63, 64, 70, 147, 300, 889, 890]


def _mix(i):
    """deterministic scrambling of a running index, so that the side choices (route family, route, block size,
    second transfer) do not fall into step with the position in end_variants()"""
    return ((i * 2654435761) & 0xFFFFFFFF) >> 6


def enum_end_faults(thorough):
    """Every end-frame variant x CRC negotiated or not, through EOF routes and exact-size routes."""
    i = 0
    lengths = sorted(set(END_FAULT_LENGTHS) | set(range(1, 130, 3)) | {888, 1777, 1778, 1779}) if thorough \
        else END_FAULT_LENGTHS
    for n in lengths:
        for crc_on in (True, False):
            for f in end_variants():
                for stop in (True, False):
                    i += 1
                    m = _mix(i)
                    routes = STOP_ROUTES if stop else ROUTES
                    b, r = routes[(m >> 1) % len(routes)]
                    case = {"len": n, "salt": (m >> 5) % 11, "crc_req": crc_on or (m >> 9) % 3 == 0, "crc_srv": crc_on,
                            "size_ind": (m >> 11) % 3 != 0, "blksize": (127, 3, 1, 10)[(m >> 13) % 4], "buffering": b,
                            "reads": r, "fault": dict(f)}
                    if stop:
                        case["stop"] = True
                    if (m >> 15) % 8 == 0:
                        case["post"] = dict(POSTS[(m >> 18) % len(POSTS)], salt=(m >> 20) % 13)
                    yield case


@st.composite
def rand_case(draw, max_len, ext=False):
    n = draw(st.one_of(st.sampled_from(boundary_lengths()), st.integers(1, 400),
                       st.integers(1, int(math.log2(max_len) * 8)).map(lambda e: max(1, min(max_len, int(2 ** (e / 8.0)))))))
    blk = draw(st.one_of(st.just(127), st.integers(1, 127)))
    nsegs = math.ceil(n / 7)
    if nsegs / blk > 400:
        blk = 127
    case = {"len": n, "crc_req": draw(st.booleans()), "crc_srv": draw(st.booleans()),
            "size_ind": draw(st.booleans()), "blksize": blk}
    if n <= 1500 and draw(st.booleans()):
        case["data"] = draw(st.binary(min_size=n, max_size=n))
    else:
        case["salt"] = draw(st.integers(0, 250))
    case["buffering"] = draw(st.sampled_from([0, 0, 2, 3, 7, 64, 1024, 8192]))
    if ext and draw(st.booleans()):
        case["stop"] = True
        case["reads"] = draw(st.lists(st.one_of(st.integers(-9, 80), st.just(0), st.just(7)), min_size=1, max_size=3))
    else:
        case["reads"] = draw(st.one_of(st.none(), st.lists(st.integers(1, 80), min_size=1, max_size=3),
                                       st.lists(st.integers(1, 9), min_size=1, max_size=2).map(lambda l: l + [None]),
                                       st.lists(st.one_of(st.integers(-9, -1), st.integers(1, 9), st.none()),
                                                min_size=1, max_size=4)))
    if draw(st.integers(0, 4)) == 0:
        case["pre"] = {"len": draw(st.sampled_from([8, 20, 100, 2000])), "k": draw(st.integers(1, 6)),
                       "buffering": draw(st.sampled_from([0, 0, 1024]))}
    if not ext:
        kind = draw(st.sampled_from(["none", "none", "drop", "flip", "crc", "end_n", "end_cs"]))
        if kind != "none":
            case["fault"] = {"kind": kind, "k": draw(st.integers(0, max(0, nsegs - 1))),
                             "byte": draw(st.integers(0, 6)), "bit": draw(st.integers(0, 7))}
        return case
    kind = draw(st.sampled_from(["none", "drop", "flip", "crc", "crc", "end_n", "end_x", "end_x", "end_drop"]))
    if kind in ("drop", "flip"):
        case["fault"] = {"kind": kind, "k": draw(st.integers(0, max(0, nsegs - 1))),
                         "byte": draw(st.integers(0, 6)), "bit": draw(st.integers(0, 7))}
    elif kind == "crc":
        case["crc_req"] = case["crc_srv"] = True
        if draw(st.booleans()):
            case["fault"] = {"kind": kind, "mode": draw(st.sampled_from(CRC_MODES)), "k": draw(st.integers(0, 7))}
        else:
            case["fault"] = {"kind": kind, "k": draw(st.integers(0, 0xFFFE))}
    elif kind == "end_n":
        case["fault"] = {"kind": kind, "k": draw(st.integers(0, 5))}
    elif kind == "end_x":
        how = draw(st.sampled_from(["cs", "cs", "cs", "zero", "init", "dup", "abort", "bit"]))
        case["fault"] = {"kind": kind, "how": how, "k": draw(st.integers(0, 9))}
        if how == "cs":
            case["fault"]["n"] = draw(st.one_of(st.none(), st.integers(0, 7)))
    elif kind == "end_drop":
        case["fault"] = {"kind": kind}
    if draw(st.integers(0, 3)) == 0:
        case["post"] = {"len": draw(st.sampled_from([1, 7, 20, 100, 889, 900])),
                        "buffering": draw(st.sampled_from([0, 0, 3, 1024])), "salt": draw(st.integers(0, 20))}
    return case


def search(ctx):
    thorough = ctx.tier == "thorough"
    ctx.enumerate(enum_undisturbed(), "boundary lengths x CRC x size indication x client block size, undisturbed")
    ctx.enumerate(enum_undisturbed_stop(thorough), "boundary lengths x client block size x size indication, undisturbed, "
                                                   "read of exactly the value's length then close (no EOF read); "
                                                   "second transfer through the same client")
    ctx.enumerate(enum_end_faults(thorough), "every end-frame variant (wrong checksum classes, wrong command x n, "
                                             "replaced frame, lost) x CRC negotiated or not x route family")
    ctx.enumerate(enum_faults_stop(thorough), "every segment position x {drop, flip} through the exact-size routes")
    # the big family comes last among the enumerations: on a heavily loaded machine the cooperative budget
    # cuts the tail of the search
    ctx.enumerate(enum_faults(), "every segment position x {drop, flip} and end-frame faults, lengths <= 300")
    ctx.hypothesis(rand_case(10000 if thorough else 3000), 25000 if thorough else 500)
    ctx.hypothesis(rand_case(10000 if thorough else 3000, ext=True), 8000 if thorough else 300, salt=1)
