"""RefLssSlave - an LSS slave written from CiA 305 (layer setting services), not
from canopen/lss.py.

COB-IDs: master -> slave 0x7E5, slave -> master 0x7E4.  Every LSS frame is a
classic data frame with 8 data bytes; unused bytes are reserved and 0.

  cs    service (request layout, little-endian)                    reply
  0x04  switch state global        [1] mode 0=waiting 1=config      -
  0x40  switch state selective     [1..4] vendor-id                 -
  0x41                             [1..4] product-code              -
  0x42                             [1..4] revision-number           -
  0x43                             [1..4] serial-number             0x44 (when all four match)
  0x11  configure node-id          [1] node-id (1..127, 255)        0x11 [1] error [2] spec. error
  0x13  configure bit timing       [1] table selector [2] index     0x13 [1] error [2] spec. error
  0x15  activate bit timing        [1..2] switch delay ms           -
  0x17  store configuration                                         0x17 [1] error [2] spec. error
  0x46..0x4B identify remote slave [1..4] vendor, product, rev-low,
                                   rev-high, serial-low, serial-high 0x4F (after 0x4B, when in range)
  0x4C  identify non-configured remote slave                        0x50 (when unconfigured)
  0x51  fastscan  [1..4] IDNumber [5] BitCheck [6] LSSSub [7] LSSNext 0x4F
  0x5A..0x5D inquire vendor / product / revision / serial           same cs, [1..4] value
  0x5E  inquire node-id                                             0x5E [1] node-id

Fastscan slave automaton (CiA 305 "fastscan"): only a slave in waiting state
whose node-id is invalid (0xFF) takes part.  BitCheck 0x80: LSSPos := 0 and
answer.  BitCheck 0..31 and LSSSub == LSSPos: when the bits 31..BitCheck of
IDNumber equal those of the own identity part LSSSub, answer and LSSPos :=
LSSNext; when additionally BitCheck == 0 and LSSNext < LSSSub the whole
128-bit address has been confirmed and the slave enters configuration state.

The model is strict about what the *master* sends (records `errors`), and can
be told to misbehave for the next confirmed service (`fault`): answer with a
given error code, with another command specifier, not at all, or too late.
"""
from harness.simbus import Frame

MASTER_ID = 0x7E5
SLAVE_ID = 0x7E4
WAITING = 0
CONFIGURATION = 1
UNCONFIGURED = 0xFF

INQUIRE = {0x5A: 0, 0x5B: 1, 0x5C: 2, 0x5D: 3}
STANDARD_BIT_RATES = (0, 1, 2, 3, 4, 6, 7, 8)   # index 5 is reserved, 9 = auto (optional)


def u32(b):
    return b[0] | (b[1] << 8) | (b[2] << 16) | (b[3] << 24)


def le32(v):
    return bytes(((v >> 0) & 0xFF, (v >> 8) & 0xFF, (v >> 16) & 0xFF, (v >> 24) & 0xFF))


class RefLssSlave:
    def __init__(self, identity, node_id=UNCONFIGURED, state=WAITING):
        self.identity = [int(x) for x in identity]
        self.active_nid = node_id
        self.pending_nid = node_id
        self.state = state
        self.fs_pos = 0
        self.sel = [None, None, None, None]
        self.ident = [None] * 6
        self.pending_bit = None
        self.activated = []
        self.stored = 0
        self.requests = []     # decoded well-formed requests, in order
        self.errors = []       # what a CiA 305 slave must not be sent
        self.delivered = []    # reply frames put on the bus (bytes)
        self.withheld = []     # replies held back by a "late" fault
        self.fault = None      # programmable misbehaviour for the next confirmed service
        self.fault_used = False
        self.mute = False      # True: listens and validates only (= no slave from the master's view)
        self.transitions = []  # (from, to, why)
        self.hub = None
        self.port = None

    # --- wiring ---------------------------------------------------------------
    def attach(self, hub, name="lss-slave"):
        self.hub = hub
        self.port = hub.port(name, handler=self.on_frame)
        return self

    def unconfigured(self):
        return self.active_nid == UNCONFIGURED and self.pending_nid == UNCONFIGURED

    def _enter(self, state, why):
        if state != self.state:
            self.transitions.append((self.state, state, why))
        self.state = state

    def _send(self, data, confirmed_service=False):
        data = bytes(data)
        assert len(data) == 8
        if self.mute:
            return
        f = self.fault if confirmed_service else None
        if f is not None:
            self.fault_used = True
            kind = f["kind"]
            if kind == "silent":
                return
            if kind == "late":
                self.withheld.append(data)
                return
            if kind == "cs":
                data = bytes([f["cs"]]) + data[1:]
        self.delivered.append(data)
        self.hub.route(Frame(SLAVE_ID, data, src=self.port))

    def release_withheld(self):
        """The held-back replies finally appear on the bus (after the master's
        time-out has expired)."""
        n = 0
        while self.withheld:
            data = self.withheld.pop(0)
            self.delivered.append(data)
            self.hub.route(Frame(SLAVE_ID, data, src=self.port))
            n += 1
        return n

    # --- reception --------------------------------------------------------------
    def on_frame(self, fr):
        if fr.can_id != MASTER_ID:
            return
        if fr.remote or fr.extended:
            self.errors.append(("frame-format", repr(fr)))
            return
        d = fr.data
        if len(d) != 8:
            self.errors.append(("dlc", f"{len(d)} data bytes: {d.hex()}"))
            return
        cs = d[0]

        def reserved(frm):
            if any(d[frm:]):
                self.errors.append(("reserved-nonzero", f"cs {cs:02x}: {d.hex()}"))
                return False
            return True

        if cs == 0x04:
            if not reserved(2):
                return
            if d[1] not in (WAITING, CONFIGURATION):
                self.errors.append(("mode", d.hex()))
                return
            self.requests.append(("global", d[1]))
            self._enter(d[1], "switch state global")
            if d[1] == WAITING:
                self.sel = [None] * 4
            return

        if 0x40 <= cs <= 0x43:
            if not reserved(5):
                return
            k = cs - 0x40
            self.requests.append(("sel", k, u32(d[1:5])))
            if self.state != WAITING:
                return
            self.sel[k] = u32(d[1:5])
            if k == 3:
                match = self.sel == self.identity
                self.sel = [None] * 4
                if match:
                    self._enter(CONFIGURATION, "switch state selective")
                    self._send(bytes([0x44, 0, 0, 0, 0, 0, 0, 0]))
            return

        if 0x46 <= cs <= 0x4B:
            if not reserved(5):
                return
            k = cs - 0x46
            self.requests.append(("ident", k, u32(d[1:5])))
            self.ident[k] = u32(d[1:5])
            if k == 5:
                v, p, rl, rh, sl, sh = self.ident
                self.ident = [None] * 6
                if None in (v, p, rl, rh, sl, sh):
                    return
                if (v == self.identity[0] and p == self.identity[1]
                        and rl <= self.identity[2] <= rh and sl <= self.identity[3] <= sh):
                    self._send(bytes([0x4F, 0, 0, 0, 0, 0, 0, 0]))
            return

        if cs == 0x4C:
            if not reserved(1):
                return
            self.requests.append(("ident_nc",))
            if self.unconfigured():
                self._send(bytes([0x50, 0, 0, 0, 0, 0, 0, 0]))
            return

        if cs == 0x51:
            idnum, bit_check, sub, nxt = u32(d[1:5]), d[5], d[6], d[7]
            if not (bit_check <= 31 or bit_check == 0x80) or sub > 3 or nxt > 3:
                self.errors.append(("fastscan-parameter",
                                    f"BitCheck {bit_check} LSSSub {sub} LSSNext {nxt}: {d.hex()}"))
                return
            self.requests.append(("fastscan", idnum, bit_check, sub, nxt))
            if self.state != WAITING or not self.unconfigured():
                return
            if bit_check == 0x80:
                self.fs_pos = 0
                self._send(bytes([0x4F, 0, 0, 0, 0, 0, 0, 0]))
                return
            if sub != self.fs_pos:
                return
            mask = (0xFFFFFFFF << bit_check) & 0xFFFFFFFF
            if (idnum & mask) != (self.identity[sub] & mask):
                return
            self.fs_pos = nxt
            if bit_check == 0 and nxt < sub:
                self._enter(CONFIGURATION, "fastscan complete")
            self._send(bytes([0x4F, 0, 0, 0, 0, 0, 0, 0]))
            return

        # services of the configuration state ------------------------------------
        if cs == 0x11:
            if not reserved(2):
                return
            nid = d[1]
            self.requests.append(("cfg_node", nid))
            if self.state != CONFIGURATION:
                return
            self._confirm(cs, 0 if (1 <= nid <= 127 or nid == 0xFF) else 1,
                          lambda: setattr(self, "pending_nid", nid))
            return

        if cs == 0x13:
            if not reserved(3):
                return
            self.requests.append(("cfg_bit", d[1], d[2]))
            if self.state != CONFIGURATION:
                return
            ok = d[1] == 0 and d[2] in STANDARD_BIT_RATES
            self._confirm(cs, 0 if ok else 1, lambda: setattr(self, "pending_bit", (d[1], d[2])))
            return

        if cs == 0x15:
            if not reserved(3):
                return
            delay = d[1] | (d[2] << 8)
            self.requests.append(("activate", delay))
            if self.state == CONFIGURATION:
                self.activated.append(delay)
            return

        if cs == 0x17:
            if not reserved(1):
                return
            self.requests.append(("store",))
            if self.state != CONFIGURATION:
                return

            def store():
                self.stored += 1
            self._confirm(cs, 0, store)
            return

        if cs in INQUIRE:
            if not reserved(1):
                return
            self.requests.append(("inq", INQUIRE[cs]))
            if self.state != CONFIGURATION:
                return
            self._send(bytes([cs]) + le32(self.identity[INQUIRE[cs]]) + b"\0\0\0", True)
            return

        if cs == 0x5E:
            if not reserved(1):
                return
            self.requests.append(("inq", 4))
            if self.state != CONFIGURATION:
                return
            self._send(bytes([cs, self.active_nid, 0, 0, 0, 0, 0, 0]), True)
            return

        self.errors.append(("unknown-cs", d.hex()))

    def _confirm(self, cs, error, apply):
        spec = 0
        f = self.fault
        if f is not None and f["kind"] == "err":
            error, spec = f["code"], f.get("spec", 0)
            self.fault_used = True
        if error == 0:
            apply()
        self._send(bytes([cs, error, spec, 0, 0, 0, 0, 0]), True)
