"""C02 - SDO server serves and stores object values exactly, in conformant frames.

SUT: LocalNode + SdoServer on a simulated bus.  Peer: RefSdoClient (frame level,
validates every response).  Model: dict store + precedence rule
read callback > downloaded > parameter value > default > abort, expected bytes
from the independent codec.  The same interpreter serves C06 (refusals).

Clauses -> case families
  * upload obtains exactly the bytes of every value source incl. empty value:
    op 'upload' on entries whose spec carries default / value / both / neither,
    after downloads, with read callbacks (typed, bytes, None)
  * accepted download stores exactly the bytes; later uploads and write
    callbacks see them: op 'download' (exp / exp_nosize / seg_size / seg_nosize)
    followed by data_store + callback-log comparison
  * exactly one well-formed 8-byte response per request, multiplexer echo, true
    size, toggle from 0, c exactly when exhausted: validated by RefSdoClient for
    every frame of every transfer
  * no frame sequence makes the server raise or fall silent: ops 'junk',
    'stray', interrupted transfers ('stop_after'), starting from a fresh node

The reference transfers are written out in this module (_upload / _download, on top of
RefSdoClient.xfer) because they need variants the plain reference client does not have:
download segments carrying 1..6 bytes although they are not the last one, a trailing empty
last segment, request frames whose reserved bits / unused bytes are not zero ('dirty'),
transfers stopped after k segments (the state of the open transfer goes to the model).
"""
import struct

from hypothesis import strategies as st

from harness import refcodec as rc
from harness.core import Discrepancy, Outcome
from harness.odutil import build_od, entries
from harness.refsdo import RefSdoClient
from harness.simbus import Frame, Hub

PROPERTY = "C02"
LEVEL = "exploration"
RULE = ("case = generated object dictionary (variables, records, arrays; all data types; access types; "
        "default / parameter value / both / none per entry) + optional read callback table + history of "
        "ops on a freshly created LocalNode: upload(entry), download(entry, bytes, exp|exp_nosize|seg_size|"
        "seg_nosize), transfers interrupted after k segments (restart), junk frames of 1..8 bytes, stray "
        "segments with either toggle, client aborts, block-upload initiate (legal downgrade), the application changing an entry's access type "
        "between requests (ops 'replace' / 'del_member', used by the C06 families: the application removes an "
        "object or a record member from the serving node's dictionary, or puts a different object under the "
        "same index). Segmented downloads also with 1..6 byte segments that are not the last one and with a "
        "trailing empty last segment (field n is valid in every segment); upload / download requests whose "
        "reserved bits and unused bytes are not zero ('dirty': the server may refuse them, but if it serves "
        "them the answer is judged like any other); the same entry uploaded repeatedly with an interrupted "
        "upload in between; 1..3 registered read callbacks that share the callback table (each entry is served "
        "by exactly one of them, the others return None), callbacks / code-built defaults handing out the "
        "application's own bytearray (same object every time, must be unchanged afterwards); a segment with the "
        "wrong toggle bit - also a last download segment - sent into a transfer the model knows to be open. "
        "Oracle: "
        "frame-level reference client validating every response (scs, multiplexer echo, size announced = "
        "s bit set and true, toggle from 0, c exactly at the end, n, zero padding) + dict model of the store with precedence "
        "callback > downloaded > parameter value > default; expected bytes from the independent codec; an "
        "interrupted upload must have delivered a prefix of them. "
        "Non-trivial = history with >=1 segmented transfer and >=1 of {junk, stray, interrupted, empty "
        "value, callback source, falsy parameter value}; distinct = canonical JSON.")
ASSUMPTIONS = [
    "a junk frame that a CiA 301 server could take for an expedited download, and a stray last download "
    "segment, may legitimately change the addressed entry: the model marks that entry 'tainted' and "
    "only checks frame well-formedness for it until the next accepted download",
    "top-level variables ignore the sub-index in this implementation (not generated as 'missing'); array members "
    "2..255 that are not listed exist and are described by member 1 (type, access, default)",
    "indexes 0x1017 and 0x1400..0x1BFF are not generated (they carry heartbeat / PDO side effects)",
    "'announces the true size' is read as: every initiate upload response has s=1 and the size field / n equals "
    "the number of bytes delivered (CiA 301 would also allow s=0)",
    "a request with non-zero reserved bits / unused bytes ('dirty') may be refused with any abort code; when "
    "it is served the transfer is judged like a clean one",
    "when several read callbacks are registered no entry is given a value by more than one of them (the "
    "order of precedence between callbacks is not part of the property)",
    "an unknown command (ccs 7) received while a transfer is open is answered with the multiplexer of that "
    "transfer or with bytes 1..3 of the offending frame (both readings of 'the multiplexer of the transfer')",
]
BUDGET = {"quick": 150, "thorough": 420}

NODE = 5
RX, TX = 0x600 + NODE, 0x580 + NODE

CODES = {
    "wo": {0x06010001}, "ro": {0x06010002}, "noindex": {0x06020000}, "nosub": {0x06090011},
    "length": {0x06070010, 0x06070012, 0x06070013}, "novalue": {0x060A0023, 0x08000024},
    # CiA 301: 0607 0012h "length of service parameter too high", 0607 0013h "... too low"
    "length_long": {0x06070010, 0x06070012}, "length_short": {0x06070010, 0x06070013},
    "toggle": {0x05030000}, "command": {0x05040001},
}


def _eds_value(dt, v):
    if dt == rc.BOOLEAN:
        return "1" if v else "0"
    if dt in rc.INTEGERS:
        return str(v) if v < 0 or v % 3 == 0 else f"0x{v:X}"
    if dt in rc.REALS:
        return repr(float(v))
    if dt in (rc.OCTET_STRING, rc.DOMAIN):
        return bytes(v).hex()
    return v


def render_eds(spec, with_values):
    """Minimal independent EDS/DCF writer for the dictionary specs of this module:
    defaults become DefaultValue, parameter values ParameterValue (DCF only)."""
    lines = ["[FileInfo]", "FileName=generated", "", "[DeviceInfo]", "VendorName=verif", ""]
    idx = [o["index"] for o in spec]
    lines += ["[MandatoryObjects]", "SupportedObjects=0", "", "[OptionalObjects]",
              f"SupportedObjects={len(idx)}"] + [f"{k + 1}=0x{i:04X}" for k, i in enumerate(idx)] + [""]

    def var(section, v, otype):
        out = [f"[{section}]", f"ParameterName={v['name']}", f"ObjectType=0x{otype:X}",
               f"DataType=0x{v['dt']:04X}", f"AccessType={v.get('access', 'rw')}"]
        if v.get("default") is not None:
            out.append(f"DefaultValue={_eds_value(v['dt'], v['default'])}")
        if with_values and v.get("value") is not None:
            out.append(f"ParameterValue={_eds_value(v['dt'], v['value'])}")
        out += ["PDOMapping=0", ""]
        return out

    for o in spec:
        if o["kind"] == "var":
            lines += var(f"{o['index']:04X}", o, 7)
        else:
            lines += [f"[{o['index']:04X}]", f"ParameterName={o['name']}",
                      f"ObjectType=0x{8 if o['kind'] == 'array' else 9:X}", f"SubNumber={len(o['members'])}", ""]
            for m in o["members"]:
                lines += var(f"{o['index']:04X}sub{m['sub']:X}", m, 7)
    return "\n".join(lines) + "\n"


def eds_safe(spec):
    """True when every textual value survives an INI file unchanged (the writer does no quoting:
    leading/trailing blanks, ';' comments and line breaks would not)."""
    for _i, _s, v, _k in entries(spec):
        for key in ("default", "value"):
            x = v.get(key)
            if isinstance(x, str) and (x != x.strip() or ";" in x or any(ord(c) < 32 or ord(c) == 127 for c in x)
                                       or any(c.isspace() and c != " " for c in x)):
                return False
            if v["dt"] in (rc.OCTET_STRING, rc.DOMAIN) and x is not None and not isinstance(x, (bytes, bytearray)):
                return False
    return True


class Rig:
    def __init__(self, case):
        import io

        import canopen
        self.hub = Hub()
        self.net, self.port = self.hub.attach("server")
        src = case.get("source", "code")
        if src in ("eds", "dcf") and eds_safe(case["od"]):
            fp = io.StringIO(render_eds(case["od"], with_values=(src == "dcf")))
            fp.name = "generated." + src
            self.od = canopen.import_od(fp, NODE)
            self.from_text = src
        else:
            self.od = build_od(case["od"])
            self.from_text = None
        self.node = canopen.LocalNode(NODE, self.od)
        self.net.add_node(self.node)
        self.collected = []
        self.cport = self.hub.port("refclient", handler=self._on)
        self.client = RefSdoClient(self._send)
        self.wlog = []
        self.rcb = {(r["index"], r["sub"]): r for r in case.get("read_cb", [])}
        self.rcalls = []
        # objects of the application that the server is handed and must not modify:
        # (description, the object, its original content)
        self.mutables = []
        self.rret = {}
        for k, r in self.rcb.items():
            if r.get("mutable") and isinstance(r["ret"], (bytes, bytearray)):
                # the application's own buffer: the same bytearray on every call
                self.rret[k] = bytearray(r["ret"])
                self.mutables.append((f"value returned by the read callback for {k[0]:04x}:{k[1]:02x}",
                                      self.rret[k], bytes(r["ret"])))
            else:
                self.rret[k] = r["ret"]
        if not self.from_text:
            for index, sub, spec, kind in entries(case["od"]):
                if not spec.get("mutable"):
                    continue
                var = self.od[index] if kind == "var" else self.od[index][sub]
                for attr in ("default", "value"):
                    if isinstance(getattr(var, attr), bytes):
                        setattr(var, attr, bytearray(getattr(var, attr)))
                        self.mutables.append((f"{attr} of {index:04x}:{sub:02x}", getattr(var, attr),
                                              bytes(getattr(var, attr))))
        if case.get("write_cb", True):
            self.node.add_write_callback(self._wcb)
            if case.get("two_write_cbs"):
                self.node.add_write_callback(self._wcb2)
                self.wlog2 = []
        # read callbacks: the table is shared out over 1..3 registered callbacks (entry["cb"] says which
        # one serves it); every callback returns None for what it does not serve
        ncb = case.get("read_cbs") or (1 if self.rcb else 0)
        for k in range(ncb):
            self.node.add_read_callback(self._make_rcb(k, ncb))

    def _make_rcb(self, k, ncb):
        def rcb(**kw):
            key = (kw.get("index"), kw.get("subindex"))
            self.rcalls.append(key + (k,))
            r = self.rcb.get(key)
            if r is None or r.get("cb", 0) % ncb != k:
                return None
            return self.rret[key]
        return rcb

    def _on(self, fr):
        if fr.can_id == TX:
            self.collected.append(bytes(fr.data))

    def _send(self, data):
        self.collected = []
        self.hub.route(Frame(RX, data, src=self.cport, ts=self.hub.now()))
        return list(self.collected)

    def _wcb(self, **kw):
        self.wlog.append((kw.get("index"), kw.get("subindex"), kw.get("od"), bytes(kw.get("data"))))

    def _wcb2(self, **kw):
        self.wlog2.append((kw.get("index"), kw.get("subindex"), bytes(kw.get("data"))))


class Model:
    def __init__(self, case):
        if case.get("source") == "eds" and eds_safe(case["od"]):
            # an EDS carries defaults only
            import copy
            case = copy.deepcopy(case)
            for _i, _s, v, _k in entries(case["od"]):
                v.pop("value", None)
        self.ent = {}
        self.kinds = {}
        for o in case["od"]:
            self.kinds[o["index"]] = o["kind"]
        for index, sub, spec, kind in entries(case["od"]):
            self.ent[(index, sub)] = spec
        self.store = {}
        self.taint = set()
        self.rcb = {(r["index"], r["sub"]): r for r in case.get("read_cb", [])}
        self.last_mux = None
        self.dl_open = False
        # the segmented transfer the reference client has left unfinished, if the model is sure there is
        # one: {"dir": "up"|"down", "t": toggle the next segment must carry, "buf": bytes sent so far}
        self.open = None

    def lookup(self, index, sub):
        """-> (spec | None, condition | None)"""
        if index not in self.kinds:
            return None, "noindex"
        kind = self.kinds[index]
        if kind == "var":
            return self.ent[(index, 0)], None    # sub-index ignored by this implementation
        if (index, sub) in self.ent:
            return self.ent[(index, sub)], None
        if kind == "array" and 0 < sub < 256 and (index, 1) in self.ent:
            # members 2..255 that are not listed are described by member 1 (data type, access,
            # default ...); a DCF parameter value belongs to the listed member only
            synth = {k: v for k, v in self.ent[(index, 1)].items() if k != "value"}
            synth["sub"] = sub
            synth["synth"] = True
            return synth, None
        return None, "nosub"

    def forget(self, index, sub=None):
        """The object at `index` (or its member `sub`) leaves the dictionary, with its stored value."""
        hit = (lambda k: k[0] == index) if sub is None else (lambda k: k == (index, sub))
        if sub is None:
            self.kinds.pop(index, None)
        for d in (self.ent, self.store):
            for k in [k for k in d if hit(k)]:
                del d[k]
        self.taint = {k for k in self.taint if not hit(k)}

    @staticmethod
    def readable(spec):
        a = spec.get("access", "rw")
        return "r" in a or a == "const"

    @staticmethod
    def writable(spec):
        return "w" in spec.get("access", "rw")

    def expected_read(self, index, sub):
        """-> ('ok', bytes) | ('abort', set_of_codes) | ('skip', why)"""
        spec, cond = self.lookup(index, sub)
        if cond:
            return ("abort", CODES[cond])
        key = (index, sub) if self.kinds[index] != "var" else (index, 0)
        if not self.readable(spec):
            return ("abort", CODES["wo"])
        if key in self.taint:
            return ("skip", "tainted")
        dt = spec["dt"]
        r = self.rcb.get((index, sub))
        if r is not None and r["ret"] is not None:
            v = r["ret"]
            return ("ok", bytes(v) if isinstance(v, (bytes, bytearray)) else rc.encode(dt, v))
        if key in self.store:
            return ("ok", self.store[key])
        if spec.get("value") is not None:
            return ("ok", rc.encode(dt, spec["value"]))
        if spec.get("default") is not None:
            return ("ok", rc.encode(dt, spec["default"]))
        return ("abort", CODES["novalue"])

    def expected_write(self, index, sub, data):
        """-> ('ok',) | ('abort', codes) | ('skip', why)"""
        spec, cond = self.lookup(index, sub)
        if cond:
            return ("abort", CODES[cond])
        codes = set()
        if not self.writable(spec):
            codes |= CODES["ro"]
        if spec["dt"] in rc.NUMERIC and len(data) * 8 != rc.NUMERIC[spec["dt"]]:
            codes |= CODES["length_long" if len(data) * 8 > rc.NUMERIC[spec["dt"]] else "length_short"]
        if codes:
            return ("abort", codes)
        return ("ok",)

    def key(self, index, sub):
        return (index, 0) if self.kinds.get(index) == "var" else (index, sub)


def _store_snapshot(node):
    return {(i, s): bytes(v) for i, subs in node.data_store.items() for s, v in subs.items()}


def run_history(case, prefix):
    try:
        rig = Rig(case)
    except Exception as e:   # building the node from the generated dictionary must not fail
        return Outcome(True, "setup", [Discrepancy(f"{prefix}/setup-raises",
                                                   f"creating the local node (source {case.get('source', 'code')}) "
                                                   f"raised {type(e).__name__}: {e}")]), set()
    m = Model(case)
    cl = rig.client
    D = []
    feats = set()
    if rig.from_text:
        feats.add("dict-from-" + rig.from_text)

    def bad(kind, detail):
        D.append(Discrepancy(f"{prefix}/{kind}", detail))

    def frame_checks(tag):
        for fr, e in rig.port.notify_errors:
            bad("raises-into-receive-path", f"{tag}: Network.notify raised {type(e).__name__}: {e} "
                                            f"for frame {fr.data.hex()}")
        rig.port.notify_errors.clear()
        for pe in cl.errors:
            bad(f"response/{pe.kind}", f"{tag}: {pe}")
        cl.errors.clear()

    def check_abort(tag, fields, codes, mux, kind):
        index, sub, code = fields
        if code not in codes:
            bad(f"abort-code/{kind}", f"{tag}: abort code {code:08x}, acceptable "
                                      f"{sorted(hex(c) for c in codes)}")
        if mux is not None and (index, sub) != mux:
            bad(f"abort-mux/{kind}", f"{tag}: abort carries {index:04x}:{sub:02x}, transfer was "
                                     f"{mux[0]:04x}:{mux[1]:02x}")

    def stores_agree(tag):
        snap = _store_snapshot(rig.node)
        for k, v in m.store.items():
            if k in m.taint:
                continue
            if snap.get(k) != v:
                bad("data-store", f"{tag}: data_store[{k[0]:04x}][{k[1]}] = "
                                  f"{snap.get(k).hex() if k in snap else None} model {v.hex()}")
        for k, v in snap.items():
            if k not in m.store and k not in m.taint:
                bad("data-store-extra", f"{tag}: data_store has {k[0]:04x}:{k[1]:02x}={v.hex()} "
                                        f"which no accepted download wrote")

    for n, op in enumerate(case["ops"]):
        kind = op["op"]
        tag = f"step {n} {kind}"
        wl = len(rig.wlog)
        if kind == "upload":
            index, sub = op["index"], op["sub"]
            tag += f" {index:04x}:{sub:02x}"
            exp = m.expected_read(index, sub)
            m.last_mux = (index, sub)
            m.dl_open = False
            m.open = None
            dirty = op.get("dirty", 0)
            if op.get("stop_after") is not None:
                feats.add("interrupted")
            elif op.get("blockinit"):
                feats.add("blockinit")
            if dirty:
                feats.add("dirty")
            res = _upload(cl, index, sub, blockinit=bool(op.get("blockinit")), dirty=dirty,
                          stop_after=op.get("stop_after"))
            frame_checks(tag)
            if res[0] == "partial":
                # an interrupted upload: what has arrived so far is judged, and the model remembers
                # whether the transfer is still open and which toggle the next segment must carry
                pst = res[1]
                if pst["open"]:
                    m.open = {"dir": "up", "t": pst["t"], "buf": b""}
                if exp[0] == "skip":
                    feats.add("skip:" + exp[1])
                elif dirty and pst["abort"] is not None:
                    feats.add("dirty-refused")
                elif exp[0] == "ok":
                    if pst["abort"] is not None or pst["error"]:
                        bad("upload/refused", f"{tag}: expected {exp[1][:24].hex()}({len(exp[1])}B), got "
                                              f"{pst['abort'] or 'a malformed answer'}")
                    elif not exp[1].startswith(pst["buf"]) or (pst["done"] and pst["buf"] != exp[1]):
                        bad("upload/bytes", f"{tag}: interrupted upload delivered {pst['buf'][:24].hex()}"
                                            f"({len(pst['buf'])}B{', complete' if pst['done'] else ''}), value is "
                                            f"{exp[1][:24].hex()}({len(exp[1])}B)")
                else:
                    if pst["abort"] is None:
                        bad("upload/not-refused", f"{tag}: expected abort {sorted(hex(c) for c in exp[1])}, "
                                                  f"the upload was served")
                    else:
                        check_abort(tag, pst["abort"], exp[1], (index, sub), "read")
                        feats.add("refused-read")
            elif exp[0] == "skip":
                feats.add("skip:" + exp[1])
            elif dirty and res[0] == "abort":
                # reserved bits / bytes of the request were not zero: refusing it is legitimate
                feats.add("dirty-refused")
            elif exp[0] == "ok":
                if res[0] != "ok":
                    bad("upload/refused", f"{tag}: expected {exp[1][:24].hex()}({len(exp[1])}B), got {res}")
                elif res[1] != exp[1]:
                    bad("upload/bytes", f"{tag}: got {res[1][:24].hex()}({len(res[1])}B) want "
                                        f"{exp[1][:24].hex()}({len(exp[1])}B)")
                if len(exp[1]) > 4:
                    feats.add("segmented")
                if len(exp[1]) == 0:
                    feats.add("empty")
                if m.rcb.get((index, sub)) and m.rcb[(index, sub)]["ret"] is not None:
                    feats.add("callback")
            else:
                if res[0] != "abort":
                    bad("upload/not-refused", f"{tag}: expected abort {sorted(hex(c) for c in exp[1])}, got "
                                              f"{res[0]} {res[1] if res[0] != 'ok' else res[1][:16].hex()}")
                else:
                    check_abort(tag, res[1], exp[1], (index, sub), "read")
                    feats.add("refused-read")
            if len(rig.wlog) != wl:
                bad("write-callback-on-read", f"{tag}: write callback invoked during an upload")
        elif kind == "download":
            index, sub, data, style = op["index"], op["sub"], bytes(op["data"]), op["style"]
            tag += f" {index:04x}:{sub:02x} {len(data)}B {style}"
            exp = m.expected_write(index, sub, data)
            before = _store_snapshot(rig.node)
            m.last_mux = (index, sub)
            m.open = None
            dirty = op.get("dirty", 0)
            chunks = op.get("chunks")
            if dirty:
                feats.add("dirty")
            if style.startswith("seg") and (chunks or op.get("empty_last")):
                feats.add("short-segments")
            if op.get("stop_after") is not None and style.startswith("seg"):
                feats.add("interrupted")
                res = _download(cl, index, sub, data, style, chunks=chunks, dirty=dirty,
                                stop_after=op["stop_after"])
                m.dl_open = True
                if res[1]["open"]:
                    m.open = {"dir": "down", "t": res[1]["t"], "buf": res[1]["buf"]}
                frame_checks(tag)
                if _store_snapshot(rig.node) != before:
                    bad("store-changed-by-unfinished-download", f"{tag}")
                if len(rig.wlog) != wl:
                    bad("write-callback-before-completion", f"{tag}")
                if D:
                    break
                continue
            m.dl_open = False
            res = _download(cl, index, sub, data, style, chunks=chunks, empty_last=bool(op.get("empty_last")),
                            dirty=dirty)
            frame_checks(tag)
            if dirty and res[0] == "abort" and exp[0] == "ok":
                # reserved bits / unused bytes of the request were not zero: refusing it is legitimate,
                # and then nothing may have changed
                feats.add("dirty-refused")
                if _store_snapshot(rig.node) != before:
                    bad("refused-write-changed-store", f"{tag}: data_store changed by a refused write")
                if len(rig.wlog) != wl:
                    bad("refused-write-callback", f"{tag}: write callback invoked for a refused write")
                if D:
                    break
                continue
            if style.startswith("seg"):
                feats.add("segmented")
            if exp[0] == "skip":
                feats.add("skip:" + exp[1])
                rig.wlog.clear()
                m.taint.add(m.key(index, sub))
            elif exp[0] == "ok":
                key = m.key(index, sub)
                if res[0] != "ok":
                    bad("download/refused", f"{tag}: a valid download was answered {res}")
                else:
                    m.store[key] = data
                    m.taint.discard(key)
                    new = rig.wlog[wl:]
                    want_od = rig.od[index] if m.kinds[index] == "var" else rig.od[index][sub]
                    if len(new) != 1:
                        bad("write-callback-count", f"{tag}: write callback invoked {len(new)} times")
                    else:
                        ci, cs, cod, cdata = new[0]
                        same_od = cod is want_od or (
                            m.lookup(index, sub)[0].get("synth") and (cod.index, cod.subindex, cod.data_type) ==
                            (index, sub, want_od.data_type))
                        if (ci, cs, cdata) != (index, sub, data) or not same_od:
                            bad("write-callback-args", f"{tag}: callback saw ({ci:04x},{cs},{cdata.hex()},"
                                                       f"{cod!r})")
                    if case.get("two_write_cbs") and (not rig.wlog2 or rig.wlog2[-1] != (index, sub, data)):
                        bad("write-callback-second", f"{tag}: second write callback saw "
                                                     f"{rig.wlog2[-1:] if rig.wlog2 else None}")
                    stores_agree(tag)
            elif (style == "exp_nosize" and res[0] == "ok" and exp[1] == CODES["length_long"]
                  and len(data) * 8 > rc.NUMERIC[m.lookup(index, sub)[0]["dt"]]):
                # an expedited download that does NOT indicate its size (e=1, s=0) carries "4 bytes of which
                # an unspecified number are data": no payload length is stated, so this is not "a payload
                # of the wrong length". Refusing it (what canopen does) and taking the entry's leading
                # bytes are both conformant; in the latter case exactly those bytes must be stored
                key = m.key(index, sub)
                m.store[key] = data[:rc.NUMERIC[m.lookup(index, sub)[0]["dt"]] // 8]
                m.taint.discard(key)
                feats.add("nosize-narrow-accepted")
                stores_agree(tag)
            else:
                if res[0] != "abort":
                    bad("download/not-refused", f"{tag}: expected abort "
                                                f"{sorted(hex(c) for c in exp[1])}, got {res[0]}")
                else:
                    # (a request with non-zero reserved bits may be refused for that reason, with any code)
                    check_abort(tag, res[1], exp[1] if not dirty else {res[1][2]}, (index, sub), "write")
                    feats.add("refused-write")
                after = _store_snapshot(rig.node)
                if after != before:
                    bad("refused-write-changed-store", f"{tag}: data_store changed by a refused write")
                if len(rig.wlog) != wl:
                    bad("refused-write-callback", f"{tag}: write callback invoked for a refused write")
        elif kind == "junk":
            fr = bytes(op["frame"])
            tag += f" {fr.hex()}"
            feats.add("junk")
            before = _store_snapshot(rig.node)
            is_abort = (fr[0] >> 5) == 4
            resp = rig._send(fr)
            if is_abort:
                if len(resp) > 1:
                    bad("junk/count", f"{tag}: {len(resp)} responses to a client abort")
                m.dl_open = False
            else:
                if len(resp) != 1:
                    bad("junk/count", f"{tag}: {len(resp)} response frames (falls silent or chatters)")
                elif len(resp[0]) != 8:
                    bad("junk/dlc", f"{tag}: response {resp[0].hex()} is not 8 bytes")
                elif (fr[0] >> 5) == 7 or ((fr[0] >> 5) == 6 and len(fr) == 8):
                    r = resp[0]
                    if r[0] != 0x80:
                        bad("junk/unknown-command-not-aborted", f"{tag}: answered {r.hex()}")
                    else:
                        code = struct.unpack_from("<L", r, 4)[0]
                        if code not in CODES["command"]:
                            bad("abort-code/command", f"{tag}: abort code {code:08x}, want 05040001")
                        if (fr[0] >> 5) == 6 and not fr[0] & 1:
                            mux = struct.unpack_from("<HB", fr, 1)
                            if struct.unpack_from("<HB", r, 1) != mux:
                                bad("abort-mux/command", f"{tag}: abort {r.hex()} does not carry the "
                                                         f"requested multiplexer")
                        elif (fr[0] >> 5) == 7 and m.open is not None and m.last_mux is not None:
                            # an unknown command in the middle of a transfer: "the multiplexer of the
                            # transfer" (or, read literally as a request frame, bytes 1..3 of the frame)
                            ok_mux = {tuple(m.last_mux)}
                            if len(fr) >= 4:
                                ok_mux.add(struct.unpack_from("<HB", fr, 1))
                            if struct.unpack_from("<HB", r, 1) not in ok_mux:
                                bad("abort-mux/command", f"{tag}: abort {r.hex()} in the middle of the transfer "
                                                         f"of {m.last_mux[0]:04x}:{m.last_mux[1]:02x} carries "
                                                         f"another multiplexer")
                            feats.add("unknown-command-in-transfer")
                    feats.add("unknown-command")
                if len(resp) == 1 and len(resp[0]) == 8 and resp[0][0] != 0x80:
                    # the server took the frame for a request and answered it: the answer must be the
                    # well-formed response to that request (and tell the truth about the entry)
                    _answer_checks(bad, tag, fr, resp[0], m)
            frame_checks(tag)
            # whatever the frame was, the model is no longer sure that a transfer is open
            m.open = None
            # what may a conformant-looking junk frame legitimately have changed?
            ccs = fr[0] >> 5
            # initiate-type frames carry the multiplexer the server will use from now on
            # (block upload: 2-bit sub-command, block download: bit 0 only)
            if len(fr) >= 4 and ccs in (1, 2, 5, 6) and not (ccs == 5 and fr[0] & 3) \
                    and not (ccs == 6 and fr[0] & 1):
                m.last_mux = struct.unpack_from("<HB", fr, 1)
                if ccs != 6:
                    m.dl_open = False
            if ccs == 1 and len(fr) >= 4:
                m.taint.add(m.key(*struct.unpack_from("<HB", fr, 1)))
                if not fr[0] & 2:
                    m.dl_open = True
            elif ccs == 0 and (fr[0] & 1) and m.last_mux is not None:
                m.taint.add(m.key(*m.last_mux))
            after = _store_snapshot(rig.node)
            for k in set(before) | set(after):
                # (an object of kind VAR is one entry whatever sub-index the frame names; the library
                #  files the bytes under the sub-index given)
                if before.get(k) != after.get(k) and k not in m.taint and m.key(*k) not in m.taint:
                    bad("junk/changed-store", f"{tag}: entry {k[0]:04x}:{k[1]:02x} changed from "
                                              f"{before.get(k)} to {after.get(k)}")
            for e in rig.wlog[wl:]:
                if m.key(e[0], e[1]) not in m.taint:
                    bad("junk/write-callback", f"{tag}: write callback for {e[0]:04x}:{e[1]:02x}")
        elif kind == "set_access":
            # the application changes the access type of an entry while the node is serving (parameters
            # locked after commissioning, a command object opened for one step ...): public attribute of the
            # dictionary entry; later requests are judged by the access type in force then
            index, sub = op["index"], op["sub"]
            var = rig.od.get_variable(index, sub)
            if var is None or (index, sub) not in m.ent:
                raise ValueError("generator error: set_access on an entry that is not listed")
            var.access_type = op["access"]
            m.ent[(index, sub)] = dict(m.ent[(index, sub)], access=op["access"])
            feats.add("access-changed")
        elif kind == "replace":
            # the application re-shapes the object dictionary of the serving node through the dictionary's
            # public mapping interface: the object at an index is removed (together with what the node
            # had stored for it) and - with 'spec' - another object (other kind / data type / access
            # type / members) is added under the same index.  Later requests are judged by the
            # dictionary as it is then
            spec = op.get("spec")
            index = spec["index"] if spec is not None else op["index"]
            if index in rig.od:
                del rig.od[index]
            rig.node.data_store.pop(index, None)
            m.forget(index)
            if spec is not None:
                rig.od.add_object(build_od([spec])[index])
                m.kinds[index] = spec["kind"]
                for i_, s_, v_, _k in entries([spec]):
                    m.ent[(i_, s_)] = v_
            feats.add("object-replaced" if spec is not None else "object-removed")
        elif kind == "del_member":
            # the application removes one listed member of a record (and what the node had stored for it)
            index, sub = op["index"], op["sub"]
            if m.kinds.get(index) != "record" or (index, sub) not in m.ent:
                raise ValueError("generator error: del_member on something that is not a listed record member")
            del rig.od[index][sub]
            rig.node.data_store.get(index, {}).pop(sub, None)
            m.forget(index, sub)
            feats.add("member-removed")
        elif kind == "toggle":
            # a segment with the wrong toggle bit while a transfer is in progress.  'last' (download):
            # the segment is flagged as the last one and carries 'payload' (0..7 bytes) - were the toggle
            # right it would complete the download.  Without 't' the wrong toggle is derived from the
            # open transfer the model knows of (no such transfer: the op is skipped)
            d = op["dir"]
            if op.get("t") is None:
                if m.open is None or m.open["dir"] != d:
                    feats.add("toggle-skipped")
                    continue
                t = m.open["t"] ^ 1
            else:
                t = op["t"]
            codes = set(CODES["toggle"])
            if d == "up":
                fr = bytes([0x60 | (t << 4)]) + bytes(7)
            else:
                last = 1 if op.get("last") else 0
                payload = bytes(op.get("payload", b"abcdefg"))[:7]
                fr = bytes([(t << 4) | ((7 - len(payload)) << 1) | last]) + payload.ljust(7, b"\0")
                if last and m.open is not None and m.open["dir"] == "down" and m.last_mux is not None:
                    # the completed value may be one the entry would refuse anyway: any of the codes
                    w = m.expected_write(m.last_mux[0], m.last_mux[1], m.open["buf"] + payload)
                    if w[0] == "abort":
                        codes |= w[1]
                    feats.add("toggle-last-segment")
            m.open = None
            before = _store_snapshot(rig.node)
            r = cl.xfer(fr)
            frame_checks(tag)
            if r is not None and len(r) == 8:
                if r[0] != 0x80:
                    bad("toggle/not-refused", f"{tag}: segment with wrong toggle answered {r.hex()}")
                else:
                    check_abort(tag, cl.abort_fields(r), codes, m.last_mux, "toggle")
                    feats.add("refused-toggle")
            if _store_snapshot(rig.node) != before:
                bad("toggle/changed-store", f"{tag}: data_store changed by a segment with the wrong toggle bit "
                                            f"({fr.hex()})")
            if len(rig.wlog) != wl:
                bad("toggle/write-callback", f"{tag}: write callback invoked for a segment with the wrong "
                                             f"toggle bit ({fr.hex()})")
        else:
            raise ValueError(kind)
        for what, obj, orig in rig.mutables:
            if bytes(obj) != orig:
                bad("application-object-modified", f"{tag}: the {what} (the application's bytearray) was "
                                                   f"{orig[:24].hex()}({len(orig)}B), now "
                                                   f"{bytes(obj)[:24].hex()}({len(obj)}B)")
        if D:
            break
    nontrivial = "segmented" in feats and bool(
        feats & {"junk", "interrupted", "empty", "callback", "refused-read", "refused-write"})
    klass = "+".join(sorted(f for f in feats if not f.startswith("skip"))) or "plain"
    return Outcome(nontrivial, klass, D), feats


def _answer_checks(bad, tag, fr, r, m):
    """The server answered the arbitrary frame `fr` with the non-abort frame `r`: CiA 301 layout of
    that response, and for an initiate upload response the truth about the addressed entry."""
    ccs, scs = fr[0] >> 5, r[0] >> 5
    allowed = {0: (1,), 1: (3,), 2: (2,), 3: (0,), 5: (2, 6), 6: (5,)}.get(ccs, ())
    if scs not in allowed:
        bad("junk/response-kind", f"{tag}: a frame with ccs {ccs} answered with scs {scs} ({r.hex()})")
        return
    if scs == 2:
        if len(fr) >= 4 and r[1:4] != fr[1:4]:
            bad("junk/response-mux", f"{tag}: upload response {r.hex()} does not echo the multiplexer")
        e, sz, n = (r[0] >> 1) & 1, r[0] & 1, (r[0] >> 2) & 3
        if r[0] & 0x10:
            bad("junk/response-reserved", f"{tag}: reserved bit 4 set in {r.hex()}")
        if e:
            size = 4 - n if sz else 4
            if n and not sz:
                bad("junk/response-n", f"{tag}: n without s in {r.hex()}")
            if any(r[4 + size:8]):
                bad("junk/response-padding", f"{tag}: bytes after the expedited data are not zero in {r.hex()}")
        else:
            if n:
                bad("junk/response-n", f"{tag}: n set in the segmented upload response {r.hex()}")
            if not sz and any(r[4:8]):
                bad("junk/response-reserved", f"{tag}: size field not zero although s=0 in {r.hex()}")
        if len(fr) == 8 and (ccs == 2 or (ccs == 5 and not fr[0] & 3)):
            index, sub = struct.unpack_from("<HB", fr, 1)
            exp = m.expected_read(index, sub)
            if exp[0] == "ok":
                if not sz:
                    bad("response/size-not-announced", f"{tag}: upload response {r.hex()} without size")
                elif e and r[4:4 + size] != exp[1]:
                    bad("junk/response-bytes", f"{tag}: upload response {r.hex()}, the value is "
                                               f"{exp[1][:16].hex()}({len(exp[1])}B)")
                elif not e and struct.unpack_from("<L", r, 4)[0] != len(exp[1]):
                    bad("junk/response-size", f"{tag}: upload response {r.hex()} announces "
                                              f"{struct.unpack_from('<L', r, 4)[0]} bytes, the value has {len(exp[1])}")
    elif scs == 3:
        if len(fr) >= 4 and r[1:4] != fr[1:4]:
            bad("junk/response-mux", f"{tag}: download response {r.hex()} does not echo the multiplexer")
        if r[0] & 0x1F or any(r[4:8]):
            bad("junk/response-reserved", f"{tag}: reserved bits / bytes set in {r.hex()}")
    elif scs == 1:
        if r[0] & 0x0F or any(r[1:8]):
            bad("junk/response-reserved", f"{tag}: reserved bits / bytes set in {r.hex()}")
        if (r[0] >> 4) & 1 != (fr[0] >> 4) & 1:
            bad("junk/response-toggle", f"{tag}: segment response {r.hex()} does not echo the toggle bit")
    elif scs == 0:
        n = (r[0] >> 1) & 7
        if any(r[8 - n:8]):
            bad("junk/response-padding", f"{tag}: unused segment bytes are not zero in {r.hex()}")
        if (r[0] >> 4) & 1 != (fr[0] >> 4) & 1:
            bad("junk/response-toggle", f"{tag}: segment response {r.hex()} does not echo the toggle bit")


def _upload(cl, index, sub, blockinit=False, dirty=0, stop_after=None):
    """A standard-conformant upload, every response frame validated (findings go to cl.errors).

    blockinit   start with a block upload initiate; the server may legally answer with a normal
                initiate upload response (protocol switch), the transfer then continues as a normal one
    dirty       1..255: reserved bits of the requests = the low bits of this value, reserved bytes =
                this value (a server may refuse such a request or ignore the bits)
    stop_after  k: stop before the (k+1)-th segment request (an interrupted transfer)

    -> ('ok', data) | ('abort', (index, sub, code)) | ('error', None), or with stop_after
       ('partial', {"open": transfer still open, "t": toggle of the next segment, "buf": bytes received,
                    "done": all of the value received, "abort": abort fields | None, "error": bool})
    """
    partial = stop_after is not None
    pst = {"open": False, "t": 0, "buf": b"", "done": False, "abort": None, "error": False}
    fill = bytes([dirty])
    if blockinit:
        req = struct.pack("<BHBBB2x", 0xA4, index, sub, 127, 0)
    else:
        req = struct.pack("<BHB", 0x40 | (dirty & 0x1F), index, sub) + fill * 4
    r = cl.xfer(req)
    if r is None or len(r) != 8:
        pst["error"] = True
        return ("partial", pst) if partial else ("error", None)
    if r[0] == 0x80:
        pst["abort"] = cl.abort_fields(r)
        return ("partial", pst) if partial else ("abort", pst["abort"])
    cmd = r[0]
    if cmd >> 5 != 2:
        cl._err("scs", f"{'block' if blockinit else 'initiate'} upload request answered with scs {cmd >> 5}", r)
        pst["error"] = True
        return ("partial", pst) if partial else ("error", None)
    if struct.unpack_from("<HB", r, 1) != (index, sub):
        cl._err("mux", f"response for {r[1:4].hex()} to request for {index:04x}:{sub:02x}", r)
    if cmd & 0x10:
        cl._err("reserved", "reserved bit 4 set in initiate upload response", r)
    e, s, n = (cmd >> 1) & 1, cmd & 1, (cmd >> 2) & 3
    if not s:
        cl._err("size-not-announced", "initiate upload response without size indication (s=0)", r)
    if e:
        if s:
            size = 4 - n
        else:
            if n:
                cl._err("n", "n set without s in expedited upload response", r)
            size = 4
        if any(r[4 + size:8]):
            cl._err("padding", "bytes after expedited data are not zero", r)
        pst.update(buf=r[4:4 + size], done=True)
        return ("partial", pst) if partial else ("ok", r[4:4 + size])
    if n:
        cl._err("n", "n set in segmented initiate upload response", r)
    declared = struct.unpack_from("<L", r, 4)[0] if s else None
    if not s and any(r[4:8]):
        cl._err("reserved", "size field not zero although s=0", r)
    buf = bytearray()
    t = 0
    nseg = 0
    while True:
        if partial and nseg >= stop_after:
            pst.update(open=True, t=t, buf=bytes(buf))
            return ("partial", pst)
        r = cl.xfer(bytes([0x60 | (t << 4) | (dirty & 0x0F)]) + fill * 7)
        nseg += 1
        if r is None or len(r) != 8:
            pst.update(error=True, buf=bytes(buf))
            return ("partial", pst) if partial else ("error", None)
        if r[0] == 0x80:
            pst.update(abort=cl.abort_fields(r), buf=bytes(buf))
            return ("partial", pst) if partial else ("abort", pst["abort"])
        cmd = r[0]
        if cmd >> 5 != 0:
            cl._err("scs", f"upload segment response scs {cmd >> 5}", r)
            pst.update(error=True, buf=bytes(buf))
            return ("partial", pst) if partial else ("error", None)
        if (cmd >> 4) & 1 != t:
            cl._err("toggle", f"segment toggle {(cmd >> 4) & 1}, expected {t}", r)
        n, c = (cmd >> 1) & 7, cmd & 1
        ln = 7 - n
        if any(r[1 + ln:8]):
            cl._err("padding", "unused segment bytes are not zero", r)
        buf += r[1:1 + ln]
        t ^= 1
        if c:
            break
        if ln == 0:
            cl._err("empty-segment", "empty segment that is not the last one", r)
        if declared is not None and len(buf) >= declared:
            cl._err("c", f"no last-segment flag although {len(buf)} of {declared} bytes are through", r)
            if len(buf) > declared + 64:
                pst.update(error=True, buf=bytes(buf))
                return ("partial", pst) if partial else ("error", None)
        if len(buf) > 70000:
            cl._err("c", f"no last-segment flag after {len(buf)} bytes", r)
            pst.update(error=True, buf=bytes(buf))
            return ("partial", pst) if partial else ("error", None)
    if declared is not None and declared != len(buf):
        cl._err("size", f"announced {declared} bytes, delivered {len(buf)}")
    pst.update(buf=bytes(buf), done=True)
    return ("partial", pst) if partial else ("ok", bytes(buf))


def _download(cl, index, sub, data, style, chunks=None, empty_last=False, dirty=0, stop_after=None):
    """A standard-conformant download, every response frame validated (findings go to cl.errors).

    style       'exp' (1..4 bytes), 'exp_nosize' (4 bytes), 'seg_size', 'seg_nosize'
    chunks      list of 1..7 (cycled): number of data bytes in successive segments - CiA 301 gives every
                segment, not only the last one, the field n "bytes that do not contain data"
    empty_last  all data travels in segments that are not the last one; an empty last segment follows
    dirty       1..255: unused bytes of every request carry this value instead of zero, the reserved
                bit 4 of the initiate request is bit 4 of this value
    stop_after  k: send at most k segments and never the last one (an interrupted transfer)

    -> ('ok', None) | ('abort', (index, sub, code)) | ('error', None), or with stop_after
       ('partial', {"open": transfer open, "t": toggle of the next segment, "buf": bytes sent so far})
    """
    data = bytes(data)
    partial = stop_after is not None
    pst = {"open": False, "t": 0, "buf": b""}
    fill = bytes([dirty])
    x = dirty & 0x10
    if style == "exp":
        n = 4 - len(data)
        req = struct.pack("<BHB", 0x23 | (n << 2) | x, index, sub) + data + fill * n
    elif style == "exp_nosize":
        req = struct.pack("<BHB", 0x22 | x, index, sub) + data
    elif style == "seg_size":
        req = struct.pack("<BHBL", 0x21 | x, index, sub, len(data))
    else:
        req = struct.pack("<BHB", 0x20 | x, index, sub) + fill * 4
    r = cl.xfer(req)
    if r is None or len(r) != 8:
        return ("partial", pst) if partial else ("error", None)
    if r[0] == 0x80:
        return ("partial", pst) if partial else ("abort", cl.abort_fields(r))
    if r[0] != 0x60:
        cl._err("scs", f"initiate download response command {r[0]:02x}", r)
        return ("partial", pst) if partial else ("error", None)
    if struct.unpack_from("<HB", r, 1) != (index, sub):
        cl._err("mux", "initiate download response for another multiplexer", r)
    if any(r[4:8]):
        cl._err("reserved", "reserved bytes of initiate download response not zero", r)
    if style in ("exp", "exp_nosize"):
        return ("partial", pst) if partial else ("ok", None)
    sizes = [max(1, min(7, int(c))) for c in chunks] if chunks else [7]
    t = pos = k = 0
    while True:
        if pos >= len(data):
            chunk, last = b"", True          # the empty value, or the trailing empty last segment
        else:
            chunk = data[pos:pos + sizes[k % len(sizes)]]
            last = pos + len(chunk) >= len(data) and not empty_last
        if partial and (last or k >= stop_after):
            pst.update(open=True, t=t, buf=data[:pos])
            return ("partial", pst)
        pos += len(chunk)
        k += 1
        req = bytes([(t << 4) | ((7 - len(chunk)) << 1) | (1 if last else 0)]) + chunk + fill * (7 - len(chunk))
        r = cl.xfer(req)
        if r is None or len(r) != 8:
            return ("partial", pst) if partial else ("error", None)
        if r[0] == 0x80:
            return ("partial", pst) if partial else ("abort", cl.abort_fields(r))
        if r[0] >> 5 != 1:
            cl._err("scs", f"download segment response scs {r[0] >> 5}", r)
            return ("partial", pst) if partial else ("error", None)
        if (r[0] >> 4) & 1 != t:
            cl._err("toggle", f"download segment response toggle {(r[0] >> 4) & 1} expected {t}", r)
        if r[0] & 0x0F or any(r[1:8]):
            cl._err("reserved", "reserved bits/bytes of download segment response not zero", r)
        t ^= 1
        if last:
            return ("ok", None)


def run_case(case) -> Outcome:
    out, _ = run_history(case, "C02")
    return out


# ---- generation ----------------------------------------------------------------
ALL_DTS = [rc.BOOLEAN] + sorted(rc.NUMERIC) + list(rc.STRINGS)
# the four access types the properties name plus CiA 306's "rwr"/"rww" (read-write on process
# input / output): readable and writable like "rw"
ACCESS = ["rw", "ro", "wo", "const", "rw", "rw", "rwr", "rww"]


def typed_value(dt, max_len=60):
    if dt == rc.BOOLEAN:
        return st.booleans()
    if dt in rc.INTEGERS:
        lo, hi = rc.int_range(dt)
        return st.one_of(st.sampled_from([lo, hi, 0, 1, min(hi, 255), max(lo, -1)]), st.integers(lo, hi))
    if dt == rc.REAL32:
        return st.floats(width=32, allow_nan=False)
    if dt == rc.REAL64:
        return st.floats(allow_nan=False)
    if dt == rc.VISIBLE_STRING:
        return st.text(st.characters(min_codepoint=32, max_codepoint=126), max_size=max_len)
    if dt == rc.UNICODE_STRING:
        return st.text(st.characters(min_codepoint=32, max_codepoint=0xFFFF, exclude_categories=["Cs"]),
                       max_size=max_len // 2)
    return st.binary(max_size=max_len)


@st.composite
def var_spec(draw, name, max_len=60, access=None):
    dt = draw(st.sampled_from(ALL_DTS))
    spec = {"name": name, "dt": dt, "access": access or draw(st.sampled_from(ACCESS))}
    src = draw(st.sampled_from(["none", "default", "value", "both", "both", "default"]))
    if src in ("default", "both"):
        spec["default"] = draw(typed_value(dt, max_len))
    if src in ("value", "both"):
        spec["value"] = draw(st.one_of(typed_value(dt, max_len), _falsy(dt)))
    return spec


def _falsy(dt):
    if dt == rc.BOOLEAN:
        return st.just(False)
    if dt in rc.INTEGERS:
        return st.just(0)
    if dt in rc.REALS:
        return st.just(0.0)
    if dt in (rc.VISIBLE_STRING, rc.UNICODE_STRING):
        return st.just("")
    return st.just(b"")


INDEX = st.integers(0x1000, 0xFFFF).filter(lambda i: i != 0x1017 and not 0x1400 <= i <= 0x1BFF)


@st.composite
def od_spec(draw, max_len=60, access=None, min_objs=1, max_objs=8):
    n = draw(st.integers(min_objs, max_objs))
    idxs = sorted(draw(st.sets(INDEX, min_size=n, max_size=n)))
    od = []
    for k, index in enumerate(idxs):
        kind = draw(st.sampled_from(["var", "var", "record", "array"]))
        if kind == "var":
            s = draw(var_spec(f"obj{k}", max_len, access))
            s.update(kind="var", index=index)
            od.append(s)
        else:
            subs = sorted(draw(st.sets(st.integers(1, 254), min_size=1, max_size=4)))
            if kind == "array":
                subs = sorted(set(subs) | {1})
            members = [{"sub": 0, "name": "count", "dt": rc.UNSIGNED8, "access": "ro",
                        "default": len(subs)}]
            for s_ in subs:
                ms = draw(var_spec(f"m{s_}", max_len, access))
                ms["sub"] = s_
                members.append(ms)
            od.append({"kind": kind, "index": index, "name": f"obj{k}", "members": members})
    return od


def data_for(dt, length):
    """Bytes for a download of a given length (content irrelevant to the type)."""
    if length > 1500:
        return st.integers(0, 255).map(lambda salt: bytes(((i * 13 + salt) % 255) + 1 for i in range(length)))
    return st.binary(min_size=length, max_size=length)


def lengths(max_len):
    return st.one_of(st.integers(0, 64), st.sampled_from([0, 1, 3, 4, 5, 7, 8, 13, 14, 15, 21]),
                     st.integers(0, max_len))


@st.composite
def history(draw, max_len, refusal_bias=False, max_ops=14):
    od = draw(od_spec(min(max_len, 80)))
    ent = [(i, s, spec, kind) for i, s, spec, kind in entries(od)]
    listed = list(ent)
    for o in od:
        if o["kind"] == "array":
            have = {m["sub"] for m in o["members"]}
            tmpl = [m for m in o["members"] if m["sub"] == 1][0]
            for sub in sorted(draw(st.sets(st.integers(2, 255).filter(lambda v: v not in have), max_size=2))):
                ent.append((o["index"], sub, {k: v for k, v in tmpl.items() if k != "value"}, "array"))
    case = {"od": od}
    if draw(st.integers(0, 1 if refusal_bias else 2)) == 0:
        cbs = []
        ncb = draw(st.sampled_from([1, 1, 2, 3]))
        pool = ent
        if refusal_bias and draw(st.booleans()):
            # callbacks in front of entries that may not be read at all
            pool = [e for e in ent if not Model.readable(e[2])] or ent
        for (i, s, spec, kind) in draw(st.lists(st.sampled_from(pool), max_size=4 if refusal_bias else 3,
                                                unique_by=lambda e: (e[0], e[1]))):
            how = draw(st.sampled_from(["typed", "bytes", "none"]))
            cb = {"index": i, "sub": s, "ret": None}
            if how == "typed":
                cb["ret"] = draw(typed_value(spec["dt"], 40))
            elif how == "bytes":
                cb["ret"] = draw(st.binary(max_size=30))
            if isinstance(cb["ret"], bytes) and draw(st.booleans()):
                cb["mutable"] = True     # the application hands out its own bytearray, the same every time
            if ncb > 1:
                cb["cb"] = draw(st.integers(0, ncb - 1))
            cbs.append(cb)
        case["read_cb"] = cbs
        if ncb > 1:
            case["read_cbs"] = ncb
    if draw(st.integers(0, 4)) == 0:
        case["two_write_cbs"] = True
    case["source"] = draw(st.sampled_from(["code", "code", "eds", "dcf"]))
    if case["source"] == "code" and draw(st.integers(0, 2)) == 0:
        # code-built dictionary whose byte-valued defaults / parameter values are bytearrays of the application
        for _i, _s, spec, _k in listed:
            if isinstance(spec.get("default"), bytes) or isinstance(spec.get("value"), bytes):
                spec["mutable"] = True
    used = {o["index"] for o in od}
    ops = []
    for _ in range(draw(st.integers(1, max_ops))):
        choice = draw(st.sampled_from(
            ["upload", "upload", "download", "download", "junk", "stray", "missing", "abort", "reread", "toggle"] +
            (["refuse"] * 4 + ["set_access"] * 2 + ["toggle"] if refusal_bias else ["set_access"])))
        if choice == "reread":
            # the same entry served repeatedly, with an interrupted upload in between
            i, s, spec, kind = draw(st.sampled_from(ent))
            ops.append({"op": "upload", "index": i, "sub": s})
            if draw(st.booleans()):
                ops.append({"op": "upload", "index": i, "sub": s, "stop_after": draw(st.integers(0, 2))})
            ops.append({"op": "upload", "index": i, "sub": s})
            continue
        if choice == "toggle":
            # a transfer left open, then a segment with the wrong toggle bit (the interpreter derives it)
            i, s, spec, kind = draw(st.sampled_from(ent))
            if draw(st.booleans()):
                ops.append({"op": "upload", "index": i, "sub": s, "stop_after": draw(st.integers(0, 2))})
                ops.append({"op": "toggle", "dir": "up"})
            else:
                dt = spec["dt"]
                n = draw(st.integers(0, 9)) if dt in rc.NUMERIC else draw(st.integers(0, 30))
                ops.append({"op": "download", "index": i, "sub": s, "data": draw(st.binary(min_size=n, max_size=n)),
                            "style": draw(st.sampled_from(["seg_size", "seg_nosize"])),
                            "stop_after": draw(st.integers(0, 2))})
                ops.append({"op": "toggle", "dir": "down", "last": draw(st.booleans()),
                            "payload": draw(st.binary(max_size=7))})
            if draw(st.booleans()):
                ops.append({"op": "upload", "index": i, "sub": s})
            continue
        if choice == "set_access":
            i, s, spec, kind = draw(st.sampled_from(listed))
            ops.append({"op": "set_access", "index": i, "sub": s, "access": draw(st.sampled_from(ACCESS))})
            continue
        if choice in ("upload", "download", "refuse"):
            i, s, spec, kind = draw(st.sampled_from(ent))
            if choice == "upload":
                op = {"op": "upload", "index": i, "sub": s}
                r = draw(st.integers(0, 9))
                if r == 0:
                    op["stop_after"] = draw(st.integers(0, 3))
                elif r == 1:
                    op["blockinit"] = True
                elif r == 2:
                    op["dirty"] = draw(st.one_of(st.sampled_from([1, 0x10, 0x1F, 0x80, 0xFF]), st.integers(1, 255)))
            else:
                dt = spec["dt"]
                if dt in rc.NUMERIC and (choice == "download" or draw(st.booleans())):
                    n = rc.NUMERIC[dt] // 8
                    if draw(st.integers(0, 5)) == 0:
                        n = draw(st.integers(0, 9))
                elif dt in rc.NUMERIC:
                    n = draw(st.integers(0, 9))
                else:
                    n = draw(lengths(max_len))
                data = draw(data_for(dt, n))
                styles = ["seg_size", "seg_nosize"]
                if 1 <= n <= 4:
                    styles += ["exp", "exp"]
                if n == 4:
                    styles.append("exp_nosize")
                op = {"op": "download", "index": i, "sub": s, "data": data,
                      "style": draw(st.sampled_from(styles))}
                if op["style"].startswith("seg") and n > 7 and draw(st.integers(0, 9)) == 0:
                    op["stop_after"] = draw(st.integers(0, 2))
                if op["style"].startswith("seg") and draw(st.integers(0, 2)) == 0:
                    # segments that are not full although they are not the last one
                    op["chunks"] = draw(st.lists(st.integers(1, 7), min_size=1, max_size=4))
                    if "stop_after" not in op and draw(st.integers(0, 2)) == 0:
                        op["empty_last"] = True
                if draw(st.integers(0, 9)) == 0:
                    op["dirty"] = draw(st.one_of(st.sampled_from([1, 0x10, 0xEF, 0xFF]), st.integers(1, 255)))
            ops.append(op)
        elif choice == "missing":
            if draw(st.booleans()):
                index = draw(st.integers(0, 0xFFFF).filter(lambda v: v not in used))
                sub = draw(st.integers(0, 255))
            else:
                recs = [o for o in od if o["kind"] == "record"]
                if not recs:
                    continue
                o = draw(st.sampled_from(recs))
                have = {m["sub"] for m in o["members"]}
                index, sub = o["index"], draw(st.integers(0, 255).filter(lambda v: v not in have))
            if draw(st.booleans()):
                ops.append({"op": "upload", "index": index, "sub": sub})
            else:
                n = draw(st.integers(0, 12))
                ops.append({"op": "download", "index": index, "sub": sub, "data": draw(st.binary(min_size=n, max_size=n)),
                            "style": "exp" if 1 <= n <= 4 else draw(st.sampled_from(["seg_size", "seg_nosize"]))})
        elif choice == "junk":
            n = draw(st.sampled_from([8, 8, 8, 1, 2, 3, 4, 5, 6, 7]))
            fr = bytearray(draw(st.binary(min_size=n, max_size=n)))
            how = draw(st.integers(0, 4))
            if how == 0:
                fr[0] = 0xE0 | (fr[0] & 0x1F)          # unknown command specifier 7
            elif how == 1 and n == 8:
                i, s, spec, kind = draw(st.sampled_from(ent))
                fr[0] = 0xC0 | (fr[0] & 0x06)          # block download initiate
                struct.pack_into("<HB", fr, 1, i, s)
            ops.append({"op": "junk", "frame": bytes(fr)})
        elif choice == "stray":
            ccs = draw(st.sampled_from([0, 3]))
            cmd = (ccs << 5) | (draw(st.integers(0, 1)) << 4) | draw(st.integers(0, 15))
            if ccs == 3:
                cmd &= 0xF0
            ops.append({"op": "junk", "frame": bytes([cmd]) + draw(st.binary(min_size=7, max_size=7))})
        else:
            code = draw(st.sampled_from([0x05040000, 0x08000000, 0, 0xFFFFFFFF]))
            ops.append({"op": "junk", "frame": struct.pack("<BHBL", 0x80, 0, 0, code)})
    case["ops"] = ops
    return case


SHORT_CHUNKS = ([1], [2], [3], [4], [5], [6], [3, 7, 1, 6, 2, 5, 4], [7, 1], [6, 7])


def enum_cases(lens=tuple(range(0, 65)), dts=(rc.DOMAIN, rc.OCTET_STRING)):
    """Every value length 0..64 served from each of the four sources and
    downloaded in every style, on a fresh node each.  The served entry is uploaded again after an
    interrupted upload; callback values come from 1..3 registered callbacks and (every other length)
    are the application's own bytearray, as are the defaults / parameter values; segmented downloads
    also travel in short segments and with a trailing empty last segment."""
    for n in lens:
        data = bytes(((i * 29 + n) % 255) + 1 for i in range(n))
        for dt in dts:
            for src in ("default", "value", "both", "callback", "download"):
                index = 0x2000 + (n & 0xFFF)
                spec = {"kind": "var", "index": index, "name": "x", "dt": dt, "access": "rw"}
                case = {"od": [spec,
                               {"kind": "record", "index": 0x3000, "name": "r", "members": [
                                   {"sub": 0, "name": "n", "dt": rc.UNSIGNED8, "default": 1},
                                   {"sub": 1, "name": "a", "dt": dt, "access": "rw"}]}]}
                ops = []
                own = (n + (dt == rc.DOMAIN)) % 2 == 0     # the application's own bytearray
                if src == "default":
                    spec["default"] = data
                elif src == "value":
                    spec["value"] = data
                elif src == "both":
                    spec["value"] = data
                    spec["default"] = b"other default"
                elif src == "callback":
                    spec["default"] = b"zz"
                    ncb = 1 + n % 3
                    case["read_cb"] = [{"index": index, "sub": 0, "ret": data, "cb": (n // 3) % ncb}]
                    case["read_cbs"] = ncb
                    if own:
                        case["read_cb"][0]["mutable"] = True
                else:
                    spec["default"] = b"old"
                    styles = ["seg_size", "seg_nosize"] + (["exp"] if 1 <= n <= 4 else []) + \
                             (["exp_nosize"] if n == 4 else [])
                    for k, stl in enumerate(styles):
                        ops.append({"op": "download", "index": index, "sub": 0,
                                    "data": data if k % 2 == 0 else data[::-1], "style": stl})
                        ops.append({"op": "upload", "index": index, "sub": 0})
                    ops.append({"op": "download", "index": 0x3000, "sub": 1, "data": data, "style": styles[0]})
                    ops.append({"op": "upload", "index": 0x3000, "sub": 1})
                    # short segments that are not the last one / a trailing empty last segment
                    for k, stl in enumerate(("seg_size", "seg_nosize")):
                        ops.append({"op": "download", "index": index, "sub": 0, "data": data[::-1] if k else data,
                                    "style": stl, "chunks": SHORT_CHUNKS[(n + 4 * k) % len(SHORT_CHUNKS)],
                                    "empty_last": (n + k) % 2 == 0})
                        ops.append({"op": "upload", "index": index, "sub": 0})
                if src in ("default", "value", "both") and own:
                    spec["mutable"] = True
                ops.append({"op": "upload", "index": index, "sub": 0})
                ops.append({"op": "upload", "index": index, "sub": 0, "stop_after": n % 3})
                ops.append({"op": "upload", "index": index, "sub": 0})
                ops.append({"op": "upload", "index": index, "sub": 0, "blockinit": True})
                case["ops"] = ops
                yield case


LONG_LENS = (127, 128, 255, 256, 889, 890, 1000, 4095, 4096, 10000)
DIRTY = (0x01, 0x02, 0x04, 0x08, 0x10, 0x1F, 0x80, 0xA5, 0xFF)


def dirty_cases():
    """Initiate / segment requests whose reserved bits and unused bytes are not zero, addressed to
    entries that exist (values of 0..15 bytes, every numeric width): served or refused, never garbled."""
    for n in (0, 1, 2, 3, 4, 5, 7, 8, 14, 15):
        data = bytes(((i * 31 + n) % 255) + 1 for i in range(n))
        od = [{"kind": "var", "index": 0x2000, "name": "x", "dt": rc.DOMAIN, "access": "rw", "default": data},
              {"kind": "record", "index": 0x2001, "name": "r", "members": [
                  {"sub": 0, "name": "n", "dt": rc.UNSIGNED8, "access": "ro", "default": 2},
                  {"sub": 1, "name": "u16", "dt": rc.UNSIGNED16, "access": "rw", "default": 0x1234},
                  {"sub": 2, "name": "o", "dt": rc.OCTET_STRING, "access": "rw", "value": data}]}]
        for d in DIRTY:
            ops = [{"op": "upload", "index": 0x2000, "sub": 0, "dirty": d},
                   {"op": "upload", "index": 0x2001, "sub": 1, "dirty": d},
                   {"op": "upload", "index": 0x2001, "sub": 2, "dirty": d, "stop_after": 1},
                   {"op": "upload", "index": 0x2001, "sub": 0, "dirty": d}]
            for stl in ("seg_size", "seg_nosize") + (("exp",) if 1 <= n <= 4 else ()):
                ops += [{"op": "download", "index": 0x2001, "sub": 2, "data": data[::-1], "style": stl, "dirty": d,
                         "chunks": SHORT_CHUNKS[(n + d) % len(SHORT_CHUNKS)]},
                        {"op": "upload", "index": 0x2001, "sub": 2}]
            ops += [{"op": "download", "index": 0x2001, "sub": 1, "data": b"\x01", "style": "exp", "dirty": d},
                    {"op": "download", "index": 0x2001, "sub": 1, "data": b"\x34\x12", "style": "exp", "dirty": d},
                    {"op": "upload", "index": 0x2001, "sub": 1},
                    {"op": "upload", "index": 0x2000, "sub": 0}]
            yield {"od": od, "ops": ops}


def first_frame_cases():
    """Anything as the very first frame a fresh node sees (addressing nothing, a segmented value, an
    expedited value)."""
    od = [{"kind": "var", "index": 0x2000, "name": "x", "dt": rc.DOMAIN, "access": "rw", "default": b"abcdefghij"},
          {"kind": "var", "index": 0x2001, "name": "y", "dt": rc.UNSIGNED16, "access": "rw", "default": 0x1234}]
    for b0 in range(256):
        for tail in (bytes(7), bytes([0x00, 0x20, 0x00, 1, 2, 3, 4]), bytes([0xFF] * 7),
                     bytes([0x01, 0x20, 0x00, 0xDE, 0xAD, 0xBE, 0xEF])):
            yield {"od": od, "ops": [{"op": "junk", "frame": bytes([b0]) + tail},
                                     {"op": "upload", "index": 0x2000, "sub": 0}]}
        for n in range(1, 8):
            yield {"od": od, "ops": [{"op": "junk", "frame": (bytes([b0]) + bytes([0x00, 0x20, 0, 9, 9, 9, 9]))[:n]},
                                     {"op": "upload", "index": 0x2000, "sub": 0}]}


def search(ctx):
    thorough = ctx.tier == "thorough"
    ctx.enumerate(enum_cases(), "every value length 0..64 x value source x download style")
    ctx.enumerate(enum_cases(LONG_LENS + ((2000, 7000, 9999) if thorough else ()), (rc.DOMAIN,)),
                  "long values (up to 10^4 bytes) x value source x download style")
    ctx.enumerate(dirty_cases(), "requests with non-zero reserved bits / unused bytes on existing entries")
    ctx.enumerate(first_frame_cases(), "every first byte x 1..8 byte frames as the first frame of a fresh node")
    ctx.hypothesis(history(10000 if thorough else 300), 15000 if thorough else 2500)
