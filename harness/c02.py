"""C02 - SDO server serves and stores object values exactly, in conformant frames.

SUT: LocalNode + SdoServer on a simulated bus.  Peer: RefSdoClient (frame level,
validates every response).  Model: dict store + precedence rule
read callback > downloaded > parameter value > default > abort, expected bytes
from the independent codec.  The same interpreter serves C06 (refusals).

Clauses -> case families
  * upload obtains exactly the bytes of every value source incl. empty value:
    op 'upload' on entries whose spec carries default / value / both / neither,
    after downloads, with read callbacks (typed, bytes, None)
  * accepted download stores exactly the bytes; later uploads and write
    callbacks see them: op 'download' (exp / exp_nosize / seg_size / seg_nosize)
    followed by data_store + callback-log comparison
  * exactly one well-formed 8-byte response per request, multiplexer echo, true
    size, toggle from 0, c exactly when exhausted: validated by RefSdoClient for
    every frame of every transfer
  * no frame sequence makes the server raise or fall silent: ops 'junk',
    'stray', interrupted transfers ('stop_after'), starting from a fresh node
"""
import struct

from hypothesis import strategies as st

from harness import refcodec as rc
from harness.core import Discrepancy, Outcome
from harness.odutil import build_od, entries
from harness.refsdo import RefSdoClient
from harness.simbus import Frame, Hub

PROPERTY = "C02"
LEVEL = "exploration"
RULE = ("case = generated object dictionary (variables, records, arrays; all data types; access types; "
        "default / parameter value / both / none per entry) + optional read callback table + history of "
        "ops on a freshly created LocalNode: upload(entry), download(entry, bytes, exp|exp_nosize|seg_size|"
        "seg_nosize), transfers interrupted after k segments (restart), junk frames of 1..8 bytes, stray "
        "segments with either toggle, client aborts, block-upload initiate (legal downgrade), the application changing an entry's access type "
        "between requests. Oracle: "
        "frame-level reference client validating every response + dict model of the store with precedence "
        "callback > downloaded > parameter value > default; expected bytes from the independent codec. "
        "Non-trivial = history with >=1 segmented transfer and >=1 of {junk, stray, interrupted, empty "
        "value, callback source, falsy parameter value}; distinct = canonical JSON.")
ASSUMPTIONS = [
    "a junk frame that a CiA 301 server could take for an expedited download, and a stray last download "
    "segment, may legitimately change the addressed entry: the model marks that entry 'tainted' and "
    "only checks frame well-formedness for it until the next accepted download",
    "top-level variables ignore the sub-index in this implementation (not generated as 'missing'); array members "
    "2..255 that are not listed exist and are described by member 1 (type, access, default)",
    "indexes 0x1017 and 0x1400..0x1BFF are not generated (they carry heartbeat / PDO side effects)",
]
BUDGET = {"quick": 150, "thorough": 420}

NODE = 5
RX, TX = 0x600 + NODE, 0x580 + NODE

CODES = {
    "wo": {0x06010001}, "ro": {0x06010002}, "noindex": {0x06020000}, "nosub": {0x06090011},
    "length": {0x06070010, 0x06070012, 0x06070013}, "novalue": {0x060A0023, 0x08000024},
    "toggle": {0x05030000}, "command": {0x05040001},
}


def _eds_value(dt, v):
    if dt == rc.BOOLEAN:
        return "1" if v else "0"
    if dt in rc.INTEGERS:
        return str(v) if v < 0 or v % 3 == 0 else f"0x{v:X}"
    if dt in rc.REALS:
        return repr(float(v))
    if dt in (rc.OCTET_STRING, rc.DOMAIN):
        return bytes(v).hex()
    return v


def render_eds(spec, with_values):
    """Minimal independent EDS/DCF writer for the dictionary specs of this module:
    defaults become DefaultValue, parameter values ParameterValue (DCF only)."""
    lines = ["[FileInfo]", "FileName=generated", "", "[DeviceInfo]", "VendorName=verif", ""]
    idx = [o["index"] for o in spec]
    lines += ["[MandatoryObjects]", "SupportedObjects=0", "", "[OptionalObjects]",
              f"SupportedObjects={len(idx)}"] + [f"{k + 1}=0x{i:04X}" for k, i in enumerate(idx)] + [""]

    def var(section, v, otype):
        out = [f"[{section}]", f"ParameterName={v['name']}", f"ObjectType=0x{otype:X}",
               f"DataType=0x{v['dt']:04X}", f"AccessType={v.get('access', 'rw')}"]
        if v.get("default") is not None:
            out.append(f"DefaultValue={_eds_value(v['dt'], v['default'])}")
        if with_values and v.get("value") is not None:
            out.append(f"ParameterValue={_eds_value(v['dt'], v['value'])}")
        out += ["PDOMapping=0", ""]
        return out

    for o in spec:
        if o["kind"] == "var":
            lines += var(f"{o['index']:04X}", o, 7)
        else:
            lines += [f"[{o['index']:04X}]", f"ParameterName={o['name']}",
                      f"ObjectType=0x{8 if o['kind'] == 'array' else 9:X}", f"SubNumber={len(o['members'])}", ""]
            for m in o["members"]:
                lines += var(f"{o['index']:04X}sub{m['sub']:X}", m, 7)
    return "\n".join(lines) + "\n"


def eds_safe(spec):
    """True when every textual value survives an INI file unchanged (the writer does no quoting:
    leading/trailing blanks, ';' comments and line breaks would not)."""
    for _i, _s, v, _k in entries(spec):
        for key in ("default", "value"):
            x = v.get(key)
            if isinstance(x, str) and (x != x.strip() or ";" in x or any(ord(c) < 32 or ord(c) == 127 for c in x)
                                       or any(c.isspace() and c != " " for c in x)):
                return False
            if v["dt"] in (rc.OCTET_STRING, rc.DOMAIN) and x is not None and not isinstance(x, (bytes, bytearray)):
                return False
    return True


class Rig:
    def __init__(self, case):
        import io

        import canopen
        self.hub = Hub()
        self.net, self.port = self.hub.attach("server")
        src = case.get("source", "code")
        if src in ("eds", "dcf") and eds_safe(case["od"]):
            fp = io.StringIO(render_eds(case["od"], with_values=(src == "dcf")))
            fp.name = "generated." + src
            self.od = canopen.import_od(fp, NODE)
            self.from_text = src
        else:
            self.od = build_od(case["od"])
            self.from_text = None
        self.node = canopen.LocalNode(NODE, self.od)
        self.net.add_node(self.node)
        self.collected = []
        self.cport = self.hub.port("refclient", handler=self._on)
        self.client = RefSdoClient(self._send)
        self.wlog = []
        self.rcb = {(r["index"], r["sub"]): r for r in case.get("read_cb", [])}
        self.rcalls = []
        if case.get("write_cb", True):
            self.node.add_write_callback(self._wcb)
            if case.get("two_write_cbs"):
                self.node.add_write_callback(self._wcb2)
                self.wlog2 = []
        if self.rcb:
            self.node.add_read_callback(self._rcb)

    def _on(self, fr):
        if fr.can_id == TX:
            self.collected.append(bytes(fr.data))

    def _send(self, data):
        self.collected = []
        self.hub.route(Frame(RX, data, src=self.cport, ts=self.hub.now()))
        return list(self.collected)

    def _wcb(self, **kw):
        self.wlog.append((kw.get("index"), kw.get("subindex"), kw.get("od"), bytes(kw.get("data"))))

    def _wcb2(self, **kw):
        self.wlog2.append((kw.get("index"), kw.get("subindex"), bytes(kw.get("data"))))

    def _rcb(self, **kw):
        self.rcalls.append((kw.get("index"), kw.get("subindex")))
        r = self.rcb.get((kw.get("index"), kw.get("subindex")))
        if r is None:
            return None
        return r["ret"]


class Model:
    def __init__(self, case):
        if case.get("source") == "eds" and eds_safe(case["od"]):
            # an EDS carries defaults only
            import copy
            case = copy.deepcopy(case)
            for _i, _s, v, _k in entries(case["od"]):
                v.pop("value", None)
        self.ent = {}
        self.kinds = {}
        for o in case["od"]:
            self.kinds[o["index"]] = o["kind"]
        for index, sub, spec, kind in entries(case["od"]):
            self.ent[(index, sub)] = spec
        self.store = {}
        self.taint = set()
        self.rcb = {(r["index"], r["sub"]): r for r in case.get("read_cb", [])}
        self.last_mux = None
        self.dl_open = False

    def lookup(self, index, sub):
        """-> (spec | None, condition | None)"""
        if index not in self.kinds:
            return None, "noindex"
        kind = self.kinds[index]
        if kind == "var":
            return self.ent[(index, 0)], None    # sub-index ignored by this implementation
        if (index, sub) in self.ent:
            return self.ent[(index, sub)], None
        if kind == "array" and 0 < sub < 256 and (index, 1) in self.ent:
            # members 2..255 that are not listed are described by member 1 (data type, access,
            # default ...); a DCF parameter value belongs to the listed member only
            synth = {k: v for k, v in self.ent[(index, 1)].items() if k != "value"}
            synth["sub"] = sub
            synth["synth"] = True
            return synth, None
        return None, "nosub"

    @staticmethod
    def readable(spec):
        a = spec.get("access", "rw")
        return "r" in a or a == "const"

    @staticmethod
    def writable(spec):
        return "w" in spec.get("access", "rw")

    def expected_read(self, index, sub):
        """-> ('ok', bytes) | ('abort', set_of_codes) | ('skip', why)"""
        spec, cond = self.lookup(index, sub)
        if cond:
            return ("abort", CODES[cond])
        key = (index, sub) if self.kinds[index] != "var" else (index, 0)
        if not self.readable(spec):
            return ("abort", CODES["wo"])
        if key in self.taint:
            return ("skip", "tainted")
        dt = spec["dt"]
        r = self.rcb.get((index, sub))
        if r is not None and r["ret"] is not None:
            v = r["ret"]
            return ("ok", bytes(v) if isinstance(v, (bytes, bytearray)) else rc.encode(dt, v))
        if key in self.store:
            return ("ok", self.store[key])
        if spec.get("value") is not None:
            return ("ok", rc.encode(dt, spec["value"]))
        if spec.get("default") is not None:
            return ("ok", rc.encode(dt, spec["default"]))
        return ("abort", CODES["novalue"])

    def expected_write(self, index, sub, data):
        """-> ('ok',) | ('abort', codes) | ('skip', why)"""
        spec, cond = self.lookup(index, sub)
        if cond:
            return ("abort", CODES[cond])
        codes = set()
        if not self.writable(spec):
            codes |= CODES["ro"]
        if spec["dt"] in rc.NUMERIC and len(data) * 8 != rc.NUMERIC[spec["dt"]]:
            codes |= CODES["length"]
        if codes:
            return ("abort", codes)
        return ("ok",)

    def key(self, index, sub):
        return (index, 0) if self.kinds.get(index) == "var" else (index, sub)


def _store_snapshot(node):
    return {(i, s): bytes(v) for i, subs in node.data_store.items() for s, v in subs.items()}


def run_history(case, prefix):
    try:
        rig = Rig(case)
    except Exception as e:   # building the node from the generated dictionary must not fail
        return Outcome(True, "setup", [Discrepancy(f"{prefix}/setup-raises",
                                                   f"creating the local node (source {case.get('source', 'code')}) "
                                                   f"raised {type(e).__name__}: {e}")]), set()
    m = Model(case)
    cl = rig.client
    D = []
    feats = set()
    if rig.from_text:
        feats.add("dict-from-" + rig.from_text)

    def bad(kind, detail):
        D.append(Discrepancy(f"{prefix}/{kind}", detail))

    def frame_checks(tag):
        for fr, e in rig.port.notify_errors:
            bad("raises-into-receive-path", f"{tag}: Network.notify raised {type(e).__name__}: {e} "
                                            f"for frame {fr.data.hex()}")
        rig.port.notify_errors.clear()
        for pe in cl.errors:
            bad(f"response/{pe.kind}", f"{tag}: {pe}")
        cl.errors.clear()

    def check_abort(tag, fields, codes, mux, kind):
        index, sub, code = fields
        if code not in codes:
            bad(f"abort-code/{kind}", f"{tag}: abort code {code:08x}, acceptable "
                                      f"{sorted(hex(c) for c in codes)}")
        if mux is not None and (index, sub) != mux:
            bad(f"abort-mux/{kind}", f"{tag}: abort carries {index:04x}:{sub:02x}, transfer was "
                                     f"{mux[0]:04x}:{mux[1]:02x}")

    def stores_agree(tag):
        snap = _store_snapshot(rig.node)
        for k, v in m.store.items():
            if k in m.taint:
                continue
            if snap.get(k) != v:
                bad("data-store", f"{tag}: data_store[{k[0]:04x}][{k[1]}] = "
                                  f"{snap.get(k).hex() if k in snap else None} model {v.hex()}")
        for k, v in snap.items():
            if k not in m.store and k not in m.taint:
                bad("data-store-extra", f"{tag}: data_store has {k[0]:04x}:{k[1]:02x}={v.hex()} "
                                        f"which no accepted download wrote")

    for n, op in enumerate(case["ops"]):
        kind = op["op"]
        tag = f"step {n} {kind}"
        wl = len(rig.wlog)
        if kind == "upload":
            index, sub = op["index"], op["sub"]
            tag += f" {index:04x}:{sub:02x}"
            exp = m.expected_read(index, sub)
            m.last_mux = (index, sub)
            m.dl_open = False
            if op.get("stop_after") is not None:
                feats.add("interrupted")
                res = _partial_upload(cl, index, sub, op["stop_after"], op.get("blockinit"))
            elif op.get("blockinit"):
                feats.add("blockinit")
                res = _upload_blockinit(cl, index, sub)
            else:
                res = cl.upload(index, sub)
            frame_checks(tag)
            if res[0] == "partial":
                pass
            elif exp[0] == "skip":
                feats.add("skip:" + exp[1])
            elif exp[0] == "ok":
                if res[0] != "ok":
                    bad("upload/refused", f"{tag}: expected {exp[1][:24].hex()}({len(exp[1])}B), got {res}")
                elif res[1] != exp[1]:
                    bad("upload/bytes", f"{tag}: got {res[1][:24].hex()}({len(res[1])}B) want "
                                        f"{exp[1][:24].hex()}({len(exp[1])}B)")
                if len(exp[1]) > 4:
                    feats.add("segmented")
                if len(exp[1]) == 0:
                    feats.add("empty")
                if m.rcb.get((index, sub)) and m.rcb[(index, sub)]["ret"] is not None:
                    feats.add("callback")
            else:
                if res[0] != "abort":
                    bad("upload/not-refused", f"{tag}: expected abort {sorted(hex(c) for c in exp[1])}, got "
                                              f"{res[0]} {res[1] if res[0] != 'ok' else res[1][:16].hex()}")
                else:
                    check_abort(tag, res[1], exp[1], (index, sub), "read")
                    feats.add("refused-read")
            if len(rig.wlog) != wl:
                bad("write-callback-on-read", f"{tag}: write callback invoked during an upload")
        elif kind == "download":
            index, sub, data, style = op["index"], op["sub"], bytes(op["data"]), op["style"]
            tag += f" {index:04x}:{sub:02x} {len(data)}B {style}"
            exp = m.expected_write(index, sub, data)
            before = _store_snapshot(rig.node)
            m.last_mux = (index, sub)
            if op.get("stop_after") is not None and style.startswith("seg"):
                feats.add("interrupted")
                _partial_download(cl, index, sub, data, style, op["stop_after"])
                m.dl_open = True
                frame_checks(tag)
                if _store_snapshot(rig.node) != before:
                    bad("store-changed-by-unfinished-download", f"{tag}")
                if len(rig.wlog) != wl:
                    bad("write-callback-before-completion", f"{tag}")
                continue
            m.dl_open = False
            res = cl.download(index, sub, data, style)
            frame_checks(tag)
            if style.startswith("seg"):
                feats.add("segmented")
            if exp[0] == "skip":
                feats.add("skip:" + exp[1])
                rig.wlog.clear()
                m.taint.add(m.key(index, sub))
            elif exp[0] == "ok":
                key = m.key(index, sub)
                if res[0] != "ok":
                    bad("download/refused", f"{tag}: a valid download was answered {res}")
                else:
                    m.store[key] = data
                    m.taint.discard(key)
                    new = rig.wlog[wl:]
                    want_od = rig.od[index] if m.kinds[index] == "var" else rig.od[index][sub]
                    if len(new) != 1:
                        bad("write-callback-count", f"{tag}: write callback invoked {len(new)} times")
                    else:
                        ci, cs, cod, cdata = new[0]
                        same_od = cod is want_od or (
                            m.lookup(index, sub)[0].get("synth") and (cod.index, cod.subindex, cod.data_type) ==
                            (index, sub, want_od.data_type))
                        if (ci, cs, cdata) != (index, sub, data) or not same_od:
                            bad("write-callback-args", f"{tag}: callback saw ({ci:04x},{cs},{cdata.hex()},"
                                                       f"{cod!r})")
                    if case.get("two_write_cbs") and (not rig.wlog2 or rig.wlog2[-1] != (index, sub, data)):
                        bad("write-callback-second", f"{tag}: second write callback saw "
                                                     f"{rig.wlog2[-1:] if rig.wlog2 else None}")
                    stores_agree(tag)
            elif (style == "exp_nosize" and res[0] == "ok" and exp[1] == CODES["length"]
                  and len(data) * 8 > rc.NUMERIC[m.lookup(index, sub)[0]["dt"]]):
                # an expedited download that does NOT indicate its size (e=1, s=0) carries "4 bytes of which
                # an unspecified number are data": no payload length is stated, so this is not "a payload
                # of the wrong length". Refusing it (what canopen does) and taking the entry's leading
                # bytes are both conformant; in the latter case exactly those bytes must be stored
                key = m.key(index, sub)
                m.store[key] = data[:rc.NUMERIC[m.lookup(index, sub)[0]["dt"]] // 8]
                m.taint.discard(key)
                feats.add("nosize-narrow-accepted")
                stores_agree(tag)
            else:
                if res[0] != "abort":
                    bad("download/not-refused", f"{tag}: expected abort "
                                                f"{sorted(hex(c) for c in exp[1])}, got {res[0]}")
                else:
                    check_abort(tag, res[1], exp[1], (index, sub), "write")
                    feats.add("refused-write")
                after = _store_snapshot(rig.node)
                if after != before:
                    bad("refused-write-changed-store", f"{tag}: data_store changed by a refused write")
                if len(rig.wlog) != wl:
                    bad("refused-write-callback", f"{tag}: write callback invoked for a refused write")
        elif kind == "junk":
            fr = bytes(op["frame"])
            tag += f" {fr.hex()}"
            feats.add("junk")
            before = _store_snapshot(rig.node)
            is_abort = (fr[0] >> 5) == 4
            resp = rig._send(fr)
            if is_abort:
                if len(resp) > 1:
                    bad("junk/count", f"{tag}: {len(resp)} responses to a client abort")
                m.dl_open = False
            else:
                if len(resp) != 1:
                    bad("junk/count", f"{tag}: {len(resp)} response frames (falls silent or chatters)")
                elif len(resp[0]) != 8:
                    bad("junk/dlc", f"{tag}: response {resp[0].hex()} is not 8 bytes")
                elif (fr[0] >> 5) == 7 or ((fr[0] >> 5) == 6 and len(fr) == 8):
                    r = resp[0]
                    if r[0] != 0x80:
                        bad("junk/unknown-command-not-aborted", f"{tag}: answered {r.hex()}")
                    else:
                        code = struct.unpack_from("<L", r, 4)[0]
                        if code not in CODES["command"]:
                            bad("abort-code/command", f"{tag}: abort code {code:08x}, want 05040001")
                        if (fr[0] >> 5) == 6 and not fr[0] & 1:
                            mux = struct.unpack_from("<HB", fr, 1)
                            if struct.unpack_from("<HB", r, 1) != mux:
                                bad("abort-mux/command", f"{tag}: abort {r.hex()} does not carry the "
                                                         f"requested multiplexer")
                    feats.add("unknown-command")
            frame_checks(tag)
            # what may a conformant-looking junk frame legitimately have changed?
            ccs = fr[0] >> 5
            # initiate-type frames carry the multiplexer the server will use from now on
            # (block upload: 2-bit sub-command, block download: bit 0 only)
            if len(fr) >= 4 and ccs in (1, 2, 5, 6) and not (ccs == 5 and fr[0] & 3) \
                    and not (ccs == 6 and fr[0] & 1):
                m.last_mux = struct.unpack_from("<HB", fr, 1)
                if ccs != 6:
                    m.dl_open = False
            if ccs == 1 and len(fr) >= 4:
                m.taint.add(m.key(*struct.unpack_from("<HB", fr, 1)))
                if not fr[0] & 2:
                    m.dl_open = True
            elif ccs == 0 and (fr[0] & 1) and m.last_mux is not None:
                m.taint.add(m.key(*m.last_mux))
            after = _store_snapshot(rig.node)
            for k in set(before) | set(after):
                # (an object of kind VAR is one entry whatever sub-index the frame names; the library
                #  files the bytes under the sub-index given)
                if before.get(k) != after.get(k) and k not in m.taint and m.key(*k) not in m.taint:
                    bad("junk/changed-store", f"{tag}: entry {k[0]:04x}:{k[1]:02x} changed from "
                                              f"{before.get(k)} to {after.get(k)}")
            for e in rig.wlog[wl:]:
                if m.key(e[0], e[1]) not in m.taint:
                    bad("junk/write-callback", f"{tag}: write callback for {e[0]:04x}:{e[1]:02x}")
        elif kind == "set_access":
            # the application changes the access type of an entry while the node is serving (parameters
            # locked after commissioning, a command object opened for one step ...): public attribute of the
            # dictionary entry; later requests are judged by the access type in force then
            index, sub = op["index"], op["sub"]
            var = rig.od.get_variable(index, sub)
            if var is None or (index, sub) not in m.ent:
                raise ValueError("generator error: set_access on an entry that is not listed")
            var.access_type = op["access"]
            m.ent[(index, sub)] = dict(m.ent[(index, sub)], access=op["access"])
            feats.add("access-changed")
        elif kind == "toggle":
            # a segment with the wrong toggle bit while a transfer is in progress
            t = op["t"]
            if op["dir"] == "up":
                fr = bytes([0x60 | (t << 4)]) + bytes(7)
            else:
                fr = bytes([t << 4]) + b"abcdefg"
            before = _store_snapshot(rig.node)
            r = cl.xfer(fr)
            frame_checks(tag)
            if r is not None and len(r) == 8:
                if r[0] != 0x80:
                    bad("toggle/not-refused", f"{tag}: segment with wrong toggle answered {r.hex()}")
                else:
                    check_abort(tag, cl.abort_fields(r), CODES["toggle"], m.last_mux, "toggle")
                    feats.add("refused-toggle")
            if _store_snapshot(rig.node) != before:
                bad("toggle/changed-store", tag)
            if len(rig.wlog) != wl:
                bad("toggle/write-callback", tag)
        else:
            raise ValueError(kind)
        if D:
            break
    nontrivial = "segmented" in feats and bool(
        feats & {"junk", "interrupted", "empty", "callback", "refused-read", "refused-write"})
    klass = "+".join(sorted(f for f in feats if not f.startswith("skip"))) or "plain"
    return Outcome(nontrivial, klass, D), feats


def _partial_upload(cl, index, sub, nseg, blockinit=False):
    req = struct.pack("<BHB4x", 0x40, index, sub)
    r = cl.xfer(req)
    if r is None or len(r) != 8 or r[0] == 0x80 or (r[0] >> 5) != 2 or r[0] & 2:
        return ("partial", None)
    t = 0
    for _ in range(nseg):
        r = cl.xfer(bytes([0x60 | (t << 4)]) + bytes(7))
        if r is None or len(r) != 8 or r[0] == 0x80 or r[0] & 1:
            break
        t ^= 1
    return ("partial", None)


def _upload_blockinit(cl, index, sub):
    """Block upload initiate; the server may legally answer with a normal
    upload response (protocol switch).  Continue as a normal upload."""
    r = cl.xfer(struct.pack("<BHBBB2x", 0xA4, index, sub, 127, 0))
    if r is None or len(r) != 8:
        return ("error", None)
    if r[0] == 0x80:
        return ("abort", cl.abort_fields(r))
    if (r[0] >> 5) != 2:
        cl._err("scs", f"block upload initiate answered with {r[0]:02x}", r)
        return ("error", None)
    if struct.unpack_from("<HB", r, 1) != (index, sub):
        cl._err("mux", "response for another multiplexer", r)
    e, s, n = (r[0] >> 1) & 1, r[0] & 1, (r[0] >> 2) & 3
    if e:
        size = 4 - n if s else 4
        return ("ok", r[4:4 + size])
    declared = struct.unpack_from("<L", r, 4)[0] if s else None
    buf = bytearray()
    t = 0
    while True:
        r = cl.xfer(bytes([0x60 | (t << 4)]) + bytes(7))
        if r is None or len(r) != 8:
            return ("error", None)
        if r[0] == 0x80:
            return ("abort", cl.abort_fields(r))
        if (r[0] >> 4) & 1 != t:
            cl._err("toggle", "segment toggle", r)
        buf += r[1:8 - ((r[0] >> 1) & 7)]
        t ^= 1
        if r[0] & 1:
            break
        if len(buf) > 70000:
            return ("error", None)
    if declared is not None and declared != len(buf):
        cl._err("size", f"announced {declared}, delivered {len(buf)}")
    return ("ok", bytes(buf))


def _partial_download(cl, index, sub, data, style, nseg):
    if style == "seg_size":
        req = struct.pack("<BHBL", 0x21, index, sub, len(data))
    else:
        req = struct.pack("<BHB4x", 0x20, index, sub)
    r = cl.xfer(req)
    if r is None or len(r) != 8 or r[0] == 0x80:
        return
    t = 0
    pos = 0
    for _ in range(nseg):
        chunk = data[pos:pos + 7]
        pos += len(chunk)
        if pos >= len(data):
            break  # never send the last segment
        r = cl.xfer(bytes([(t << 4) | ((7 - len(chunk)) << 1)]) + chunk.ljust(7, b"\0"))
        if r is None or len(r) != 8 or r[0] == 0x80:
            return
        t ^= 1


def run_case(case) -> Outcome:
    out, _ = run_history(case, "C02")
    return out


# ---- generation ----------------------------------------------------------------
ALL_DTS = [rc.BOOLEAN] + sorted(rc.NUMERIC) + list(rc.STRINGS)
# the four access types the properties name plus CiA 306's "rwr"/"rww" (read-write on process
# input / output): readable and writable like "rw"
ACCESS = ["rw", "ro", "wo", "const", "rw", "rw", "rwr", "rww"]


def typed_value(dt, max_len=60):
    if dt == rc.BOOLEAN:
        return st.booleans()
    if dt in rc.INTEGERS:
        lo, hi = rc.int_range(dt)
        return st.one_of(st.sampled_from([lo, hi, 0, 1, min(hi, 255), max(lo, -1)]), st.integers(lo, hi))
    if dt == rc.REAL32:
        return st.floats(width=32, allow_nan=False)
    if dt == rc.REAL64:
        return st.floats(allow_nan=False)
    if dt == rc.VISIBLE_STRING:
        return st.text(st.characters(min_codepoint=32, max_codepoint=126), max_size=max_len)
    if dt == rc.UNICODE_STRING:
        return st.text(st.characters(min_codepoint=32, max_codepoint=0xFFFF, exclude_categories=["Cs"]),
                       max_size=max_len // 2)
    return st.binary(max_size=max_len)


@st.composite
def var_spec(draw, name, max_len=60, access=None):
    dt = draw(st.sampled_from(ALL_DTS))
    spec = {"name": name, "dt": dt, "access": access or draw(st.sampled_from(ACCESS))}
    src = draw(st.sampled_from(["none", "default", "value", "both", "both", "default"]))
    if src in ("default", "both"):
        spec["default"] = draw(typed_value(dt, max_len))
    if src in ("value", "both"):
        spec["value"] = draw(st.one_of(typed_value(dt, max_len), _falsy(dt)))
    return spec


def _falsy(dt):
    if dt == rc.BOOLEAN:
        return st.just(False)
    if dt in rc.INTEGERS:
        return st.just(0)
    if dt in rc.REALS:
        return st.just(0.0)
    if dt in (rc.VISIBLE_STRING, rc.UNICODE_STRING):
        return st.just("")
    return st.just(b"")


INDEX = st.integers(0x1000, 0xFFFF).filter(lambda i: i != 0x1017 and not 0x1400 <= i <= 0x1BFF)


@st.composite
def od_spec(draw, max_len=60, access=None, min_objs=1, max_objs=8):
    n = draw(st.integers(min_objs, max_objs))
    idxs = sorted(draw(st.sets(INDEX, min_size=n, max_size=n)))
    od = []
    for k, index in enumerate(idxs):
        kind = draw(st.sampled_from(["var", "var", "record", "array"]))
        if kind == "var":
            s = draw(var_spec(f"obj{k}", max_len, access))
            s.update(kind="var", index=index)
            od.append(s)
        else:
            subs = sorted(draw(st.sets(st.integers(1, 254), min_size=1, max_size=4)))
            if kind == "array":
                subs = sorted(set(subs) | {1})
            members = [{"sub": 0, "name": "count", "dt": rc.UNSIGNED8, "access": "ro",
                        "default": len(subs)}]
            for s_ in subs:
                ms = draw(var_spec(f"m{s_}", max_len, access))
                ms["sub"] = s_
                members.append(ms)
            od.append({"kind": kind, "index": index, "name": f"obj{k}", "members": members})
    return od


def data_for(dt, length):
    """Bytes for a download of a given length (content irrelevant to the type)."""
    if length > 1500:
        return st.integers(0, 255).map(lambda salt: bytes(((i * 13 + salt) % 255) + 1 for i in range(length)))
    return st.binary(min_size=length, max_size=length)


def lengths(max_len):
    return st.one_of(st.integers(0, 64), st.sampled_from([0, 1, 3, 4, 5, 7, 8, 13, 14, 15, 21]),
                     st.integers(0, max_len))


@st.composite
def history(draw, max_len, refusal_bias=False, max_ops=14):
    od = draw(od_spec(min(max_len, 80)))
    ent = [(i, s, spec, kind) for i, s, spec, kind in entries(od)]
    listed = list(ent)
    for o in od:
        if o["kind"] == "array":
            have = {m["sub"] for m in o["members"]}
            tmpl = [m for m in o["members"] if m["sub"] == 1][0]
            for sub in sorted(draw(st.sets(st.integers(2, 255).filter(lambda v: v not in have), max_size=2))):
                ent.append((o["index"], sub, {k: v for k, v in tmpl.items() if k != "value"}, "array"))
    case = {"od": od}
    if draw(st.integers(0, 2)) == 0:
        cbs = []
        for (i, s, spec, kind) in draw(st.lists(st.sampled_from(ent), max_size=3, unique_by=lambda e: (e[0], e[1]))):
            how = draw(st.sampled_from(["typed", "bytes", "none"]))
            if how == "typed":
                ret = draw(typed_value(spec["dt"], 40))
            elif how == "bytes":
                ret = draw(st.binary(max_size=30))
            else:
                ret = None
            cbs.append({"index": i, "sub": s, "ret": ret})
        case["read_cb"] = cbs
    if draw(st.integers(0, 4)) == 0:
        case["two_write_cbs"] = True
    case["source"] = draw(st.sampled_from(["code", "code", "eds", "dcf"]))
    used = {o["index"] for o in od}
    ops = []
    for _ in range(draw(st.integers(1, max_ops))):
        choice = draw(st.sampled_from(
            ["upload", "upload", "download", "download", "junk", "stray", "missing", "abort"] +
            (["refuse"] * 4 + ["set_access"] * 2 if refusal_bias else ["set_access"])))
        if choice == "set_access":
            i, s, spec, kind = draw(st.sampled_from(listed))
            ops.append({"op": "set_access", "index": i, "sub": s, "access": draw(st.sampled_from(ACCESS))})
            continue
        if choice in ("upload", "download", "refuse"):
            i, s, spec, kind = draw(st.sampled_from(ent))
            if choice == "upload":
                op = {"op": "upload", "index": i, "sub": s}
                r = draw(st.integers(0, 9))
                if r == 0:
                    op["stop_after"] = draw(st.integers(0, 3))
                elif r == 1:
                    op["blockinit"] = True
            else:
                dt = spec["dt"]
                if dt in rc.NUMERIC and (choice == "download" or draw(st.booleans())):
                    n = rc.NUMERIC[dt] // 8
                    if draw(st.integers(0, 5)) == 0:
                        n = draw(st.integers(0, 9))
                elif dt in rc.NUMERIC:
                    n = draw(st.integers(0, 9))
                else:
                    n = draw(lengths(max_len))
                data = draw(data_for(dt, n))
                styles = ["seg_size", "seg_nosize"]
                if 1 <= n <= 4:
                    styles += ["exp", "exp"]
                if n == 4:
                    styles.append("exp_nosize")
                op = {"op": "download", "index": i, "sub": s, "data": data,
                      "style": draw(st.sampled_from(styles))}
                if op["style"].startswith("seg") and n > 7 and draw(st.integers(0, 9)) == 0:
                    op["stop_after"] = draw(st.integers(0, 2))
            ops.append(op)
        elif choice == "missing":
            if draw(st.booleans()):
                index = draw(st.integers(0, 0xFFFF).filter(lambda v: v not in used))
                sub = draw(st.integers(0, 255))
            else:
                recs = [o for o in od if o["kind"] == "record"]
                if not recs:
                    continue
                o = draw(st.sampled_from(recs))
                have = {m["sub"] for m in o["members"]}
                index, sub = o["index"], draw(st.integers(0, 255).filter(lambda v: v not in have))
            if draw(st.booleans()):
                ops.append({"op": "upload", "index": index, "sub": sub})
            else:
                n = draw(st.integers(0, 12))
                ops.append({"op": "download", "index": index, "sub": sub, "data": draw(st.binary(min_size=n, max_size=n)),
                            "style": "exp" if 1 <= n <= 4 else draw(st.sampled_from(["seg_size", "seg_nosize"]))})
        elif choice == "junk":
            n = draw(st.sampled_from([8, 8, 8, 1, 2, 3, 4, 5, 6, 7]))
            fr = bytearray(draw(st.binary(min_size=n, max_size=n)))
            how = draw(st.integers(0, 4))
            if how == 0:
                fr[0] = 0xE0 | (fr[0] & 0x1F)          # unknown command specifier 7
            elif how == 1 and n == 8:
                i, s, spec, kind = draw(st.sampled_from(ent))
                fr[0] = 0xC0 | (fr[0] & 0x06)          # block download initiate
                struct.pack_into("<HB", fr, 1, i, s)
            ops.append({"op": "junk", "frame": bytes(fr)})
        elif choice == "stray":
            ccs = draw(st.sampled_from([0, 3]))
            cmd = (ccs << 5) | (draw(st.integers(0, 1)) << 4) | draw(st.integers(0, 15))
            if ccs == 3:
                cmd &= 0xF0
            ops.append({"op": "junk", "frame": bytes([cmd]) + draw(st.binary(min_size=7, max_size=7))})
        else:
            code = draw(st.sampled_from([0x05040000, 0x08000000, 0, 0xFFFFFFFF]))
            ops.append({"op": "junk", "frame": struct.pack("<BHBL", 0x80, 0, 0, code)})
    case["ops"] = ops
    return case


def enum_cases():
    """Every value length 0..64 served from each of the four sources and
    downloaded in every style, on a fresh node each."""
    for n in range(0, 65):
        data = bytes(((i * 29 + n) % 255) + 1 for i in range(n))
        for dt in (rc.DOMAIN, rc.OCTET_STRING):
            for src in ("default", "value", "both", "callback", "download"):
                spec = {"kind": "var", "index": 0x2000 + n, "name": "x", "dt": dt, "access": "rw"}
                case = {"od": [spec,
                               {"kind": "record", "index": 0x3000, "name": "r", "members": [
                                   {"sub": 0, "name": "n", "dt": rc.UNSIGNED8, "default": 1},
                                   {"sub": 1, "name": "a", "dt": dt, "access": "rw"}]}]}
                ops = []
                if src == "default":
                    spec["default"] = data
                elif src == "value":
                    spec["value"] = data
                elif src == "both":
                    spec["value"] = data
                    spec["default"] = b"other default"
                elif src == "callback":
                    spec["default"] = b"zz"
                    case["read_cb"] = [{"index": 0x2000 + n, "sub": 0, "ret": data}]
                else:
                    spec["default"] = b"old"
                    styles = ["seg_size", "seg_nosize"] + (["exp"] if 1 <= n <= 4 else []) + \
                             (["exp_nosize"] if n == 4 else [])
                    for k, stl in enumerate(styles):
                        ops.append({"op": "download", "index": 0x2000 + n, "sub": 0,
                                    "data": data if k % 2 == 0 else data[::-1], "style": stl})
                        ops.append({"op": "upload", "index": 0x2000 + n, "sub": 0})
                    ops.append({"op": "download", "index": 0x3000, "sub": 1, "data": data, "style": styles[0]})
                    ops.append({"op": "upload", "index": 0x3000, "sub": 1})
                ops.append({"op": "upload", "index": 0x2000 + n, "sub": 0})
                ops.append({"op": "upload", "index": 0x2000 + n, "sub": 0, "blockinit": True})
                case["ops"] = ops
                yield case


def first_frame_cases():
    """Anything as the very first frame a fresh node sees."""
    od = [{"kind": "var", "index": 0x2000, "name": "x", "dt": rc.DOMAIN, "access": "rw", "default": b"abcdefghij"}]
    for b0 in range(256):
        for tail in (bytes(7), bytes([0x00, 0x20, 0x00, 1, 2, 3, 4]), bytes([0xFF] * 7)):
            yield {"od": od, "ops": [{"op": "junk", "frame": bytes([b0]) + tail},
                                     {"op": "upload", "index": 0x2000, "sub": 0}]}
        for n in range(1, 8):
            yield {"od": od, "ops": [{"op": "junk", "frame": (bytes([b0]) + bytes([0x00, 0x20, 0, 9, 9, 9, 9]))[:n]},
                                     {"op": "upload", "index": 0x2000, "sub": 0}]}


def search(ctx):
    thorough = ctx.tier == "thorough"
    ctx.enumerate(enum_cases(), "every value length 0..64 x value source x download style")
    ctx.enumerate(first_frame_cases(), "every first byte x 1..8 byte frames as the first frame of a fresh node")
    ctx.hypothesis(history(10000 if thorough else 300), 15000 if thorough else 2500)
