"""C09 - saving a PDO configuration follows the safe procedure and reads back identically.

SUT: PdoMap.save/read/subscribe, PdoMaps.__init__, RemoteNode.load_configuration.
Peer: RefSdoServer with a strict CiA 301 PDO-configuration device model behind
it (RefPdoDevice): it stores communication and mapping objects, refuses
exactly what CiA 301 7.5.2.35-38 lets a strict device refuse, and logs every
write.
"""
import struct

from hypothesis import strategies as st

from harness import refcodec as rc
from harness.core import Discrepancy, Outcome
from harness.odutil import build_od
from harness.refsdo import RefSdoServer
from harness.simbus import Hub

PROPERTY = "C09"
LEVEL = "exploration"
RULE = ("case = (RPDO|TPDO, PDO number 1..512, COB-ID over 1..0x7FF and 0x800..0x1FFFFFFF, enabled, RTR "
        "allowed, transmission type 0..255, inhibit / event / SYNC-start each absent-from-dictionary | "
        "present-unset | present-with-value, mapping of 0..8 dictionary objects totalling <= 64 bits, device "
        "pre-state factory-invalid | enabled with another mapping and COB-ID, configuration source: "
        "attributes+add_variable | read(from_od=True) from DCF values / EDS defaults | load_configuration() | "
        "read() from the live device then modified). Oracle: (1) the strict device refused no write, (2) "
        "trace predicate: first write invalidates (sub 1, bit 31), count zeroed before any entry, entries 1..n "
        "in order as index<<16|sub<<8|len, count n after the last entry, validating COB-ID write last and iff "
        "enabled, bit 30 <=> RTR not allowed, (3) device store decodes to the intended configuration, (4) a "
        "fresh RemoteNode on a third network reads the same COB-ID, flags, type, mapping (and inhibit/event/"
        "SYNC start for types 254/255), (5) that node is subscribed to the COB-ID iff enabled. Non-trivial = "
        "pre-state enabled, >= 2 mapped objects, a 29-bit id, or a zero-valued DCF parameter over a non-zero "
        "default; distinct = canonical JSON.")
ASSUMPTIONS = [
    "a strict device accepts invalidate-and-change in one COB-ID write (real strict stacks do)",
    "bit 29 (frame format) of the COB-ID entry is not modelled: canopen strips it on read and never writes it",
    "COB-IDs that collide with the node's own SDO/heartbeat/EMCY/LSS ids are not generated",
]
BUDGET = {"quick": 150, "thorough": 420}
NODE = 4

INVALID = 1 << 31
NO_RTR = 1 << 30


class RefPdoDevice:
    """Strict CiA 301 PDO communication/mapping parameter objects of ONE PDO."""

    def __init__(self, com_index, map_index, subs_present, mappable):
        self.com = com_index
        self.map = map_index
        self.present = set(subs_present)         # optional com subs present on the device: 3, 5, 6
        self.mappable = dict(mappable)           # (index, sub) -> bit length
        self.cob = INVALID | 0x200
        self.type = 255
        self.inhibit = 0
        self.event = 0
        self.sync = 0
        self.count = 0
        self.entries = [0] * 8
        self.log = []        # (index, sub, value, accepted)
        self.refused = []

    def valid(self):
        return not self.cob & INVALID

    def read(self, index, sub):
        if index == self.com:
            if sub == 0:
                return bytes([6])
            if sub == 1:
                return struct.pack("<L", self.cob)
            if sub == 2:
                return bytes([self.type])
            if sub == 3 and 3 in self.present:
                return struct.pack("<H", self.inhibit)
            if sub == 5 and 5 in self.present:
                return struct.pack("<H", self.event)
            if sub == 6 and 6 in self.present:
                return bytes([self.sync])
            return 0x06090011
        if index == self.map:
            if sub == 0:
                return bytes([self.count])
            if 1 <= sub <= 8:
                return struct.pack("<L", self.entries[sub - 1])
            return 0x06090011
        return None

    def write(self, index, sub, data):
        if index not in (self.com, self.map):
            return None
        code = self._write(index, sub, data)
        val = int.from_bytes(data, "little")
        self.log.append((index, sub, val, code is None))
        if code is not None:
            self.refused.append((index, sub, val, code))
            return code
        return "stored"

    def _write(self, index, sub, data):
        val = int.from_bytes(data, "little")
        if index == self.com:
            if sub == 1:
                if len(data) != 4:
                    return 0x06070010
                new_valid = not val & INVALID
                if self.valid() and new_valid and (val & 0x3FFFFFFF) != (self.cob & 0x3FFFFFFF):
                    return 0x06090030      # bits 0..29 must not change while the PDO exists
                self.cob = val
                return None
            if sub == 2:
                if len(data) != 1:
                    return 0x06070010
                self.type = val
                return None
            if sub == 3 and 3 in self.present:
                if len(data) != 2:
                    return 0x06070010
                if self.valid() and val != self.inhibit:
                    return 0x06010000
                self.inhibit = val
                return None
            if sub == 5 and 5 in self.present:
                if len(data) != 2:
                    return 0x06070010
                self.event = val
                return None
            if sub == 6 and 6 in self.present:
                if len(data) != 1:
                    return 0x06070010
                if self.valid() and val != self.sync:
                    return 0x06010000
                self.sync = val
                return None
            if sub == 0:
                return 0x06010002
            return 0x06090011
        # mapping object
        if sub == 0:
            if len(data) != 1:
                return 0x06070010
            if self.valid():
                return 0x06010000          # mapping must not change while the PDO exists
            if val > 8:
                return 0x06040042
            total = 0
            for e in self.entries[:val]:
                key = (e >> 16, (e >> 8) & 0xFF)
                ln = e & 0xFF
                if key not in self.mappable or self.mappable[key] != ln:
                    return 0x06040041
                total += ln
            if total > 64:
                return 0x06040042
            self.count = val
            return None
        if 1 <= sub <= 8:
            if len(data) != 4:
                return 0x06070010
            if self.valid():
                return 0x06010000
            if self.count != 0:
                return 0x06010000          # entries only writable while the count is 0
            self.entries[sub - 1] = val
            return None
        return 0x06090011


def attach_device(srv, dev):
    def rh(index, sub):
        return dev.read(index, sub)

    def wh(index, sub, data):
        r = dev.write(index, sub, data)
        if r is None:
            return None
        if r == "stored":
            return None
        return r

    srv.read_hook = rh
    srv.write_hook = wh


# ---- dictionary for the client -------------------------------------------------
def client_od(case):
    """PDO objects (with optional subs per case) + application objects."""
    cfg = case
    com, mp = com_map_index(cfg)
    members = [{"sub": 0, "name": "n", "dt": rc.UNSIGNED8, "access": "ro"},
               {"sub": 1, "name": "COB-ID", "dt": rc.UNSIGNED32},
               {"sub": 2, "name": "Transmission type", "dt": rc.UNSIGNED8}]
    for sub, name, dt in ((3, "Inhibit time", rc.UNSIGNED16), (5, "Event timer", rc.UNSIGNED16),
                          (6, "SYNC start value", rc.UNSIGNED8)):
        if sub in cfg["dict_subs"]:
            members.append({"sub": sub, "name": name, "dt": dt})
    mapm = [{"sub": 0, "name": "n", "dt": rc.UNSIGNED8}] + \
           [{"sub": s, "name": f"entry {s}", "dt": rc.UNSIGNED32} for s in range(1, 9)]
    od_values = cfg.get("od_values")
    if od_values:
        for m in members + mapm:
            key = ("com" if m in members else "map", m["sub"])
        for (where, sub), pair in od_values.items():
            target = members if where == "com" else mapm
            for m in target:
                if m["sub"] == sub:
                    if pair.get("default") is not None:
                        m["default"] = pair["default"]
                    if pair.get("value") is not None:
                        m["value"] = pair["value"]
    spec = [{"kind": "record", "index": com, "name": "PDO comm", "members": members},
            {"kind": "array", "index": mp, "name": "PDO map", "members": mapm}]
    for o in cfg["app"]:
        if o["kind"] == "var":
            spec.append({"kind": "var", "index": o["index"], "name": o["name"], "dt": o["dt"], "pdo": True})
        else:
            spec.append({"kind": "record", "index": o["index"], "name": o["name"], "members":
                         [{"sub": 0, "name": "n", "dt": rc.UNSIGNED8}] +
                         [{"sub": m["sub"], "name": m["name"], "dt": m["dt"], "pdo": True} for m in o["members"]]})
    return spec


def com_map_index(cfg):
    n = cfg["number"] - 1
    if cfg["dir"] == "rpdo":
        return 0x1400 + n, 0x1600 + n
    return 0x1800 + n, 0x1A00 + n


def _w(o):
    """Mapped bit length of an application object: its type's width, or (strings / DOMAIN, which
    have no width of their own) the length it is mapped with."""
    return o.get("maplen") or rc.width(o["dt"])


def app_entries(cfg):
    out = {}
    for o in cfg["app"]:
        if o["kind"] == "var":
            out[(o["index"], 0)] = _w(o)
        else:
            for m in o["members"]:
                out[(o["index"], m["sub"])] = _w(m)
    return out


def od_key(s):
    where, sub = s.split(":")
    return where, int(sub)


def run_case(case) -> Outcome:
    import canopen
    case = dict(case)
    if case.get("od_values"):
        case["od_values"] = {od_key(k) if isinstance(k, str) else k: v for k, v in case["od_values"].items()}
    com, mp = com_map_index(case)
    hub = Hub()
    srv = RefSdoServer(0x600 + NODE, 0x580 + NODE)
    srv.attach(hub)
    dev = RefPdoDevice(com, mp, case["device_subs"], app_entries(case))
    attach_device(srv, dev)
    pre = case["pre"]
    if pre["enabled"]:
        dev.cob = pre["cob"]
        dev.type = pre["type"]
        dev.entries[:len(pre["entries"])] = pre["entries"]
        dev.count = len(pre["entries"])
    else:
        dev.cob = INVALID | pre["cob"]
    dev.inhibit, dev.event, dev.sync = pre.get("inhibit", 0), pre.get("event", 0), pre.get("sync", 0)

    net, port = hub.attach("master")
    node = canopen.RemoteNode(NODE, build_od(client_od(case)))
    net.add_node(node)
    node.sdo.RESPONSE_TIMEOUT = 0.05
    D = []
    tag = (f"{case['dir']}{case['number']} source {case['source']} pre-enabled {pre['enabled']} "
           f"cfg {case['cfg']}")

    def bad(kind, detail):
        D.append(Discrepancy(f"C09/{kind}", f"{tag}: {detail}"))

    try:
        pmap = (node.rpdo if case["dir"] == "rpdo" else node.tpdo)[case["number"]]
    except Exception as e:
        bad("map-missing", f"the dictionary describes {case['dir'].upper()} {case['number']} but the node object "
                           f"has no such map: {type(e).__name__}: {e}")
        return Outcome(True, "map-missing", D)

    cfg = case["cfg"]
    src = case["source"]
    intended = dict(cfg)
    try:
        if src == "attrs":
            _apply_attrs(pmap, cfg, case)
            dev.log.clear()
            pmap.save()
        elif src == "live_modify":
            pmap.read()
            _apply_attrs(pmap, cfg, case)
            dev.log.clear()
            pmap.save()
        elif src == "from_od":
            pmap.read(from_od=True)
            dev.log.clear()
            pmap.save()
        elif src == "load_configuration":
            dev.log.clear()
            node.load_configuration()
        else:
            raise ValueError(src)
    except Exception as e:
        bad("save-raises", f"{type(e).__name__}: {e}; device refused {dev.refused[:3]}")
        return Outcome(True, f"{src}/raises", D)
    if src in ("from_od", "load_configuration"):
        intended = case["intended"]
    if dev.refused:
        i, s, v, code = dev.refused[0]
        bad("strict-device-refused", f"write {i:04x}:{s:02x}={v:#x} refused with {code:08x}; trace "
                                     f"{[(hex(a), b, hex(c)) for a, b, c, d in dev.log]}")
        return Outcome(True, f"{src}/refused", D)
    # ---- (2) trace predicate ------------------------------------------------
    trace = [(i, s, v) for (i, s, v, ok) in dev.log]
    cob_id = intended["cob_id"]
    flags = 0 if intended["rtr_allowed"] else NO_RTR
    tr = [f"{i:04x}:{s:02x}={v:#x}" for i, s, v in trace]
    if not trace:
        bad("trace/empty", "save wrote nothing")
    else:
        i0, s0, v0 = trace[0]
        if (i0, s0) != (com, 1) or not v0 & INVALID:
            bad("trace/not-invalidated-first", f"first write is {tr[0]}; trace {tr}")
        cobw = [(k, v) for k, (i, s, v) in enumerate(trace) if (i, s) == (com, 1)]
        for k, v in cobw:
            if (v & 0x1FFFFFFF) != cob_id:
                bad("trace/cob-id", f"COB-ID write {v:#x} does not carry id {cob_id:#x}")
            if bool(v & NO_RTR) != (not intended["rtr_allowed"]):
                bad("trace/rtr-bit", f"COB-ID write {v:#x}: bit 30 must be set exactly when RTR is not allowed "
                                     f"(rtr_allowed={intended['rtr_allowed']})")
        maps = [(k, s, v) for k, (i, s, v) in enumerate(trace) if i == mp]
        want_entries = [(e[0] << 16) | (e[1] << 8) | e[2] for e in intended["map"]]
        n = len(want_entries)
        if not maps or maps[0][1] != 0 or maps[0][2] != 0:
            bad("trace/count-not-zeroed-first", f"mapping writes {[(s, hex(v)) for k, s, v in maps]}")
        else:
            body = maps[1:]
            got_entries = [(s, v) for k, s, v in body[:-1]] if body else []
            if not body or body[-1][1] != 0 or body[-1][2] != n:
                bad("trace/count-not-set-last", f"mapping writes {[(s, hex(v)) for k, s, v in maps]}, want "
                                                f"count {n} after the entries")
            elif got_entries != [(k + 1, v) for k, v in enumerate(want_entries)]:
                bad("trace/entries", f"entry writes {[(s, hex(v)) for s, v in got_entries]} want "
                                     f"{[(k + 1, hex(v)) for k, v in enumerate(want_entries)]}")
        validating = [(k, v) for k, v in cobw if not v & INVALID]
        if intended["enabled"]:
            if len(validating) != 1 or validating[0][0] != len(trace) - 1:
                bad("trace/validate-last", f"enabled PDO: validating COB-ID write must be the last write; trace {tr}")
        elif validating:
            bad("trace/validated-although-disabled", f"trace {tr}")
    if D:
        return Outcome(True, f"{src}/trace", D)
    # ---- (3) device store -----------------------------------------------------
    if (dev.cob & 0x1FFFFFFF) != cob_id or bool(dev.cob & INVALID) == intended["enabled"] or \
            bool(dev.cob & NO_RTR) == intended["rtr_allowed"]:
        bad("device/cob", f"device COB-ID entry {dev.cob:#x}")
    if intended.get("trans_type") is not None and dev.type != intended["trans_type"]:
        bad("device/type", f"device type {dev.type} want {intended['trans_type']}")
    for attr, sub, name in ((dev.inhibit, 3, "inhibit_time"), (dev.event, 5, "event_timer"),
                            (dev.sync, 6, "sync_start_value")):
        if intended.get(name) is not None and sub in case["device_subs"] and attr != intended[name]:
            bad(f"device/{name}", f"device holds {attr} want {intended[name]}")
    if dev.count != len(intended["map"]) or dev.entries[:dev.count] != \
            [(e[0] << 16) | (e[1] << 8) | e[2] for e in intended["map"]]:
        bad("device/mapping", f"device mapping {dev.count} {[hex(e) for e in dev.entries[:dev.count]]}")
    # subscription of the saving node
    subs_cb = net.subscribers.get(cob_id, [])
    if (pmap.on_message in subs_cb) != bool(intended["enabled"]) and src != "live_modify":
        bad("subscribe/saving-node", f"saving node subscribed={pmap.on_message in subs_cb}, enabled="
                                     f"{intended['enabled']}")
    if D:
        return Outcome(True, f"{src}/device", D)
    # ---- (4)+(5) read back on a fresh node ---------------------------------------
    net2, port2 = hub.attach("second")
    node2 = canopen.RemoteNode(NODE, build_od(client_od(case)))
    net2.add_node(node2)
    node2.sdo.RESPONSE_TIMEOUT = 0.05
    p2 = (node2.rpdo if case["dir"] == "rpdo" else node2.tpdo)[case["number"]]
    try:
        p2.read()
    except Exception as e:
        bad("readback-raises", f"{type(e).__name__}: {e}")
        return Outcome(True, f"{src}/readback", D)
    if p2.cob_id != cob_id:
        bad("readback/cob_id", f"read {p2.cob_id:#x} want {cob_id:#x}")
    if p2.enabled != intended["enabled"]:
        bad("readback/enabled", f"read {p2.enabled}")
    if p2.rtr_allowed != intended["rtr_allowed"]:
        bad("readback/rtr_allowed", f"read {p2.rtr_allowed} want {intended['rtr_allowed']}")
    tt = intended.get("trans_type")
    if tt is not None and p2.trans_type != tt:
        bad("readback/trans_type", f"read {p2.trans_type} want {tt}")
    got_map = [(v.index, v.subindex, v.length) for v in p2.map]
    if got_map != [tuple(e) for e in intended["map"]]:
        bad("readback/mapping", f"read {got_map} want {intended['map']}")
    if p2.trans_type is not None and p2.trans_type >= 254:
        for name, sub in (("inhibit_time", 3), ("event_timer", 5), ("sync_start_value", 6)):
            if intended.get(name) is not None and sub in case["device_subs"] and sub in case["dict_subs"]:
                if getattr(p2, name) != intended[name]:
                    bad(f"readback/{name}", f"read {getattr(p2, name)} want {intended[name]}")
    subscribed = p2.on_message in net2.subscribers.get(cob_id, [])
    if subscribed != bool(intended["enabled"]):
        bad("readback/subscription", f"fresh node subscribed={subscribed}, enabled={intended['enabled']}")
    nontrivial = pre["enabled"] or len(intended["map"]) >= 2 or cob_id > 0x7FF or case.get("zero_over_default", False)
    return Outcome(nontrivial, f"{src}/{case['dir']}/{'pre-enabled' if pre['enabled'] else 'factory'}/"
                               f"{'29bit' if cob_id > 0x7FF else '11bit'}/map{len(intended['map'])}", D)


def _names(case):
    out = {}
    for o in case["app"]:
        if o["kind"] == "var":
            out[(o["index"], 0)] = (o["name"], None)
        else:
            for m in o["members"]:
                out[(o["index"], m["sub"])] = (o["name"], m["name"])
    return out


def _apply_attrs(pmap, cfg, case=None):
    pmap.cob_id = cfg["cob_id"]
    pmap.enabled = cfg["enabled"]
    pmap.rtr_allowed = cfg["rtr_allowed"]
    pmap.trans_type = cfg.get("trans_type")
    pmap.inhibit_time = cfg.get("inhibit_time")
    pmap.event_timer = cfg.get("event_timer")
    pmap.sync_start_value = cfg.get("sync_start_value")
    pmap.clear()
    names = _names(case) if case else {}
    forms = (case or {}).get("addforms") or []
    explicit = set()
    for o in (case or {}).get("app", []):
        for m in ([o] if o["kind"] == "var" else o["members"]):
            if m.get("maplen"):
                explicit.add((o["index"], m.get("sub", 0)))
    for k, (index, sub, ln) in enumerate(cfg["map"]):
        form = forms[k % len(forms)] if forms else "num"
        if (index, sub) in explicit:
            form = "num_len"        # an object without a width of its own is mapped with an explicit length
        oname, mname = names.get((index, sub), (None, None))
        if form == "num_len":
            pmap.add_variable(index, sub, ln)
        elif form == "dotted" and mname is not None:
            pmap.add_variable(f"{oname}.{mname}")              # qualified name, default sub-index
        elif form == "name" and oname is not None and mname is None:
            pmap.add_variable(oname)
        elif form == "name_member" and mname is not None:
            pmap.add_variable(oname, mname)
        elif form == "index_member" and mname is not None:
            pmap.add_variable(index, mname)
        else:
            pmap.add_variable(index, sub)


# ---- generation ---------------------------------------------------------------------
RESERVED_IDS = {0x7E4, 0x7E5, 0x580 + NODE, 0x600 + NODE, 0x700 + NODE, 0x80 + NODE, 0}
PDO_DTS = sorted(rc.INTEGERS) + [rc.REAL32, rc.REAL64]


@st.composite
def cob_ids(draw):
    return draw(st.one_of(
        st.integers(1, 0x7FF).filter(lambda v: v not in RESERVED_IDS),
        st.sampled_from([0x181, 0x201, 0x7FF, 0x800, 0x1FFFFFFF, 0x10000000, 0x12345]),
        st.integers(0x800, 0x1FFFFFFF)))


@st.composite
def case_strategy(draw):
    direction = draw(st.sampled_from(["rpdo", "tpdo"]))
    number = draw(st.one_of(st.integers(1, 4), st.sampled_from([5, 64, 511, 512]), st.integers(1, 512)))
    # application objects
    napp = draw(st.integers(1, 6))
    idxs = sorted(draw(st.sets(st.integers(0x2000, 0x9FFF), min_size=napp, max_size=napp)))
    app = []
    for k, index in enumerate(idxs):
        if draw(st.integers(0, 5)) == 0:
            # octet / visible strings and DOMAIN are mapped with the length given in the mapping entry
            app.append({"kind": "var", "index": index, "name": f"app{k}",
                        "dt": draw(st.sampled_from([rc.OCTET_STRING, rc.VISIBLE_STRING, rc.DOMAIN])),
                        "maplen": draw(st.sampled_from([8, 16, 24, 32, 40, 64]))})
        elif draw(st.booleans()):
            app.append({"kind": "var", "index": index, "name": f"app{k}", "dt": draw(st.sampled_from(PDO_DTS))})
        else:
            subs = sorted(draw(st.sets(st.integers(1, 254), min_size=1, max_size=3)))
            app.append({"kind": "record", "index": index, "name": f"app{k}", "members":
                        [{"sub": s, "name": f"m{s}", "dt": draw(st.sampled_from(PDO_DTS))} for s in subs]})
    cands = []
    for o in app:
        if o["kind"] == "var":
            cands.append((o["index"], 0, _w(o)))
        else:
            for m in o["members"]:
                cands.append((o["index"], m["sub"], _w(m)))

    def draw_map():
        out, total = [], 0
        for _ in range(draw(st.integers(0, 8))):
            fit = [c for c in cands if total + c[2] <= 64]
            if not fit:
                break
            c = draw(st.sampled_from(fit))
            out.append(list(c))
            total += c[2]
        return out

    dict_subs = sorted(draw(st.sets(st.sampled_from([3, 5, 6]))))
    device_subs = sorted(set(dict_subs) | draw(st.sets(st.sampled_from([3, 5, 6]))))
    if draw(st.booleans()):
        device_subs = sorted(draw(st.sets(st.sampled_from([3, 5, 6]))))
    cfg = {"cob_id": draw(cob_ids()), "enabled": draw(st.booleans()), "rtr_allowed": draw(st.booleans()),
           "trans_type": draw(st.one_of(st.sampled_from([0, 1, 240, 252, 253, 254, 255]), st.integers(0, 255))),
           "map": draw_map()}
    for name, sub, hi in (("inhibit_time", 3, 0xFFFF), ("event_timer", 5, 0xFFFF), ("sync_start_value", 6, 240)):
        if sub in dict_subs and sub in device_subs and draw(st.booleans()):
            cfg[name] = draw(st.one_of(st.just(0), st.integers(0, hi)))
    pre_enabled = draw(st.booleans())
    pre = {"enabled": pre_enabled, "cob": draw(cob_ids()), "type": draw(st.integers(0, 255)),
           "entries": [(e[0] << 16) | (e[1] << 8) | e[2] for e in (draw_map() if pre_enabled else [])],
           "inhibit": draw(st.integers(0, 1000)), "event": draw(st.integers(0, 1000)), "sync": draw(st.integers(0, 9))}
    if pre_enabled and draw(st.booleans()):
        pre["cob"] |= NO_RTR
    source = draw(st.sampled_from(["attrs", "attrs", "live_modify", "from_od", "load_configuration"]))
    case = {"dir": direction, "number": number, "app": app, "dict_subs": dict_subs, "device_subs": device_subs,
            "cfg": cfg, "pre": pre, "source": source,
            "addforms": draw(st.lists(st.sampled_from(["num", "num_len", "dotted", "name", "name_member",
                                                       "index_member"]), min_size=1, max_size=4))}
    if source == "attrs" and draw(st.integers(0, 3)) == 0:
        cfg["trans_type"] = None
    if source in ("from_od", "load_configuration"):
        # the configuration lives in the dictionary: DCF value and/or EDS default per entry
        raw_cob = cfg["cob_id"] | (0 if cfg["enabled"] else INVALID) | (0 if cfg["rtr_allowed"] else NO_RTR)
        want = {("com", 1): raw_cob, ("com", 2): cfg["trans_type"], ("map", 0): len(cfg["map"])}
        for k, e in enumerate(cfg["map"]):
            want[("map", k + 1)] = (e[0] << 16) | (e[1] << 8) | e[2]
        for name, sub in (("inhibit_time", 3), ("event_timer", 5), ("sync_start_value", 6)):
            if sub in dict_subs and sub in device_subs:
                want[("com", sub)] = cfg.get(name, 0) or 0
                if cfg["trans_type"] >= 254:
                    cfg[name] = want[("com", sub)]
                else:
                    cfg.pop(name, None)
            else:
                cfg.pop(name, None)
        odv = {}
        zero_over = False
        for key, v in want.items():
            how = draw(st.sampled_from(["value", "default", "both"]))
            if how == "value":
                odv[f"{key[0]}:{key[1]}"] = {"value": v}
            elif how == "default":
                odv[f"{key[0]}:{key[1]}"] = {"default": v}
            else:
                other = draw(st.integers(1, 200)) if key != ("com", 1) else (v ^ 0x3)
                if key[0] == "map" and key[1] >= 1:
                    other = v   # a different default mapping entry could be unmappable; keep it equal
                odv[f"{key[0]}:{key[1]}"] = {"value": v, "default": other}
                if v == 0 and other:
                    zero_over = True
        case["od_values"] = odv
        case["zero_over_default"] = zero_over
        case["intended"] = dict(cfg)
        # subs present in the dictionary but not on the device cannot be saved
        case["dict_subs"] = sorted(set(dict_subs) & set(device_subs))
    else:
        # canopen writes every optional parameter that is set: they must exist on the device
        for name, sub in (("inhibit_time", 3), ("event_timer", 5), ("sync_start_value", 6)):
            if sub not in device_subs:
                cfg.pop(name, None)
    return case


def search(ctx):
    thorough = ctx.tier == "thorough"
    ctx.hypothesis(case_strategy(), 12000 if thorough else 2000)
