"""C09 - saving a PDO configuration follows the safe procedure and reads back identically.

SUT: PdoMap.save/read/subscribe, PdoMaps.__init__, RemoteNode.load_configuration.
Peer: RefSdoServer with a strict CiA 301 PDO-configuration device model behind
it (RefPdoDevice): it stores communication and mapping objects, refuses
exactly what CiA 301 7.5.2.35-38 lets a strict device refuse, and logs every
write.
"""
import struct

from hypothesis import strategies as st

from harness import refcodec as rc
from harness.core import Discrepancy, Outcome
from harness.odutil import build_od
from harness.refsdo import RefSdoServer
from harness.simbus import Hub

PROPERTY = "C09"
LEVEL = "exploration"
RULE = ("case = ONE dictionary with application objects (VAR, RECORD members, ARRAY elements - declared ones and "
        "elements beyond the declared sub-indices that the dictionary serves from element 1, strings/DOMAIN with "
        "an explicit length) and 1..4 (thorough: ..6) PDOs, each = (RPDO|TPDO, PDO number 1..512, COB-ID over "
        "1..0x7FF and 0x800..0x1FFFFFFF, enabled, RTR allowed, transmission type 0..255, inhibit / event / "
        "SYNC-start each absent-from-dictionary | present-unset | present-with-value, mapping of 0..8 dictionary "
        "objects totalling <= 64 bits, own strict device model with pre-state factory-invalid | enabled with "
        "another mapping and COB-ID). Dictionaries with several PDOs: the same number in both directions, several "
        "numbers of one direction, free mixes, some enabled and some not, distinct COB-IDs. Configuration source: "
        "attributes+add_variable (object/member by number, name, dotted name, name+number) | read(from_od=True) "
        "from DCF values / EDS defaults (once or twice) | load_configuration() | read() from the live device then "
        "every attribute overwritten | read() from the live device (once or twice) then a subset of the attributes "
        "(possibly none) changed. Routes for read(from_od)/read()/save()/read-back: each PdoMap | node.pdo | "
        "node.rpdo+node.tpdo in either order. Small directed families (several PDOs x source x route; ARRAY "
        "elements x source x add_variable form) are enumerated, the rest is Hypothesis-driven. Oracle, per PDO of "
        "the dictionary: (1) the strict device refused no write, (2) trace predicate on the writes its objects "
        "received: not empty, first write invalidates (sub 1, bit 31), count zeroed before any entry, only entry "
        "writes between the zeroing and the final count, every entry 1..n ends up as index<<16|sub<<8|len "
        "(order and repetition free, entries above n only written as 0), count n after the last entry (for an "
        "empty mapping the zeroing write may be the only count write), validating COB-ID write last and iff "
        "enabled, every COB-ID write carries the id and bit 30 <=> RTR not allowed, (3) device store decodes to the "
        "intended configuration (for the live-device source: the CiA 301 decoding of the pre-state plus the "
        "changes), (4) a fresh RemoteNode on a third network reads the same COB-ID, flags, type, mapping (and "
        "inhibit/event/SYNC start for types 254/255), (5) that node is subscribed to the COB-ID iff enabled. "
        "Bit lengths: an object may be mapped with FEWER bits than it has (add_variable(index, sub, length); DCF "
        "mapping words; a device pre-state whose mapping holds shorter entries) - the length is part of the "
        "configuration, the device model accepts exactly the shorter lengths the case itself uses. Histories: for "
        "the sources attrs / live-then-overwritten / live-then-changed the SAME node object may first be given "
        "1..2 (thorough: ..3; directed family ..3) earlier complete configurations (preferring the objects the last "
        "one or the device pre-state maps, with other bit lengths; same or another COB-ID), each saved through some "
        "route or only configured; every save of the history is judged by (1)-(3) against the configuration set "
        "right before it, the last one by (1)-(5); 'taken from the live device' then means the CiA 301 decoding of "
        "what the reference device holds when read() starts. Directed family: same objects re-mapped with other "
        "lengths (shorter->full, full->shorter, 3..4 steps, ARRAY elements beyond the declared ones) x source x "
        "saved/unsaved, and devices that start with shorter entries, read and re-mapped. "
        "Writes of different PDOs may interleave freely. Non-trivial = several PDOs, pre-state enabled, >= 2 "
        "mapped objects, an ARRAY element mapped, a 29-bit id, an earlier configuration of the same node object, "
        "or a zero-valued DCF parameter over a non-zero default; distinct = canonical JSON.")
ASSUMPTIONS = [
    "a strict device accepts invalidate-and-change in one COB-ID write (real strict stacks do)",
    "bit 29 (frame format) of the COB-ID entry is not modelled: canopen strips it on read and never writes it",
    "COB-IDs that collide with the node's own SDO/heartbeat/EMCY/LSS ids are not generated",
    "every PDO the dictionary declares has a configuration (a PdoMap whose COB-ID was never set is not saved) "
    "and the PDOs of one dictionary have pairwise different COB-IDs",
    "an ARRAY element beyond the declared sub-indices is a dictionary object (ODArray serves it from element 1, "
    "as for a CompactSubObj EDS); such elements are addressed by number only",
    "after read() from the live device, and from the second configuration of a history on, the saving node's own "
    "subscription is not judged (it is subscribed to the previous COB-IDs as well); the fresh node's always is",
    "a strict device lets an object be mapped with fewer bits than it has when the application asks for that "
    "(add_variable's length argument); only lengths the case uses are accepted, any other length is refused",
    "optional parameters (inhibit / event / SYNC start) an earlier configuration of the history set and the last "
    "one leaves unset are not judged (the statement does not say whether they are kept or dropped)",
    "lost frames / SDO time-outs during save() or read() are outside the quantifier of this property (inputs, "
    "histories, configurations; no faults) and are not generated",
]
BUDGET = {"quick": 150, "thorough": 420}
NODE = 4

INVALID = 1 << 31
NO_RTR = 1 << 30


class RefPdoDevice:
    """Strict CiA 301 PDO communication/mapping parameter objects of ONE PDO."""

    def __init__(self, com_index, map_index, subs_present, mappable, partial_ok=()):
        self.com = com_index
        self.map = map_index
        self.present = set(subs_present)         # optional com subs present on the device: 3, 5, 6
        self.mappable = dict(mappable)           # (index, sub) -> bit length
        # (index, sub, bits) with fewer bits than the object has, which this device lets be mapped
        self.partial_ok = {tuple(e) for e in partial_ok}
        self.cob = INVALID | 0x200
        self.type = 255
        self.inhibit = 0
        self.event = 0
        self.sync = 0
        self.count = 0
        self.entries = [0] * 8
        self.log = []        # (index, sub, value, accepted)
        self.refused = []

    def valid(self):
        return not self.cob & INVALID

    def read(self, index, sub):
        if index == self.com:
            if sub == 0:
                return bytes([6])
            if sub == 1:
                return struct.pack("<L", self.cob)
            if sub == 2:
                return bytes([self.type])
            if sub == 3 and 3 in self.present:
                return struct.pack("<H", self.inhibit)
            if sub == 5 and 5 in self.present:
                return struct.pack("<H", self.event)
            if sub == 6 and 6 in self.present:
                return bytes([self.sync])
            return 0x06090011
        if index == self.map:
            if sub == 0:
                return bytes([self.count])
            if 1 <= sub <= 8:
                return struct.pack("<L", self.entries[sub - 1])
            return 0x06090011
        return None

    def write(self, index, sub, data):
        if index not in (self.com, self.map):
            return None
        code = self._write(index, sub, data)
        val = int.from_bytes(data, "little")
        self.log.append((index, sub, val, code is None))
        if code is not None:
            self.refused.append((index, sub, val, code))
            return code
        return "stored"

    def _write(self, index, sub, data):
        val = int.from_bytes(data, "little")
        if index == self.com:
            if sub == 1:
                if len(data) != 4:
                    return 0x06070010
                new_valid = not val & INVALID
                if self.valid() and new_valid and (val & 0x3FFFFFFF) != (self.cob & 0x3FFFFFFF):
                    return 0x06090030      # bits 0..29 must not change while the PDO exists
                self.cob = val
                return None
            if sub == 2:
                if len(data) != 1:
                    return 0x06070010
                self.type = val
                return None
            if sub == 3 and 3 in self.present:
                if len(data) != 2:
                    return 0x06070010
                if self.valid() and val != self.inhibit:
                    return 0x06010000
                self.inhibit = val
                return None
            if sub == 5 and 5 in self.present:
                if len(data) != 2:
                    return 0x06070010
                self.event = val
                return None
            if sub == 6 and 6 in self.present:
                if len(data) != 1:
                    return 0x06070010
                if self.valid() and val != self.sync:
                    return 0x06010000
                self.sync = val
                return None
            if sub == 0:
                return 0x06010002
            return 0x06090011
        # mapping object
        if sub == 0:
            if len(data) != 1:
                return 0x06070010
            if self.valid():
                return 0x06010000          # mapping must not change while the PDO exists
            if val > 8:
                return 0x06040042
            total = 0
            for e in self.entries[:val]:
                key = (e >> 16, (e >> 8) & 0xFF)
                ln = e & 0xFF
                if key not in self.mappable or (self.mappable[key] != ln and
                                                key + (ln,) not in self.partial_ok):
                    return 0x06040041
                total += ln
            if total > 64:
                return 0x06040042
            self.count = val
            return None
        if 1 <= sub <= 8:
            if len(data) != 4:
                return 0x06070010
            if self.valid():
                return 0x06010000
            if self.count != 0:
                return 0x06010000          # entries only writable while the count is 0
            self.entries[sub - 1] = val
            return None
        return 0x06090011


def attach_devices(srv, devs):
    """One SDO server in front of several PDOs: every PDO has its own strict device model."""
    by_index = {}
    for dev in devs:
        by_index[dev.com] = dev
        by_index[dev.map] = dev

    def rh(index, sub):
        dev = by_index.get(index)
        return None if dev is None else dev.read(index, sub)

    def wh(index, sub, data):
        dev = by_index.get(index)
        if dev is None:
            return None
        r = dev.write(index, sub, data)
        if r is None or r == "stored":
            return None
        return r

    srv.read_hook = rh
    srv.write_hook = wh


def attach_device(srv, dev):
    attach_devices(srv, [dev])


# ---- case layout -----------------------------------------------------------------
# A case describes ONE dictionary (application objects + the PDOs it declares), one configuration
# source and the API routes.  Single-PDO cases are flat (the PDO's keys sit in the case itself);
# cases with several PDOs carry them in case["pdos"].
PKEYS = ("dir", "number", "dict_subs", "device_subs", "cfg", "pre", "od_values", "zero_over_default",
         "intended", "changes", "prior")
HISTORY_SOURCES = ("attrs", "live_modify", "live_keep")
OPT = (("inhibit_time", 3, 0xFFFF), ("event_timer", 5, 0xFFFF), ("sync_start_value", 6, 240))
ROUTES = ("each", "pdo", "rpdo_tpdo", "tpdo_rpdo")


def od_key(s):
    where, sub = s.split(":")
    return where, int(sub)


def _normalise(case):
    case = dict(case)
    if "pdos" in case:
        pdos = [dict(p) for p in case["pdos"]]
    else:
        pdos = [{k: case[k] for k in PKEYS if k in case}]
    for p in pdos:
        if p.get("od_values"):
            p["od_values"] = {od_key(k) if isinstance(k, str) else k: v for k, v in p["od_values"].items()}
    case["pdos"] = pdos
    return case


# ---- dictionary for the client -------------------------------------------------
def pdo_objects(p):
    """Communication record and mapping array of one PDO (optional subs per case, DCF values / defaults)."""
    com, mp = com_map_index(p)
    members = [{"sub": 0, "name": "n", "dt": rc.UNSIGNED8, "access": "ro"},
               {"sub": 1, "name": "COB-ID", "dt": rc.UNSIGNED32},
               {"sub": 2, "name": "Transmission type", "dt": rc.UNSIGNED8}]
    for sub, name, dt in ((3, "Inhibit time", rc.UNSIGNED16), (5, "Event timer", rc.UNSIGNED16),
                          (6, "SYNC start value", rc.UNSIGNED8)):
        if sub in p["dict_subs"]:
            members.append({"sub": sub, "name": name, "dt": dt})
    mapm = [{"sub": 0, "name": "n", "dt": rc.UNSIGNED8}] + \
           [{"sub": s, "name": f"entry {s}", "dt": rc.UNSIGNED32} for s in range(1, 9)]
    for (where, sub), pair in (p.get("od_values") or {}).items():
        target = members if where == "com" else mapm
        for m in target:
            if m["sub"] == sub:
                if pair.get("default") is not None:
                    m["default"] = pair["default"]
                if pair.get("value") is not None:
                    m["value"] = pair["value"]
    return [{"kind": "record", "index": com, "name": f"PDO comm {com:04x}", "members": members},
            {"kind": "array", "index": mp, "name": f"PDO map {mp:04x}", "members": mapm}]


def client_od(case):
    """PDO objects of every PDO of the case + application objects (VAR, RECORD, ARRAY)."""
    case = _normalise(case)
    spec = []
    for p in case["pdos"]:
        spec.extend(pdo_objects(p))
    for o in case["app"]:
        if o["kind"] == "var":
            spec.append({"kind": "var", "index": o["index"], "name": o["name"], "dt": o["dt"], "pdo": True})
        elif o["kind"] == "array":
            # an ARRAY declares sub 0 and the first `declared` elements only (as a CompactSubObj EDS does);
            # the dictionary serves every further element from the first one
            spec.append({"kind": "array", "index": o["index"], "name": o["name"], "members":
                         [{"sub": 0, "name": "n", "dt": rc.UNSIGNED8}] +
                         [{"sub": s, "name": f"m{s}", "dt": o["dt"], "pdo": True}
                          for s in range(1, o["declared"] + 1)]})
        else:
            spec.append({"kind": "record", "index": o["index"], "name": o["name"], "members":
                         [{"sub": 0, "name": "n", "dt": rc.UNSIGNED8}] +
                         [{"sub": m["sub"], "name": m["name"], "dt": m["dt"], "pdo": True} for m in o["members"]]})
    return spec


def com_map_index(cfg):
    n = cfg["number"] - 1
    if cfg["dir"] == "rpdo":
        return 0x1400 + n, 0x1600 + n
    return 0x1800 + n, 0x1A00 + n


def _w(o):
    """Mapped bit length of an application object: its type's width, or (strings / DOMAIN, which
    have no width of their own) the length it is mapped with."""
    return o.get("maplen") or rc.width(o["dt"])


def app_entries(cfg):
    out = {}
    for o in cfg["app"]:
        if o["kind"] == "var":
            out[(o["index"], 0)] = _w(o)
        else:
            for m in o["members"]:
                out[(o["index"], m["sub"])] = _w(m)
    return out


def _word(e):
    return (e[0] << 16) | (e[1] << 8) | e[2]


def decode_pre(p):
    """The configuration a device in the pre-state of `p` holds, decoded per CiA 301 (what a save of
    'the configuration taken from the live device' has to write back)."""
    pre = p["pre"]
    if pre["enabled"]:
        cob, ttype, entries = pre["cob"], pre["type"], pre["entries"]
    else:
        cob, ttype, entries = INVALID | pre["cob"], 255, []
    out = {"cob_id": cob & 0x1FFFFFFF, "enabled": not cob & INVALID, "rtr_allowed": not cob & NO_RTR,
           "trans_type": ttype, "map": [[e >> 16, (e >> 8) & 0xFF, e & 0xFF] for e in entries]}
    if ttype >= 254:
        for (name, sub, hi), short in zip(OPT, ("inhibit", "event", "sync")):
            if sub in p["dict_subs"] and sub in p["device_subs"]:
                out[name] = pre.get(short, 0)
    return out


def decode_dev(p, dev):
    """The configuration the reference device holds right now, decoded per CiA 301 (used for 'the
    configuration taken from the live device' when earlier saves of the history changed the device)."""
    out = {"cob_id": dev.cob & 0x1FFFFFFF, "enabled": not dev.cob & INVALID, "rtr_allowed": not dev.cob & NO_RTR,
           "trans_type": dev.type,
           "map": [[e >> 16, (e >> 8) & 0xFF, e & 0xFF] for e in dev.entries[:dev.count]]}
    if dev.type >= 254:
        for (name, sub, hi), val in zip(OPT, (dev.inhibit, dev.event, dev.sync)):
            if sub in p["dict_subs"] and sub in p["device_subs"]:
                out[name] = val
    return out


def partial_entries(case):
    """Every (index, sub, bits) of the (normalised) case that maps FEWER bits than the object has."""
    natural = app_entries(case)
    out = set()
    for p in case["pdos"]:
        maps = [p["cfg"]["map"]] + [c["map"] for c in p.get("prior") or []]
        maps.append([[e >> 16, (e >> 8) & 0xFF, e & 0xFF] for e in p["pre"].get("entries") or []])
        if p.get("intended"):
            maps.append(p["intended"]["map"])
        for m in maps:
            for index, sub, ln in m:
                if (index, sub) in natural and 0 < ln < natural[(index, sub)]:
                    out.add((index, sub, ln))
    return out


def _hx(v):
    return "None" if v is None else f"{v:#x}"


def _via(node, pmaps, route, method, **kw):
    """Call read()/save() on the PDOs of `node` through one of the public routes."""
    if route == "each":
        for pm in pmaps:
            getattr(pm, method)(**kw)
    elif route == "pdo":
        getattr(node.pdo, method)(**kw)
    elif route == "rpdo_tpdo":
        getattr(node.rpdo, method)(**kw)
        getattr(node.tpdo, method)(**kw)
    elif route == "tpdo_rpdo":
        getattr(node.tpdo, method)(**kw)
        getattr(node.rpdo, method)(**kw)
    else:
        raise ValueError(route)


def run_case(case) -> Outcome:
    import canopen
    case = _normalise(case)
    pdos = case["pdos"]
    multi = len(pdos) > 1
    src = case["source"]
    cfg_route = case.get("cfg_route", "each")
    save_route = case.get("save_route", "each")
    read_route = case.get("read_route", "each")
    hub = Hub()
    srv = RefSdoServer(0x600 + NODE, 0x580 + NODE)
    srv.attach(hub)
    mappable = app_entries(case)
    partial = partial_entries(case)
    nprior = max(len(p.get("prior") or []) for p in pdos) if src in HISTORY_SOURCES else 0
    devs = []
    for p in pdos:
        com, mp = com_map_index(p)
        dev = RefPdoDevice(com, mp, p["device_subs"], mappable, partial)
        pre = p["pre"]
        if pre["enabled"]:
            dev.cob = pre["cob"]
            dev.type = pre["type"]
            dev.entries[:len(pre["entries"])] = pre["entries"]
            dev.count = len(pre["entries"])
        else:
            dev.cob = INVALID | pre["cob"]
        dev.inhibit, dev.event, dev.sync = pre.get("inhibit", 0), pre.get("event", 0), pre.get("sync", 0)
        devs.append(dev)
    attach_devices(srv, devs)

    net, port = hub.attach("master")
    node = canopen.RemoteNode(NODE, build_od(client_od(case)))
    net.add_node(node)
    node.sdo.RESPONSE_TIMEOUT = 0.05
    D = []

    def label(p):
        return f"{p['dir']}{p['number']}"

    if multi:
        head = (f"{len(pdos)} PDOs [{' '.join(label(p) for p in pdos)}] source {src} routes "
                f"{cfg_route}/{save_route}/{read_route}")
    else:
        head = ""

    step = [""]          # which save of the history is being judged, for the report only

    def tag(p):
        return (f"{head + ': ' if head else ''}{label(p)} source {src} pre-enabled {p['pre']['enabled']} "
                f"{step[0]}cfg {p['cfg']}" + (f" changes {p.get('changes')} reads {case.get('reads', 1)}"
                                               if src == "live_keep" else "") +
                (f" earlier configurations of the same node object {p.get('prior')} saved "
                 f"{case.get('prior_saved')}" if nprior else ""))

    def bad(p, kind, detail):
        D.append(Discrepancy(f"C09/{kind}", f"{tag(p)}: {detail}"))

    pmaps = []
    for p in pdos:
        try:
            pmaps.append((node.rpdo if p["dir"] == "rpdo" else node.tpdo)[p["number"]])
        except Exception as e:
            bad(p, "map-missing", f"the dictionary describes {p['dir'].upper()} {p['number']} but the node object "
                                  f"has no such map: {type(e).__name__}: {e}")
            return Outcome(True, "map-missing", D)

    def clear_logs():
        for dev in devs:
            dev.log.clear()

    cur = [None]         # the PDO being configured, for the report only

    def each_pdo():
        for p, pm in zip(pdos, pmaps):
            cur[0] = p
            yield p, pm
        cur[0] = None

    def judge_save(intended, saving_node_fresh):
        """Oracles (1)-(3) on what ONE save did to the devices; True when something was found."""
        # ---- (1) nothing refused ---------------------------------------------------
        for p, dev in zip(pdos, devs):
            if dev.refused:
                i, s, v, code = dev.refused[0]
                bad(p, "strict-device-refused", f"write {i:04x}:{s:02x}={v:#x} refused with {code:08x}; trace "
                                                f"{[(hex(a), b, hex(c)) for a, b, c, d in dev.log]}")
                return "refused"
        # ---- (2) trace predicate, per PDO -------------------------------------------
        for p, dev, want in zip(pdos, devs, intended):
            _check_trace(p, dev, want, lambda kind, detail, p=p: bad(p, kind, detail))
            if D:
                return "trace"
        # ---- (3) device store -----------------------------------------------------
        for p, dev, want, pmap in zip(pdos, devs, intended, pmaps):
            cob_id = want["cob_id"]
            if (dev.cob & 0x1FFFFFFF) != cob_id or bool(dev.cob & INVALID) == want["enabled"] or \
                    bool(dev.cob & NO_RTR) == want["rtr_allowed"]:
                bad(p, "device/cob", f"device COB-ID entry {dev.cob:#x}")
            if want.get("trans_type") is not None and dev.type != want["trans_type"]:
                bad(p, "device/type", f"device type {dev.type} want {want['trans_type']}")
            for attr, sub, name in ((dev.inhibit, 3, "inhibit_time"), (dev.event, 5, "event_timer"),
                                    (dev.sync, 6, "sync_start_value")):
                if want.get(name) is not None and sub in p["device_subs"] and attr != want[name]:
                    bad(p, f"device/{name}", f"device holds {attr} want {want[name]}")
            if dev.count != len(want["map"]) or dev.entries[:dev.count] != [_word(e) for e in want["map"]]:
                bad(p, "device/mapping", f"device mapping {dev.count} {[hex(e) for e in dev.entries[:dev.count]]} "
                                         f"want {[hex(_word(e)) for e in want['map']]}")
            # subscription of the saving node: only for a node object that has never been configured, read
            # or saved before (afterwards it is subscribed to its previous COB-IDs as well)
            subs_cb = net.subscribers.get(cob_id, [])
            if saving_node_fresh and (pmap.on_message in subs_cb) != bool(want["enabled"]):
                bad(p, "subscribe/saving-node", f"saving node subscribed={pmap.on_message in subs_cb}, enabled="
                                                f"{want['enabled']}")
            if D:
                return "device"
        return None

    # ---- history: earlier configurations of the SAME node object (each saved, or only configured) ----
    saved_flags = case.get("prior_saved") or []
    for r in range(nprior):
        saved = saved_flags[r] if r < len(saved_flags) else True
        step[0] = f"[earlier configuration {r + 1} of {nprior}{'' if saved else ' (not saved)'}] "
        try:
            for p, pm in each_pdo():
                _apply_attrs(pm, p["prior"][r], case)
            if saved:
                clear_logs()
                _via(node, pmaps, case.get("prior_route", "each"), "save")
        except Exception as e:
            refused = [x for dev in devs for x in dev.refused][:3]
            culprit = cur[0] or next((p for p, dev in zip(pdos, devs) if dev.refused), pdos[0])
            bad(culprit, "save-raises", f"{type(e).__name__}: {e}; device refused {refused}")
            return Outcome(True, f"{src}/history/raises", D)
        if saved:
            found = judge_save([dict(p["prior"][r]) for p in pdos], r == 0)
            if found:
                return Outcome(True, f"{src}/history/{found}", D)
    step[0] = "[last configuration of the history] " if nprior else ""
    live_before = [decode_dev(p, dev) if nprior else decode_pre(p) for p, dev in zip(pdos, devs)]

    try:
        if src == "attrs":
            for p, pm in each_pdo():
                _apply_attrs(pm, p["cfg"], case)
            clear_logs()
            _via(node, pmaps, save_route, "save")
        elif src == "live_modify":
            _via(node, pmaps, cfg_route, "read")
            for p, pm in each_pdo():
                _apply_attrs(pm, p["cfg"], case)
            clear_logs()
            _via(node, pmaps, save_route, "save")
        elif src == "live_keep":
            # the configuration is the one the live device holds (read once or repeatedly), with some
            # attributes changed afterwards
            for _ in range(case.get("reads", 1)):
                _via(node, pmaps, cfg_route, "read")
            for p, pm in each_pdo():
                _apply_changes(pm, p, case)
            clear_logs()
            _via(node, pmaps, save_route, "save")
        elif src == "from_od":
            for _ in range(case.get("reads", 1)):
                _via(node, pmaps, cfg_route, "read", from_od=True)
            clear_logs()
            _via(node, pmaps, save_route, "save")
        elif src == "load_configuration":
            clear_logs()
            node.load_configuration()
        else:
            raise ValueError(src)
    except Exception as e:
        refused = [r for dev in devs for r in dev.refused][:3]
        culprit = cur[0] or next((p for p, dev in zip(pdos, devs) if dev.refused), pdos[0])
        bad(culprit, "save-raises", f"{type(e).__name__}: {e}; device refused {refused}")
        return Outcome(True, f"{src}/raises", D)

    intended = []
    for p, live in zip(pdos, live_before):
        if src in ("from_od", "load_configuration"):
            intended.append(p["intended"])
        elif src == "live_keep":
            want = live
            for key in p.get("changes") or []:
                if p["cfg"].get(key) is not None:
                    want[key] = p["cfg"][key]
            intended.append(want)
        else:
            intended.append(dict(p["cfg"]))

    found = judge_save(intended, src not in ("live_modify", "live_keep") and not nprior)
    if found:
        return Outcome(True, f"{src}/{found}", D)
    # ---- (4)+(5) read back on a fresh node ---------------------------------------
    net2, port2 = hub.attach("second")
    node2 = canopen.RemoteNode(NODE, build_od(client_od(case)))
    net2.add_node(node2)
    node2.sdo.RESPONSE_TIMEOUT = 0.05
    try:
        p2s = [(node2.rpdo if p["dir"] == "rpdo" else node2.tpdo)[p["number"]] for p in pdos]
        _via(node2, p2s, read_route, "read")
    except Exception as e:
        bad(pdos[0], "readback-raises", f"{type(e).__name__}: {e}")
        return Outcome(True, f"{src}/readback", D)
    for p, want, p2 in zip(pdos, intended, p2s):
        cob_id = want["cob_id"]
        if p2.cob_id != cob_id:
            bad(p, "readback/cob_id", f"read {_hx(p2.cob_id)} want {cob_id:#x}")
        if p2.enabled != want["enabled"]:
            bad(p, "readback/enabled", f"read {p2.enabled}")
        if p2.rtr_allowed != want["rtr_allowed"]:
            bad(p, "readback/rtr_allowed", f"read {p2.rtr_allowed} want {want['rtr_allowed']}")
        tt = want.get("trans_type")
        if tt is not None and p2.trans_type != tt:
            bad(p, "readback/trans_type", f"read {p2.trans_type} want {tt}")
        got_map = [(v.index, v.subindex, v.length) for v in p2.map]
        if got_map != [tuple(e) for e in want["map"]]:
            bad(p, "readback/mapping", f"read {got_map} want {want['map']}")
        if p2.trans_type is not None and p2.trans_type >= 254:
            for name, sub in (("inhibit_time", 3), ("event_timer", 5), ("sync_start_value", 6)):
                if want.get(name) is not None and sub in p["device_subs"] and sub in p["dict_subs"]:
                    if getattr(p2, name) != want[name]:
                        bad(p, f"readback/{name}", f"read {getattr(p2, name)} want {want[name]}")
        subscribed = p2.on_message in net2.subscribers.get(cob_id, [])
        if subscribed != bool(want["enabled"]):
            bad(p, "readback/subscription", f"fresh node subscribed={subscribed}, enabled={want['enabled']}")
        if D:
            break
    array_mapped = _maps_array_member(case, intended)
    hist = ""
    if nprior:
        hist = f"/history{nprior + 1}" + ("" if all((case.get("prior_saved") or [True] * nprior)[:nprior])
                                          else "-some-unsaved")
    if partial:
        hist += "/partial-length"
    if multi:
        dirs = {p["dir"] for p in pdos}
        both = {p["number"] for p in pdos if p["dir"] == "rpdo"} & {p["number"] for p in pdos if p["dir"] == "tpdo"}
        shape = "same-number" if both else ("both-directions" if len(dirs) == 2 else f"{pdos[0]['dir']}-only")
        nen = sum(1 for w in intended if w["enabled"])
        return Outcome(True, f"multi/{src}/{shape}/{'all' if nen == len(pdos) else 'some' if nen else 'none'}-enabled"
                             f"{'/array-' + array_mapped if array_mapped else ''}{hist}", D)
    p, want = pdos[0], intended[0]
    pre = p["pre"]
    nontrivial = pre["enabled"] or len(want["map"]) >= 2 or want["cob_id"] > 0x7FF or \
        p.get("zero_over_default", False) or array_mapped or bool(nprior)
    extra = ""
    if src == "live_keep":
        extra = f"/reads{case.get('reads', 1)}/{'changed' if p.get('changes') else 'unchanged'}"
    elif src == "from_od" and case.get("reads", 1) > 1:
        extra = f"/reads{case['reads']}"
    return Outcome(nontrivial, f"{src}/{p['dir']}/{'pre-enabled' if pre['enabled'] else 'factory'}/"
                               f"{'29bit' if want['cob_id'] > 0x7FF else '11bit'}/map{len(want['map'])}"
                               f"{'/array-' + array_mapped if array_mapped else ''}{extra}{hist}", D)


def _maps_array_member(case, intended):
    arrays = {o["index"]: o["declared"] for o in case["app"] if o["kind"] == "array"}
    kinds = set()
    for want in intended:
        for e in want["map"]:
            if e[0] in arrays:
                kinds.add("beyond" if e[1] > arrays[e[0]] else "declared")
    return "+".join(sorted(kinds))


def _check_trace(p, dev, intended, bad):
    """Oracle (2), straight from the property text, on the writes ONE PDO's objects received."""
    com, mp = com_map_index(p)
    trace = [(i, s, v) for (i, s, v, ok) in dev.log]
    cob_id = intended["cob_id"]
    tr = [f"{i:04x}:{s:02x}={v:#x}" for i, s, v in trace]
    if not trace:
        bad("trace/empty", "save wrote nothing to the objects of this PDO")
        return
    i0, s0, v0 = trace[0]
    if (i0, s0) != (com, 1) or not v0 & INVALID:
        bad("trace/not-invalidated-first", f"first write is {tr[0]}; trace {tr}")
    cobw = [(k, v) for k, (i, s, v) in enumerate(trace) if (i, s) == (com, 1)]
    for k, v in cobw:
        if (v & 0x1FFFFFFF) != cob_id:
            bad("trace/cob-id", f"COB-ID write {v:#x} does not carry id {cob_id:#x}")
        if bool(v & NO_RTR) != (not intended["rtr_allowed"]):
            bad("trace/rtr-bit", f"COB-ID write {v:#x}: bit 30 must be set exactly when RTR is not allowed "
                                 f"(rtr_allowed={intended['rtr_allowed']})")
    maps = [(k, s, v) for k, (i, s, v) in enumerate(trace) if i == mp]
    want_entries = [_word(e) for e in intended["map"]]
    n = len(want_entries)
    shown = [(s, hex(v)) for k, s, v in maps]
    if not maps or maps[0][1] != 0 or maps[0][2] != 0:
        bad("trace/count-not-zeroed-first", f"mapping writes {shown}")
    elif n == 0 and len(maps) == 1:
        pass        # empty mapping: the zeroing write already is the count after (no) entries
    elif len(maps) < 2 or maps[-1][1] != 0 or maps[-1][2] != n:
        bad("trace/count-not-set-last", f"mapping writes {shown}, want count {n} after the entries")
    else:
        # between the zeroing and the final count: entry writes only; the statement fixes neither their
        # order nor that each is written once - what counts is what every entry holds at the end
        middle = [(s, v) for k, s, v in maps[1:-1]]
        last = {}
        for s, v in middle:
            last[s] = v
        if any(s == 0 for s, v in middle):
            bad("trace/entries", f"count written again between the entries: {shown}")
        elif [last.get(k + 1) for k in range(n)] != want_entries or any(v != 0 for s, v in last.items() if s > n):
            bad("trace/entries", f"entry writes {[(s, hex(v)) for s, v in middle]} want "
                                 f"{[(k + 1, hex(v)) for k, v in enumerate(want_entries)]}")
    validating = [(k, v) for k, v in cobw if not v & INVALID]
    if intended["enabled"]:
        if len(validating) != 1 or validating[0][0] != len(trace) - 1:
            bad("trace/validate-last", f"enabled PDO: validating COB-ID write must be the last write; trace {tr}")
    elif validating:
        bad("trace/validated-although-disabled", f"trace {tr}")


def _names(case):
    """(index, sub) -> (object name, member name | None, kind)."""
    out = {}
    for o in case["app"]:
        if o["kind"] == "var":
            out[(o["index"], 0)] = (o["name"], None, "var")
        elif o["kind"] == "array":
            for m in o["members"]:
                out[(o["index"], m["sub"])] = (o["name"], f"m{m['sub']}" if m["sub"] <= o["declared"] else None,
                                               "array")
        else:
            for m in o["members"]:
                out[(o["index"], m["sub"])] = (o["name"], m["name"], "record")
    return out


def _add_map(pmap, entries, case):
    names = _names(case) if case else {}
    forms = (case or {}).get("addforms") or []
    explicit = set()
    for o in (case or {}).get("app", []):
        for m in ([o] if o["kind"] == "var" else o["members"]):
            if m.get("maplen"):
                explicit.add((o["index"], m.get("sub", 0)))
    natural = app_entries(case) if case else {}
    for k, (index, sub, ln) in enumerate(entries):
        form = forms[k % len(forms)] if forms else "num"
        if (index, sub) in explicit:
            form = "num_len"        # an object without a width of its own is mapped with an explicit length
        if natural.get((index, sub), ln) != ln:
            form = "num_len"        # fewer bits than the object has: the length is part of the configuration
        oname, mname, kind = names.get((index, sub), (None, None, None))
        if form == "num_len":
            pmap.add_variable(index, sub, ln)
        elif form == "dotted" and mname is not None:
            pmap.add_variable(f"{oname}.{mname}")              # qualified name, default sub-index
        elif form == "name" and kind == "var":
            pmap.add_variable(oname)
        elif form == "name_member" and mname is not None:
            pmap.add_variable(oname, mname)
        elif form == "index_member" and mname is not None:
            pmap.add_variable(index, mname)
        elif form in ("name_num", "name", "name_member", "dotted") and oname is not None and kind != "var":
            pmap.add_variable(oname, sub)                      # object by name, member by number
        else:
            pmap.add_variable(index, sub)


def _apply_attrs(pmap, cfg, case=None):
    pmap.cob_id = cfg["cob_id"]
    pmap.enabled = cfg["enabled"]
    pmap.rtr_allowed = cfg["rtr_allowed"]
    pmap.trans_type = cfg.get("trans_type")
    pmap.inhibit_time = cfg.get("inhibit_time")
    pmap.event_timer = cfg.get("event_timer")
    pmap.sync_start_value = cfg.get("sync_start_value")
    pmap.clear()
    _add_map(pmap, cfg["map"], case)


def _apply_changes(pmap, p, case):
    """live_keep: only the attributes named in p['changes'] are touched after read()."""
    cfg = p["cfg"]
    for key in p.get("changes") or []:
        if cfg.get(key) is None:
            continue
        if key == "map":
            pmap.clear()
            _add_map(pmap, cfg["map"], case)
        else:
            setattr(pmap, key, cfg[key])


# ---- generation ---------------------------------------------------------------------
RESERVED_IDS = {0x7E4, 0x7E5, 0x580 + NODE, 0x600 + NODE, 0x700 + NODE, 0x80 + NODE, 0}
PDO_DTS = sorted(rc.INTEGERS) + [rc.REAL32, rc.REAL64]
SOURCES = ["attrs", "attrs", "live_modify", "live_keep", "from_od", "load_configuration"]
ADDFORMS = ["num", "num_len", "dotted", "name", "name_member", "index_member", "name_num"]


@st.composite
def cob_ids(draw):
    return draw(st.one_of(
        st.integers(1, 0x7FF).filter(lambda v: v not in RESERVED_IDS),
        st.sampled_from([0x181, 0x201, 0x7FF, 0x800, 0x1FFFFFFF, 0x10000000, 0x12345]),
        st.integers(0x800, 0x1FFFFFFF)))


def _cands(app):
    cands = []
    for o in app:
        if o["kind"] == "var":
            cands.append((o["index"], 0, _w(o)))
        else:
            for m in o["members"]:
                cands.append((o["index"], m["sub"], _w(m)))
    return cands


def _draw_app(draw):
    napp = draw(st.integers(1, 6))
    idxs = sorted(draw(st.sets(st.integers(0x2000, 0x9FFF), min_size=napp, max_size=napp)))
    app = []
    for k, index in enumerate(idxs):
        pick = draw(st.integers(0, 8))
        if pick == 0:
            # octet / visible strings and DOMAIN are mapped with the length given in the mapping entry
            app.append({"kind": "var", "index": index, "name": f"app{k}",
                        "dt": draw(st.sampled_from([rc.OCTET_STRING, rc.VISIBLE_STRING, rc.DOMAIN])),
                        "maplen": draw(st.sampled_from([8, 16, 24, 32, 40, 64]))})
        elif pick <= 3:
            app.append({"kind": "var", "index": index, "name": f"app{k}", "dt": draw(st.sampled_from(PDO_DTS))})
        elif pick <= 6:
            subs = sorted(draw(st.sets(st.integers(1, 254), min_size=1, max_size=3)))
            app.append({"kind": "record", "index": index, "name": f"app{k}", "members":
                        [{"sub": s, "name": f"m{s}", "dt": draw(st.sampled_from(PDO_DTS))} for s in subs]})
        else:
            # ARRAY: elements 1..declared are in the dictionary, further ones come from the first element
            dt = draw(st.sampled_from(PDO_DTS))
            declared = draw(st.integers(1, 4))
            subs = sorted(draw(st.sets(st.one_of(st.integers(1, declared), st.integers(1, 8), st.integers(1, 254)),
                                       min_size=1, max_size=4)))
            app.append({"kind": "array", "index": index, "name": f"app{k}", "dt": dt, "declared": declared,
                        "members": [{"sub": s, "dt": dt} for s in subs]})
    return app


def _draw_map(draw, cands, partial=False, prefer=()):
    """0..8 dictionary objects totalling <= 64 bits.  partial: an object may be mapped with FEWER bits
    than it has (add_variable(..., length) / a device whose mapping holds a shorter entry); prefer: objects
    another configuration of the same history maps (so the same object comes back with another length)."""
    out, total = [], 0
    prefer = {(c[0], c[1]) for c in prefer}
    for _ in range(draw(st.integers(0, 8))):
        fit = [c for c in cands if total + c[2] <= 64]
        if not fit:
            break
        again = [c for c in fit if (c[0], c[1]) in prefer]
        c = list(draw(st.sampled_from(again if again and draw(st.booleans()) else fit)))
        if partial and c[2] > 1 and draw(st.booleans()):
            c[2] = draw(st.sampled_from(sorted({1, 4, 8, c[2] // 2, c[2] - 1} & set(range(1, c[2])))))
        out.append(c)
        total += c[2]
    return out


def _draw_cfg(draw, cands, subs, cob, partial, prefer=()):
    """One complete application-side configuration (what _apply_attrs sets)."""
    cfg = {"cob_id": cob, "enabled": draw(st.booleans()), "rtr_allowed": draw(st.booleans()),
           "trans_type": draw(st.one_of(st.sampled_from([0, 1, 240, 252, 253, 254, 255]), st.integers(0, 255))),
           "map": _draw_map(draw, cands, partial, prefer)}
    for name, sub, hi in OPT:
        if sub in subs and draw(st.booleans()):
            cfg[name] = draw(st.one_of(st.just(0), st.integers(0, hi)))
    return cfg


def _draw_prior(draw, case, pdos, cands, max_prior):
    """Give the PDOs a history: 1..max_prior earlier configurations of the same node object, each saved
    (through any route) or only configured."""
    n = draw(st.integers(1, max_prior))
    natural = {(c[0], c[1]): c for c in cands}
    taken = {p["cfg"]["cob_id"] for p in pdos}
    case["prior_saved"] = [draw(st.integers(0, 3)) != 0 for _ in range(n)]
    case["prior_route"] = draw(st.sampled_from(ROUTES))
    for p in pdos:
        subs = set(p["dict_subs"]) & set(p["device_subs"])
        mapped = [natural[(e[0], e[1])] for e in p["cfg"]["map"] if (e[0], e[1]) in natural]
        mapped += [natural[k] for k in ((e >> 16, (e >> 8) & 0xFF) for e in p["pre"]["entries"]) if k in natural]
        prior = []
        for _ in range(n):
            if draw(st.booleans()):
                cob = p["cfg"]["cob_id"]
            else:
                cob = draw(cob_ids().filter(lambda v: v not in taken))
                taken.add(cob)
            prior.append(_draw_cfg(draw, cands, subs, cob, draw(st.booleans()), mapped))
        p["prior"] = prior
    return n


def _draw_pdo(draw, cands, direction, number, source, taken):
    partial = draw(st.integers(0, 3)) == 0
    dict_subs = sorted(draw(st.sets(st.sampled_from([3, 5, 6]))))
    device_subs = sorted(set(dict_subs) | draw(st.sets(st.sampled_from([3, 5, 6]))))
    if draw(st.booleans()):
        device_subs = sorted(draw(st.sets(st.sampled_from([3, 5, 6]))))
    cob = draw(cob_ids().filter(lambda v: v not in taken))
    taken.add(cob)
    cfg = {"cob_id": cob, "enabled": draw(st.booleans()), "rtr_allowed": draw(st.booleans()),
           "trans_type": draw(st.one_of(st.sampled_from([0, 1, 240, 252, 253, 254, 255]), st.integers(0, 255))),
           "map": _draw_map(draw, cands, partial)}
    for name, sub, hi in OPT:
        if sub in dict_subs and sub in device_subs and draw(st.booleans()):
            cfg[name] = draw(st.one_of(st.just(0), st.integers(0, hi)))
    pre_enabled = draw(st.booleans())
    pre = {"enabled": pre_enabled, "cob": draw(cob_ids()), "type": draw(st.integers(0, 255)),
           "entries": [_word(e) for e in (_draw_map(draw, cands, draw(st.integers(0, 2)) == 0, cfg["map"])
                                          if pre_enabled else [])],
           "inhibit": draw(st.integers(0, 1000)), "event": draw(st.integers(0, 1000)), "sync": draw(st.integers(0, 9))}
    if pre_enabled and draw(st.booleans()):
        pre["cob"] |= NO_RTR
    p = {"dir": direction, "number": number, "dict_subs": dict_subs, "device_subs": device_subs,
         "cfg": cfg, "pre": pre}
    if source == "attrs" and draw(st.integers(0, 3)) == 0:
        cfg["trans_type"] = None
    if source in ("from_od", "load_configuration"):
        # the configuration lives in the dictionary: DCF value and/or EDS default per entry
        raw_cob = cfg["cob_id"] | (0 if cfg["enabled"] else INVALID) | (0 if cfg["rtr_allowed"] else NO_RTR)
        want = {("com", 1): raw_cob, ("com", 2): cfg["trans_type"], ("map", 0): len(cfg["map"])}
        for k, e in enumerate(cfg["map"]):
            want[("map", k + 1)] = _word(e)
        for name, sub, hi in OPT:
            if sub in dict_subs and sub in device_subs:
                want[("com", sub)] = cfg.get(name, 0) or 0
                if cfg["trans_type"] >= 254:
                    cfg[name] = want[("com", sub)]
                else:
                    cfg.pop(name, None)
            else:
                cfg.pop(name, None)
        odv = {}
        zero_over = False
        for key, v in want.items():
            how = draw(st.sampled_from(["value", "default", "both"]))
            if how == "value":
                odv[f"{key[0]}:{key[1]}"] = {"value": v}
            elif how == "default":
                odv[f"{key[0]}:{key[1]}"] = {"default": v}
            else:
                other = draw(st.integers(1, 200)) if key != ("com", 1) else (v ^ 0x3)
                if key[0] == "map" and key[1] >= 1:
                    other = v   # a different default mapping entry could be unmappable; keep it equal
                odv[f"{key[0]}:{key[1]}"] = {"value": v, "default": other}
                if v == 0 and other:
                    zero_over = True
        p["od_values"] = odv
        p["zero_over_default"] = zero_over
        p["intended"] = dict(cfg)
        # subs present in the dictionary but not on the device cannot be saved
        p["dict_subs"] = sorted(set(dict_subs) & set(device_subs))
    else:
        # canopen writes every optional parameter that is set: they must exist on the device
        for name, sub, hi in OPT:
            if sub not in device_subs:
                cfg.pop(name, None)
    if source == "live_keep":
        keys = sorted(k for k, v in cfg.items() if v is not None)
        p["changes"] = sorted(draw(st.sets(st.sampled_from(keys), max_size=3))) if draw(st.booleans()) else []
    return p


def _draw_reads(draw, case, source):
    if source in ("live_keep", "from_od"):
        case["reads"] = draw(st.sampled_from([1, 2]))


def _draw_routes(draw, case):
    case["cfg_route"] = draw(st.sampled_from(ROUTES))
    case["save_route"] = draw(st.sampled_from(ROUTES))
    case["read_route"] = draw(st.sampled_from(ROUTES))


@st.composite
def case_strategy(draw, max_prior=2):
    """ONE PDO in the dictionary."""
    direction = draw(st.sampled_from(["rpdo", "tpdo"]))
    number = draw(st.one_of(st.integers(1, 4), st.sampled_from([5, 64, 511, 512]), st.integers(1, 512)))
    app = _draw_app(draw)
    source = draw(st.sampled_from(SOURCES))
    p = _draw_pdo(draw, _cands(app), direction, number, source, set())
    case = dict(p)
    case.update({"app": app, "source": source,
                 "addforms": draw(st.lists(st.sampled_from(ADDFORMS), min_size=1, max_size=4))})
    _draw_reads(draw, case, source)
    if draw(st.booleans()):
        _draw_routes(draw, case)
    if source in HISTORY_SOURCES and draw(st.integers(0, 2)) == 0:
        _draw_prior(draw, case, [case], _cands(app), max_prior)
    return case


@st.composite
def multi_strategy(draw, max_pdos=4, max_prior=2):
    """SEVERAL PDOs in one dictionary: the same number in both directions, several numbers of one
    direction, or a free mix; some enabled, some not; saved and read back through the collection routes."""
    app = _draw_app(draw)
    cands = _cands(app)
    numbers = st.one_of(st.integers(1, 4), st.sampled_from([5, 64, 511, 512]), st.integers(1, 512))
    shape = draw(st.sampled_from(["same-number", "same-number", "one-direction", "mixed"]))
    slots = []
    if shape == "same-number":
        for n in sorted(draw(st.sets(numbers, min_size=1, max_size=max(1, max_pdos // 2)))):
            slots += [("rpdo", n), ("tpdo", n)]
        if len(slots) < max_pdos and draw(st.booleans()):
            extra = (draw(st.sampled_from(["rpdo", "tpdo"])), draw(numbers))
            if extra not in slots:
                slots.append(extra)
    elif shape == "one-direction":
        d = draw(st.sampled_from(["rpdo", "tpdo"]))
        slots = [(d, n) for n in sorted(draw(st.sets(numbers, min_size=2, max_size=max_pdos)))]
    else:
        slots = sorted(draw(st.sets(st.tuples(st.sampled_from(["rpdo", "tpdo"]), numbers), min_size=2,
                                    max_size=max_pdos)))
    slots = list(draw(st.permutations(slots)))
    source = draw(st.sampled_from(SOURCES + ["load_configuration", "from_od"]))
    taken = set()
    pdos = [_draw_pdo(draw, cands, d, n, source, taken) for d, n in slots]
    case = {"app": app, "source": source, "pdos": pdos,
            "addforms": draw(st.lists(st.sampled_from(ADDFORMS), min_size=1, max_size=4))}
    _draw_reads(draw, case, source)
    _draw_routes(draw, case)
    if source in HISTORY_SOURCES and draw(st.integers(0, 3)) == 0:
        _draw_prior(draw, case, pdos, cands, max_prior)
    return case


# ---- directed families ------------------------------------------------------------------
def _pdo(direction, number, cob, enabled, ttype, mapping, source, subs=(), pre=None, rtr=True, opt=None,
         how="value", changes=None):
    """A hand-made PDO description in the same layout the strategies produce."""
    cfg = {"cob_id": cob, "enabled": enabled, "rtr_allowed": rtr, "trans_type": ttype,
           "map": [list(e) for e in mapping]}
    for name, sub, hi in OPT:
        if opt and name in opt and sub in subs:
            cfg[name] = opt[name]
    p = {"dir": direction, "number": number, "dict_subs": sorted(subs), "device_subs": sorted(subs), "cfg": cfg,
         "pre": pre or {"enabled": False, "cob": 0x200 + number, "type": 255, "entries": [], "inhibit": 0,
                        "event": 0, "sync": 0}}
    if source in ("from_od", "load_configuration"):
        raw = cob | (0 if enabled else INVALID) | (0 if rtr else NO_RTR)
        want = {"com:1": raw, "com:2": ttype, "map:0": len(mapping)}
        for k, e in enumerate(mapping):
            want[f"map:{k + 1}"] = _word(e)
        for name, sub, hi in OPT:
            if sub in subs:
                want[f"com:{sub}"] = cfg.get(name, 0)
                if ttype >= 254:
                    cfg[name] = want[f"com:{sub}"]
                else:
                    cfg.pop(name, None)
        p["od_values"] = {k: ({"value": v} if how == "value" else {"default": v}) for k, v in want.items()}
        p["zero_over_default"] = False
        p["intended"] = dict(cfg)
    if source == "live_keep":
        p["changes"] = list(changes or [])
    return p


DIRECTED_APP = [
    {"kind": "var", "index": 0x2000, "name": "speed", "dt": rc.UNSIGNED16},
    {"kind": "record", "index": 0x2100, "name": "rec", "members": [{"sub": 1, "name": "m1", "dt": rc.UNSIGNED8},
                                                                   {"sub": 3, "name": "m3", "dt": rc.INTEGER16}]},
    {"kind": "array", "index": 0x6000, "name": "inputs", "dt": rc.UNSIGNED8, "declared": 2,
     "members": [{"sub": s, "dt": rc.UNSIGNED8} for s in (1, 2, 3, 8, 254)]},
    {"kind": "array", "index": 0x6401, "name": "analogue", "dt": rc.INTEGER16, "declared": 1,
     "members": [{"sub": s, "dt": rc.INTEGER16} for s in (1, 2, 4)]},
]
_MAPS = [
    [(0x2000, 0, 16)],
    [(0x6000, 2, 8), (0x2000, 0, 16)],                       # declared ARRAY element first
    [(0x6000, 3, 8), (0x6000, 254, 8), (0x6401, 4, 16)],     # elements beyond the declared ones
    [(0x2100, 3, 16), (0x6401, 1, 16), (0x6000, 8, 8), (0x6000, 1, 8)],
    [],
]


def directed_cases(thorough=False):
    """Small enumerated families for the two classes random search reaches slowly: (a) dictionaries
    with several PDOs (same number in both directions, several of one direction) through every
    collection route, (b) mappings of ARRAY elements (declared and beyond) through every source."""
    pre_on = {"enabled": True, "cob": 0x3F1, "type": 254, "entries": [_word((0x6000, 3, 8)), _word((0x2000, 0, 16))],
              "inhibit": 7, "event": 9, "sync": 0}
    sources = ["attrs", "live_modify", "live_keep", "from_od", "load_configuration"]
    # (a) several PDOs
    shapes = [
        [("rpdo", 1), ("tpdo", 1)],
        [("tpdo", 2), ("rpdo", 2)],
        [("rpdo", 512), ("tpdo", 512)],
        [("rpdo", 1), ("rpdo", 2), ("rpdo", 5)],
        [("tpdo", 1), ("tpdo", 3)],
        [("rpdo", 1), ("tpdo", 1), ("rpdo", 2), ("tpdo", 2)],
        [("tpdo", 4), ("rpdo", 3), ("tpdo", 3)],
    ]
    numbers = (1, 2, 3, 4, 5, 64, 511, 512) if thorough else ()
    shapes += [[("tpdo", n), ("rpdo", n)] for n in numbers]
    k = 0
    for shape in shapes:
        for source in sources:
            for route in ROUTES:
                for pattern in range(3 if thorough else 2):
                    pdos = []
                    for j, (d, n) in enumerate(shape):
                        enabled = (True, j % 2 == 0, j % 2 == 1)[pattern]     # all / alternating / the others
                        mapping = _MAPS[(k + j) % len(_MAPS)]
                        ttype = [1, 255, 254, 0][(k + j) % 4]
                        pdos.append(_pdo(d, n, 0x300 + 0x10 * j + (k % 7) + (0x10000 if (k + j) % 5 == 0 else 0),
                                         enabled, ttype, mapping, source, subs=(3, 5) if j % 2 else (),
                                         pre=dict(pre_on) if (j + k) % 3 == 0 else None, rtr=(j + k) % 4 != 0,
                                         opt={"inhibit_time": 0, "event_timer": 100},
                                         how="default" if (k + j) % 6 == 5 else "value",
                                         changes=[["enabled"], ["map", "cob_id"], []][(k + j) % 3]))
                    case = {"app": DIRECTED_APP, "source": source, "pdos": pdos,
                            "addforms": [ADDFORMS[(k + i) % len(ADDFORMS)] for i in range(3)],
                            "cfg_route": ROUTES[(k // 2) % 4] if source != "from_od" or route == "each" else route,
                            "save_route": route, "read_route": ROUTES[(k + 1) % 4]}
                    if source in ("live_keep", "from_od"):
                        case["reads"] = 1 + (k % 3 == 0)
                    k += 1
                    yield case
    # (b) ARRAY elements in a single PDO, every source x every way of naming the element
    for source in sources:
        for mi, mapping in enumerate(_MAPS[1:4]):
            for form in ADDFORMS:
                for d, n in (("tpdo", 1), ("rpdo", 4)) if thorough or form in ("num", "name_num") else (("tpdo", 1),):
                    p = _pdo(d, n, 0x284 + mi, True, 1 if mi else 255, mapping, source, subs=(3,),
                             pre=dict(pre_on) if mi == 1 else None, changes=["map"] if mi != 1 else [])
                    case = dict(p)
                    case.update({"app": DIRECTED_APP, "source": source, "addforms": [form]})
                    if source == "live_keep":
                        case["reads"] = 2 if mi == 1 else 1
                    yield case


# earlier mappings of the same node object (or of the device) -> last mapping: the same objects come back
# with another bit length
_HISTORIES = [
    ([[(0x2000, 0, 4), (0x2100, 3, 8), (0x6000, 2, 8)]], [(0x2000, 0, 16), (0x2100, 3, 16)]),      # fewer bits -> all
    ([[(0x2000, 0, 16), (0x6401, 1, 16)]], [(0x2000, 0, 8), (0x6401, 1, 4)]),                      # all -> fewer
    ([[(0x2000, 0, 4)], [(0x2000, 0, 12), (0x2100, 1, 1)]], [(0x2100, 1, 8), (0x2000, 0, 16), (0x6000, 3, 8)]),
    ([[(0x6000, 3, 4), (0x6000, 254, 1)]], [(0x6000, 254, 8), (0x6000, 3, 8)]),                    # beyond declared
    ([[(0x2100, 3, 16)], [], [(0x2100, 3, 9)]], [(0x2100, 3, 16)]),
]


def history_cases(thorough=False):
    """(c) ONE node object configured several times: earlier configurations (saved, or only configured)
    map the objects of the last one with other bit lengths; (d) a device whose mapping holds entries with
    fewer bits than the object, read and then re-mapped."""
    k = 0
    for earlier, last in _HISTORIES:
        for source in HISTORY_SOURCES:
            for unsaved in (None, 0, len(earlier) - 1) if thorough else (None, 0):
                for d, n in (("tpdo", 1), ("rpdo", 2)) if thorough else ((("tpdo", 1), ("rpdo", 2))[k % 2],):
                    for route in ROUTES if thorough else (ROUTES[k % 4],):
                        pre = None
                        if k % 2:
                            pre = {"enabled": True, "cob": 0x3F1 | (NO_RTR if k % 4 == 1 else 0), "type": 254,
                                   "entries": [_word(e) for e in earlier[0]], "inhibit": 7, "event": 9, "sync": 0}
                        ttype = [1, 255, 254, 0][k % 4]
                        p = _pdo(d, n, 0x290 + k % 5, k % 3 != 0, ttype, last, source, subs=(3, 5), pre=pre,
                                 rtr=k % 4 != 2, opt={"inhibit_time": 3, "event_timer": 0}, changes=["map"])
                        p["prior"] = []
                        for j, m in enumerate(earlier):
                            c = {"cob_id": 0x290 + (k + j) % 5 if j % 2 else 0x1000 + k, "enabled": (k + j) % 2 == 0,
                                 "rtr_allowed": (k + j) % 3 != 0, "trans_type": [255, 1, 254][(k + j) % 3],
                                 "map": [list(e) for e in m]}
                            if (k + j) % 2:
                                c["inhibit_time"] = 10 + j
                            p["prior"].append(c)
                        case = dict(p)
                        case.update({"app": DIRECTED_APP, "source": source, "addforms": [ADDFORMS[k % len(ADDFORMS)]],
                                     "prior_saved": [j != unsaved for j in range(len(earlier))],
                                     "prior_route": route, "save_route": route, "cfg_route": ROUTES[(k + 1) % 4],
                                     "read_route": ROUTES[(k + 2) % 4]})
                        if source == "live_keep":
                            case["reads"] = 1 + k % 2
                        k += 1
                        yield case
        # (d) the device starts with the earlier mapping; no earlier configuration of the node object
        for source, changes in (("live_keep", ["map"]), ("live_keep", []), ("live_modify", None)):
            for d, n in (("tpdo", 1), ("rpdo", 2)) if thorough else (("tpdo", 1),):
                pre = {"enabled": True, "cob": 0x3F1, "type": 255, "entries": [_word(e) for e in earlier[0]],
                       "inhibit": 7, "event": 9, "sync": 0}
                p = _pdo(d, n, 0x2A0, True, 255, last, source, subs=(3, 5), pre=pre, changes=changes)
                case = dict(p)
                case.update({"app": DIRECTED_APP, "source": source, "addforms": ["num", "name", "dotted"]})
                if source == "live_keep":
                    case["reads"] = 1 + (changes == [])
                yield case


def search(ctx):
    thorough = ctx.tier == "thorough"
    ctx.enumerate(directed_cases(thorough), "directed: several PDOs in one dictionary x source x collection route; "
                                            "ARRAY elements (declared / beyond) x source x add_variable form")
    ctx.enumerate(history_cases(thorough), "directed: one node object configured 2..4 times (same objects mapped "
                                           "with other bit lengths, saved or only configured in between) x source; "
                                           "device pre-state with shorter mapping entries, read and re-mapped")
    # single-PDO and several-PDO dictionaries alternate, so that a budget cut on a loaded machine never
    # removes one of the two families altogether (salts stay below 100: see Ctx.hyp_seed)
    for rnd in range(6 if thorough else 1):
        ctx.hypothesis(case_strategy(max_prior=3 if thorough else 2), 2000, salt=2 * rnd)
        ctx.hypothesis(multi_strategy(max_pdos=6 if thorough else 4, max_prior=3 if thorough else 2), 700,
                       salt=2 * rnd + 1)
