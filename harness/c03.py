"""C03 - typed values survive the client -> bus -> server -> client round trip.

SUT: the whole stack: RemoteNode.sdo[...] typed accessors on one network,
LocalNode(s) on another, same generated dictionary on both.

Delivery modes
  inline      responses are delivered inside the send call (no threads)
  baton       2..8 client threads, one per node id, sharing ONE client network;
              the harness owns the schedule: exactly one thread runs at a time
              and control may move to another thread before every request
              frame, following an order list drawn by Hypothesis (deterministic,
              replayable frame-level interleavings of concurrent transfers)
  dispatcher  frames wait in a FIFO; a dispatcher thread delivers them later
              with drawn delays, interleaved with drawn unrelated traffic
  virtual     python-can's threaded virtual bus with real Notifier threads
"""
import math
import threading
import time

from hypothesis import strategies as st

from harness import refcodec as rc
from harness.core import Discrepancy, Outcome
from harness.odutil import build_od as _build_od_code
from harness.simbus import Frame, Hub

PROPERTY = "C03"
LEVEL = "exploration"
RULE = ("case = dictionary (variables and records over all 19 numeric types, BOOLEAN, REAL32/64, VISIBLE/"
        "UNICODE/OCTET strings, DOMAIN) + per client thread a node id and a list of (entry, access path in "
        "{index, name, 'Record.Member', [index][sub], [index][member name], get_variable(index|name, sub), "
        "Mapping protocol items()/get() of the record}, typed value) + delivery mode "
        "(inline | baton-scheduled threads with a drawn frame-level order | dispatcher thread with drawn "
        "delays and unrelated traffic | python-can virtual bus). Values: all type boundaries, +-2^k+-1, "
        "random; all 8/16-bit values in the thorough tier; floats incl. inf, -0.0, subnormals; strings of "
        "length 0..200. Oracle: remote.raw == v, local.raw == v, data_store bytes == independent CiA 301 "
        "encoding; each thread reads back only its own values; in cases where all nodes were created from ONE "
        "ObjectDictionary object, a node's entry read before that node's first write answers exactly like a "
        "node nobody wrote to (differential against a pristine rig). Member names may contain '.'. Non-trivial = boundary value, payload > 4 "
        "bytes, or a non-inline mode; distinct = canonical JSON.")
ASSUMPTIONS = [
    "thread interleavings are explored at frame granularity by a harness-owned schedule (one runnable thread "
    "at a time); finer-grained races inside a single callback are only sampled by the dispatcher/virtual modes",
    "in threaded modes RESPONSE_TIMEOUT is 5 s (>1000x the injected delays); a time-out there is reported as "
    "a harness error, not as a violation",
    "strings carry no trailing NUL (decode_raw documents stripping them); REAL32 values are binary32-representable",
]
BUDGET = {"quick": 150, "thorough": 420}


class Baton:
    """Cooperative scheduler: one thread runs at a time; a switch may happen
    at every yield point, chosen from `order`."""

    def __init__(self, n, order):
        self.cv = threading.Condition()
        self.n = n
        self.order = list(order)
        self.pos = 0
        self.current = None        # thread index that may run
        self.parked = set()
        self.finished = set()
        self.switches = 0

    def _pick(self):
        alive = [t for t in range(self.n) if t not in self.finished]
        if not alive:
            self.current = None
            return
        if self.pos < len(self.order):
            choice = alive[self.order[self.pos] % len(alive)]
            self.pos += 1
        else:
            choice = alive[self.pos % len(alive)]
            self.pos += 1
        if choice != self.current:
            self.switches += 1
        self.current = choice

    def start_all(self):
        with self.cv:
            ok = self.cv.wait_for(lambda: len(self.parked) + len(self.finished) == self.n, timeout=30)
            if not ok:
                raise RuntimeError("baton: threads did not reach the start line")
            self._pick()
            self.cv.notify_all()

    def yield_point(self, t):
        with self.cv:
            self.parked.add(t)
            if self.current == t:
                self._pick()
            self.cv.notify_all()
            ok = self.cv.wait_for(lambda: self.current == t, timeout=60)
            if not ok:
                raise RuntimeError("baton: scheduler stalled")
            self.parked.discard(t)

    def finish(self, t):
        with self.cv:
            self.finished.add(t)
            self.parked.discard(t)
            if self.current == t or self.current is None:
                self._pick()
            self.cv.notify_all()


_tls = threading.local()


def make_network_class():
    import canopen

    class ScheduledNetwork(canopen.Network):
        """Network.send_message is documented as overridable; the override only
        adds a scheduling point in front of the real method."""
        baton = None

        def send_message(self, can_id, data, remote=False):
            t = getattr(_tls, "index", None)
            if self.baton is not None and t is not None:
                self.baton.yield_point(t)
            return super().send_message(can_id, data, remote)

    return ScheduledNetwork


PATHS = ["index", "name", "dotted", "sub", "member", "getvar", "getvar_name", "values"]


def get_var(sdo, od_entry, path):
    index, sub, name, parent_name, top = od_entry
    if top:
        if path in ("getvar", "values"):
            return sdo.get_variable(index)
        if path == "getvar_name":
            return sdo.get_variable(name)
        return sdo[index] if path in ("index", "sub", "member") else sdo[name]
    if path == "index" or path == "sub":
        return sdo[index][sub]
    if path == "member":
        return sdo[index][name]
    if path == "name":
        return sdo[parent_name][name]
    if path == "getvar":
        return sdo.get_variable(index, sub)
    if path == "getvar_name":
        return sdo.get_variable(parent_name, sub)
    if path == "values":
        # Mapping protocol of SdoRecord (arrays would need the element count from the device first)
        obj = sdo.get(index)
        if type(obj).__name__ == "SdoRecord":
            for s, v in obj.items():
                if s == sub:
                    return v
            raise KeyError(f"sub-index {sub} not among the items() of {index:#x}")
        return obj.get(sub)
    return sdo[f"{parent_name}.{name}"]


def flat_entries(od):
    out = []
    for o in od:
        if o["kind"] == "var":
            out.append((o["index"], 0, o["name"], None, True, o["dt"]))
        else:
            for m in o["members"]:
                if m["sub"] == 0:
                    continue
                out.append((o["index"], m["sub"], m["name"], o["name"], False, m["dt"]))
    return out


def check_value(tag, dt, v, remote_var, local_var, local_node, index, sub, D):
    def bad(kind, detail):
        D.append(Discrepancy(f"C03/{kind}", f"{tag}: {detail}"))
    remote_var.raw = v
    want = rc.encode(dt, v)
    stored = local_node.data_store.get(index, {}).get(sub)
    if stored is None or bytes(stored) != want:
        bad("stored-bytes", f"{rc.NAMES[dt]} {v!r}: local node holds "
                            f"{bytes(stored).hex() if stored is not None else None} want {want.hex()}")
        return
    back = remote_var.raw
    if not _same(dt, back, v):
        bad("remote-readback", f"{rc.NAMES[dt]} wrote {v!r} read back {back!r}")
        return
    loc = local_var.raw
    if not _same(dt, loc, v):
        bad("local-readback", f"{rc.NAMES[dt]} wrote {v!r}, local side reads {loc!r}")


def final_sweep(tag, remote, local, last, D):
    """Every entry still holds the value written to it last - also after later writes to
    other entries (e.g. other members of the same record)."""
    for (index, sub), (e, path, v) in last.items():
        dt = e[5]
        try:
            want = rc.encode(dt, v)
            stored = local.data_store.get(index, {}).get(sub)
            if stored is None or bytes(stored) != want:
                D.append(Discrepancy("C03/final/stored-bytes",
                                     f"{tag}: {index:04x}:{sub:02x} {rc.NAMES[dt]} last written {v!r}: local node "
                                     f"holds {bytes(stored).hex() if stored is not None else None} at the end"))
                return
            back = get_var(remote.sdo, e[:5], path).raw
            if not _same(dt, back, v):
                D.append(Discrepancy("C03/final/remote-readback",
                                     f"{tag}: {index:04x}:{sub:02x} {rc.NAMES[dt]} last written {v!r}, reads "
                                     f"{back!r} at the end"))
                return
        except Exception as ex:
            D.append(Discrepancy("C03/final/raises", f"{tag}: {index:04x}:{sub:02x}: {type(ex).__name__}: {ex}"))
            return


def _same(dt, a, b):
    if dt in rc.REALS:
        return isinstance(a, float) and rc.float_bits_equal(a, float(b))
    if dt == rc.BOOLEAN:
        return a is bool(b)
    if dt in (rc.OCTET_STRING, rc.DOMAIN):
        return isinstance(a, (bytes, bytearray)) and bytes(a) == bytes(b)
    if dt in rc.INTEGERS:
        return isinstance(a, int) and not isinstance(a, bool) and a == b
    return isinstance(a, str) and a == b


def make_od(spec, source):
    """The dictionary of a node: built in code, or (source='eds') imported from EDS text that an
    independent writer produced from the same description."""
    if source == "eds":
        import io

        import canopen
        from harness.c02 import eds_safe, render_eds
        if eds_safe(spec):
            fp = io.StringIO(render_eds(spec, False))
            fp.name = "generated.eds"
            return canopen.import_od(fp, 1)
    return _build_od_code(spec)


def pristine_reads(od_spec, source, ent):
    """What a node that nobody has written to answers for every entry: value, or abort code."""
    import canopen
    hub = Hub()
    port_s = hub.port("server")
    net_s = canopen.Network(bus=port_s)
    port_s.network = net_s
    port_c = hub.port("client")
    net_c = canopen.Network(bus=port_c)
    port_c.network = net_c
    net_s.add_node(canopen.LocalNode(1, make_od(od_spec, source)))
    remote = canopen.RemoteNode(1, make_od(od_spec, source))
    net_c.add_node(remote)
    remote.sdo.RESPONSE_TIMEOUT = 0.05
    out = {}
    for e in ent:
        try:
            out[(e[0], e[1])] = ("value", get_var(remote.sdo, e[:5], "index").raw)
        except canopen.SdoAbortedError as ex:
            out[(e[0], e[1])] = ("abort", ex.code)
    return out


def run_case(case) -> Outcome:
    import canopen
    mode = case["mode"]
    od_spec = case["od"]
    ent = flat_entries(od_spec)
    threads = case["threads"]
    D = []
    lock = threading.Lock()
    nontrivial = mode != "inline"
    for th in threads:
        for op in th["ops"]:
            if op.get("partial") is not None:
                nontrivial = True
                continue
            dt = ent[op["e"] % len(ent)][5]
            v = op["v"]
            if dt in rc.INTEGERS:
                lo, hi = rc.int_range(dt)
                if v in (lo, hi) or abs(v) > 255:
                    nontrivial = True
            elif dt in rc.REALS or (hasattr(v, "__len__") and len(rc.encode(dt, v)) > 4):
                nontrivial = True

    if mode == "virtual":
        return _run_virtual(case, ent, nontrivial)

    hub = Hub()
    NetCls = make_network_class()
    port_s = hub.port("server")
    net_s = canopen.Network(bus=port_s)
    port_s.network = net_s
    port_c = hub.port("client")
    net_c = NetCls(bus=port_c)
    port_c.network = net_c
    pairs = []
    # shared_od: the nodes are of one device type and were all given the SAME ObjectDictionary object (one for
    # the local nodes, one for the remote ones), the way an application that loads the EDS once does it
    shared = bool(case.get("shared_od")) and mode in ("inline", "baton")
    pristine = pristine_reads(od_spec, case.get("od_source", "code"), ent) if shared else None
    od_l = make_od(od_spec, case.get("od_source", "code")) if shared else None
    od_r = make_od(od_spec, case.get("od_source", "code")) if shared else None
    for th in threads:
        nid = th["node"]
        local = canopen.LocalNode(nid, od_l if shared else make_od(od_spec, case.get("od_source", "code")))
        net_s.add_node(local)
        remote = canopen.RemoteNode(nid, od_r if shared else make_od(od_spec, case.get("od_source", "code")))
        net_c.add_node(remote)
        remote.sdo.RESPONSE_TIMEOUT = 5.0 if mode != "inline" else 0.05
        pairs.append((remote, local))

    def work(t):
        remote, local = pairs[t]
        local_D = []
        last = {}
        for k, op in enumerate(threads[t]["ops"]):
            e = ent[op["e"] % len(ent)]
            index, sub, name, pname, top, dt = e
            tag = f"mode {mode} thread {t} node {threads[t]['node']} op {k} {index:04x}:{sub:02x} via {op['path']}"
            if mode == "inline" and op.get("stale"):
                # responses nobody is waiting for arrive on this client's channel while it is idle (what a
                # node scan or another master's read of object 0x1000 leaves behind): unrelated traffic
                for j in range(op["stale"]):
                    hub.inject(Frame(0x580 + threads[t]["node"],
                                     bytes([0x43, 0x00, 0x10, 0x00, 0x91 + j, 0x01, 0x0F, 0x00])))
            if op.get("partial") is not None:
                # an upload through the stream interface that the caller does not read to the end
                if (index, sub) in last:
                    try:
                        with get_var(remote.sdo, e[:5], op["path"]).open("rb", buffering=op.get("buf", 0)) as f:
                            f.read(op["partial"])
                    except Exception as ex:
                        local_D.append(Discrepancy("C03/partial-read-raises", f"{tag}: {type(ex).__name__}: {ex}"))
                        break
                continue
            try:
                rv = get_var(remote.sdo, e[:5], op["path"])
                lv = get_var(local.sdo, e[:5], op["path"])
                if shared and (index, sub) not in last:
                    # nothing was written to this entry of THIS node yet: it must answer like a node that was
                    # never written to at all, whatever the other nodes have received meanwhile
                    try:
                        got = ("value", rv.raw)
                    except canopen.SdoAbortedError as ex:
                        got = ("abort", ex.code)
                    want = pristine[(index, sub)]
                    if got[0] != want[0] or (got[0] == "abort" and got[1] != want[1]) or \
                            (got[0] == "value" and not _same(dt, got[1], want[1])):
                        local_D.append(Discrepancy("C03/other-nodes-data", f"{tag}: read before this node's first "
                                                   f"write gives {got!r}; an untouched node gives {want!r}"))
                        break
                check_value(tag, dt, op["v"], rv, lv, local, index, sub, local_D)
                last[(index, sub)] = (e, op["path"], op["v"])
            except Exception as ex:
                local_D.append(Discrepancy("C03/raises", f"{tag}: {rc.NAMES[dt]} {op['v']!r}: "
                                                         f"{type(ex).__name__}: {ex}"))
            if local_D:
                break
        if not local_D:
            final_sweep(f"mode {mode} thread {t} node {threads[t]['node']}", remote, local, last, local_D)
        with lock:
            D.extend(local_D)

    if mode == "inline":
        for t in range(len(threads)):
            work(t)
    elif mode == "baton":
        baton = Baton(len(threads), case.get("order", []))
        net_c.baton = baton

        def runner(t):
            _tls.index = t
            try:
                baton.yield_point(t)
                work(t)
            finally:
                baton.finish(t)

        ths = [threading.Thread(target=runner, args=(t,), daemon=True) for t in range(len(threads))]
        for th_ in ths:
            th_.start()
        baton.start_all()
        for th_ in ths:
            th_.join(90)
            if th_.is_alive():
                raise RuntimeError("baton-scheduled client thread did not finish")
    elif mode == "dispatcher":
        hub.queued = True
        stop = threading.Event()
        delays = case.get("delays") or [0]
        # "unrelated" traffic must not use a CAN id that belongs to one of the participating nodes
        own = {base + th["node"] for th in threads for base in (0x580, 0x600, 0x700, 0x80)}
        noise = [nz if (nz is None or nz[0] not in own) else None for nz in (case.get("noise") or [])]
        state = {"i": 0}

        def dispatch():
            while not stop.is_set() or hub.fifo:
                if hub.fifo:
                    i = state["i"]
                    state["i"] += 1
                    d = delays[i % len(delays)]
                    if d:
                        time.sleep(d / 1000.0)
                    if noise:
                        nz = noise[i % len(noise)]
                        if nz is not None:
                            fr = Frame(nz[0], bytes(nz[1]), ts=hub.now())
                            hub.log.append(fr)
                            hub._deliver(fr)
                    hub.pump(1)
                else:
                    time.sleep(0.0002)

        dth = threading.Thread(target=dispatch, daemon=True)
        dth.start()
        try:
            cts = [threading.Thread(target=work, args=(t,), daemon=True) for t in range(len(threads))]
            for c_ in cts:
                c_.start()
            for c_ in cts:
                c_.join(120)
                if c_.is_alive():
                    raise RuntimeError("client thread did not finish in dispatcher mode")
        finally:
            stop.set()
            dth.join(10)
    else:
        raise ValueError(mode)
    for (fr, e) in port_s.notify_errors + port_c.notify_errors:
        D.append(Discrepancy("C03/notify-raises", f"Network.notify raised {type(e).__name__}: {e}"))
    timeouts = [d for d in D if "No SDO response received" in d.detail]
    if timeouts and mode in ("dispatcher",):
        raise RuntimeError(f"inconclusive: time-out in a threaded mode: {timeouts[0]}")
    klass = f"{mode}/{len(threads)}thr"
    return Outcome(nontrivial, klass, D[:1])


_virt_counter = [0]


def _run_virtual(case, ent, nontrivial):
    import canopen
    _virt_counter[0] += 1
    chan = f"verif-c03-{threading.get_ident()}-{_virt_counter[0]}"
    D = []
    nets = []
    try:
        net_s = canopen.Network()
        net_s.NOTIFIER_CYCLE = 0.005
        net_s.connect(channel=chan, interface="virtual")
        nets.append(net_s)
        net_c = canopen.Network()
        net_c.NOTIFIER_CYCLE = 0.005
        net_c.connect(channel=chan, interface="virtual")
        nets.append(net_c)
        pairs = []
        for th in case["threads"]:
            local = canopen.LocalNode(th["node"], make_od(case["od"], case.get("od_source", "code")))
            net_s.add_node(local)
            remote = canopen.RemoteNode(th["node"], make_od(case["od"], case.get("od_source", "code")))
            net_c.add_node(remote)
            remote.sdo.RESPONSE_TIMEOUT = 5.0
            pairs.append((remote, local))
        lock = threading.Lock()

        def work(t):
            remote, local = pairs[t]
            local_D = []
            last = {}
            for k, op in enumerate(case["threads"][t]["ops"]):
                e = ent[op["e"] % len(ent)]
                index, sub, name, pname, top, dt = e
                tag = f"mode virtual thread {t} op {k} {index:04x}:{sub:02x} via {op['path']}"
                if op.get("partial") is not None:
                    continue
                try:
                    check_value(tag, dt, op["v"], get_var(remote.sdo, e[:5], op["path"]),
                                get_var(local.sdo, e[:5], op["path"]), local, index, sub, local_D)
                    last[(index, sub)] = (e, op["path"], op["v"])
                except Exception as ex:
                    local_D.append(Discrepancy("C03/raises", f"{tag}: {type(ex).__name__}: {ex}"))
                if local_D:
                    break
            if not local_D:
                final_sweep(f"mode virtual thread {t}", remote, local, last, local_D)
            with lock:
                D.extend(local_D)

        ths = [threading.Thread(target=work, args=(t,), daemon=True) for t in range(len(pairs))]
        for t_ in ths:
            t_.start()
        for t_ in ths:
            t_.join(120)
            if t_.is_alive():
                raise RuntimeError("client thread did not finish on the virtual bus")
    finally:
        for n_ in nets:
            try:
                n_.NOTIFIER_SHUTDOWN_TIMEOUT = 2.0
                n_.disconnect()
            except Exception:
                pass
    if any("No SDO response received" in d.detail for d in D):
        raise RuntimeError(f"inconclusive: time-out on the virtual bus: {D[0]}")
    return Outcome(True, f"virtual/{len(case['threads'])}thr", D[:1])


# ---- generation ------------------------------------------------------------------
def value_strategy(dt):
    if dt == rc.BOOLEAN:
        return st.booleans()
    if dt in rc.INTEGERS:
        lo, hi = rc.int_range(dt)
        w = rc.INTEGERS[dt]
        pts = {lo, hi, 0, 1, lo + 1, hi - 1}
        for k in range(0, w):
            for b in ((1 << k), -(1 << k)):
                for d in (-1, 0, 1):
                    if lo <= b + d <= hi:
                        pts.add(b + d)
        return st.one_of(st.sampled_from(sorted(pts)), st.integers(lo, hi))
    if dt == rc.REAL32:
        return st.one_of(st.floats(width=32, allow_nan=False),
                         st.sampled_from([float("inf"), float("-inf"), -0.0, 0.0, 1.401298464324817e-45,
                                          3.4028234663852886e38]))
    if dt == rc.REAL64:
        return st.one_of(st.floats(allow_nan=False),
                         st.sampled_from([float("inf"), float("-inf"), -0.0, 5e-324, 1.7976931348623157e308]))
    if dt == rc.VISIBLE_STRING:
        return st.text(st.characters(min_codepoint=0, max_codepoint=127), max_size=200).map(lambda s: s.rstrip("\0"))
    if dt == rc.UNICODE_STRING:
        return st.text(st.characters(min_codepoint=0, max_codepoint=0xFFFF, exclude_categories=["Cs"]),
                       max_size=100).map(lambda s: s.rstrip("\0"))
    return st.binary(max_size=200)


ALL_DTS = [rc.BOOLEAN] + sorted(rc.NUMERIC) + list(rc.STRINGS)
NAME_ALPHA = "abcdefghijklmnopqrstuvwxyzABCXYZ0123456789 _-"
INDEX = st.integers(0x2000, 0x9FFF)


@st.composite
def od_strategy(draw):
    n = draw(st.integers(1, 6))
    idxs = sorted(draw(st.sets(INDEX, min_size=n, max_size=n)))
    od = []
    for k, index in enumerate(idxs):
        name = f"o{k} " + draw(st.text(NAME_ALPHA, min_size=1, max_size=8)).strip()
        name = name.strip() or f"o{k}"
        if draw(st.booleans()):
            od.append({"kind": "var", "index": index, "name": name, "dt": draw(st.sampled_from(ALL_DTS))})
        else:
            subs = sorted(draw(st.sets(st.integers(1, 254), min_size=1, max_size=4)))
            od.append({"kind": draw(st.sampled_from(["record", "array"])), "index": index, "name": name,
                       "members": [{"sub": 0, "name": "count", "dt": rc.UNSIGNED8}] +
                                  [{"sub": s, "name": f"m{s} " + draw(st.text(NAME_ALPHA + "..", max_size=5)).strip(),
                                    "dt": draw(st.sampled_from(ALL_DTS))} for s in subs]})
            if od[-1]["kind"] == "array" and 1 not in subs:
                od[-1]["kind"] = "record"
            for m in od[-1]["members"]:
                m["name"] = m["name"].strip()
    return od


@st.composite
def case_strategy(draw, modes):
    od = draw(od_strategy())
    ent = flat_entries(od)
    mode = draw(st.sampled_from(modes))
    nthreads = 1 if mode == "inline" else draw(st.integers(2 if mode == "baton" else 1, 8 if mode == "baton" else 3))
    node_ids = draw(st.lists(st.integers(1, 127), min_size=nthreads, max_size=nthreads, unique=True))
    # shared dictionary object: few entries, so that one node's write precedes another node's first read of it
    shared = mode == "baton" and draw(st.booleans())
    threads = []
    for t in range(nthreads):
        ops = []
        for _ in range(draw(st.integers(1, 6 if mode != "inline" else 10))):
            e = draw(st.integers(0, min(1, len(ent) - 1) if shared else len(ent) - 1))
            dt = ent[e][5]
            ops.append({"e": e, "path": draw(st.sampled_from(PATHS)),
                        "v": draw(value_strategy(dt))})
            if mode == "inline" and draw(st.integers(0, 4)) == 0:
                ops[-1]["stale"] = draw(st.integers(1, 3))
            if draw(st.integers(0, 5)) == 0:
                # abandon an upload of something written before, half-way
                prev = draw(st.sampled_from(ops))
                ops.append({"e": prev["e"], "path": prev["path"], "partial": draw(st.integers(0, 12)),
                            "buf": draw(st.sampled_from([0, 0, 3, 1024]))})
        threads.append({"node": node_ids[t], "ops": ops})
    case = {"od": od, "mode": mode, "threads": threads,
            "od_source": draw(st.sampled_from(["code", "code", "eds"]))}
    if shared:
        case["shared_od"] = True
    if mode == "baton":
        case["order"] = draw(st.lists(st.integers(0, 7), min_size=0, max_size=200))
    if mode == "dispatcher":
        case["delays"] = draw(st.lists(st.sampled_from([0, 0, 0, 0.2, 1, 3]), min_size=1, max_size=8))
        case["noise"] = draw(st.lists(st.one_of(
            st.none(),
            st.tuples(st.sampled_from([0x000, 0x080, 0x181, 0x201, 0x581 + 100, 0x601 + 100, 0x701, 0x7E4, 0x1FFFFFFF]),
                      st.binary(min_size=2, max_size=8))), max_size=6))
    return case


def typed_od():
    od = []
    for k, dt in enumerate(ALL_DTS):
        od.append({"kind": "var", "index": 0x2000 + k, "name": rc.NAMES[dt], "dt": dt})
    od.append({"kind": "record", "index": 0x3000, "name": "Rec", "members":
               [{"sub": 0, "name": "count", "dt": rc.UNSIGNED8}] +
               [{"sub": k + 1, "name": "M " + rc.NAMES[dt], "dt": dt} for k, dt in enumerate(ALL_DTS)]})
    # member names as vendors write them
    od.append({"kind": "record", "index": 0x3001, "name": "Limits", "members":
               [{"sub": 0, "name": "count", "dt": rc.UNSIGNED8},
                {"sub": 1, "name": "Max. speed", "dt": rc.UNSIGNED16},
                {"sub": 2, "name": "Gain (approx.)", "dt": rc.REAL32},
                {"sub": 3, "name": "rev. 1.x name", "dt": rc.VISIBLE_STRING},
                {"sub": 4, "name": ".hidden", "dt": rc.INTEGER32}]})
    return od


def _some_value(dt, i):
    if dt == rc.BOOLEAN:
        return True
    if dt in rc.INTEGERS:
        return rc.int_range(dt)[1] - i
    if dt in rc.REALS:
        return 1.5 + i
    if dt in (rc.VISIBLE_STRING, rc.UNICODE_STRING):
        return f"member {i}"
    return bytes([i % 256]) * 9


def enum_cases(thorough):
    od = typed_od()
    ent = flat_entries(od)
    paths = PATHS
    # boundaries of every type, through every access path
    for e, en in enumerate(ent):
        dt = en[5]
        if dt == rc.BOOLEAN:
            vals = [False, True]
        elif dt in rc.INTEGERS:
            lo, hi = rc.int_range(dt)
            vals = sorted({lo, lo + 1, -1 if lo < 0 else 0, 0, 1, 127, 128, 255, 256, hi - 1, hi} &
                          set(range(lo, hi + 1)) if rc.INTEGERS[dt] <= 16 else
                          {lo, lo + 1, 0, 1, hi - 1, hi, hi >> 1, (hi >> 1) + 1})
        elif dt in rc.REALS:
            vals = [0.0, -0.0, 1.5, float("inf"), float("-inf"), -2.5e-45 if dt == rc.REAL32 else -5e-324]
            if dt == rc.REAL32:
                vals = [0.0, -0.0, 1.5, float("inf"), float("-inf"), 1.401298464324817e-45, 3.4028234663852886e38]
        elif dt == rc.VISIBLE_STRING:
            vals = ["", "a", "abcd", "abcde", "1234567", "12345678", "x" * 200, "\x00lead", "in\x00side"]
        elif dt == rc.UNICODE_STRING:
            vals = ["", "a", "ab", "abc", "﻿bom", "￾", "中文", "z" * 100]
        else:
            vals = [b"", b"\x00", b"\x01\x02\x03\x04", b"\x01\x02\x03\x04\x05", bytes(range(7)), bytes(range(8)),
                    bytes(200), bytes([255] * 199)]
        for k, p in enumerate(paths):
            if k == 0:
                yield {"od": od, "mode": "inline",
                       "threads": [{"node": 7, "ops": [{"e": e, "path": p, "v": v, "stale": j % 4} for j, v in enumerate(vals)]}]}
            yield {"od": od, "mode": "inline", "threads": [{"node": 7, "ops": [{"e": e, "path": p, "v": v} for v in vals]}],
                   "od_source": "eds" if (k + e) % 2 else "code"}
    # several members of one record / several objects written one after the other, then re-read
    rec = [i for i, en in enumerate(ent) if not en[4]]
    for a in range(0, len(rec) - 3, 3):
        ops = []
        for i in rec[a:a + 4]:
            dt = ent[i][5]
            v = {rc.BOOLEAN: True}.get(dt)
            if v is None:
                if dt in rc.INTEGERS:
                    v = rc.int_range(dt)[1] - i
                elif dt in rc.REALS:
                    v = 1.5 + i
                elif dt in (rc.VISIBLE_STRING, rc.UNICODE_STRING):
                    v = f"member {i}"
                else:
                    v = bytes([i]) * 9
            ops.append({"e": i, "path": ["sub", "dotted", "member", "name"][i % 4], "v": v})
        yield {"od": od, "mode": "inline", "threads": [{"node": 8, "ops": ops}]}
    # an upload abandoned half-way must not disturb the transfers that follow
    s_i = [i for i, en in enumerate(ent) if en[5] == rc.VISIBLE_STRING][0]
    d_i = [i for i, en in enumerate(ent) if en[5] == rc.DOMAIN][0]
    u_i = [i for i, en in enumerate(ent) if en[5] == rc.UNSIGNED64][0]
    for k in (0, 1, 7, 10):
        for buf in (0, 3, 1024):
            yield {"od": od, "mode": "inline", "threads": [{"node": 6, "ops": [
                {"e": s_i, "path": "name", "v": "Pump controller #7 (north hall)"},
                {"e": d_i, "path": "index", "v": bytes(range(40))},
                {"e": s_i, "path": "name", "partial": k, "buf": buf},
                {"e": d_i, "path": "index", "v": bytes(range(60, 90))},
                {"e": d_i, "path": "index", "partial": k, "buf": buf},
                {"e": u_i, "path": "index", "v": 0x1122334455667788},
                {"e": s_i, "path": "name", "v": "second text, long enough for segments"}]}]}
    # all values of the 8- and 16-bit types
    for dt in (rc.INTEGER8, rc.UNSIGNED8, rc.INTEGER16, rc.UNSIGNED16):
        e = [i for i, en in enumerate(ent) if en[5] == dt][0]
        lo, hi = rc.int_range(dt)
        step = 1 if thorough or hi - lo < 1000 else 97
        vals = list(range(lo, hi + 1, step))
        for a in range(0, len(vals), 128):
            yield {"od": od, "mode": "inline",
                   "threads": [{"node": 9, "ops": [{"e": e, "path": "index", "v": v} for v in vals[a:a + 128]]}]}
    # nodes of one device type created from one and the same ObjectDictionary object
    for src in ("code", "eds"):
        for a in range(0, len(ent), 5):
            mk = lambda off: [{"e": i, "path": "index", "v": _some_value(ent[i][5], i + off)} for i in range(a, min(a + 5, len(ent)))]
            yield {"od": od, "mode": "inline", "shared_od": True, "od_source": src,
                   "threads": [{"node": 21, "ops": mk(0)}, {"node": 22, "ops": mk(1)}, {"node": 23, "ops": mk(2)}]}
    # deterministic interleavings of two segmented transfers to different nodes
    sdt = [i for i, en in enumerate(ent) if en[5] == rc.DOMAIN][0]
    vdt = [i for i, en in enumerate(ent) if en[5] == rc.VISIBLE_STRING][0]
    for n in (5, 8, 15, 40):
        for pattern in ([0, 1], [0, 0, 1], [1, 0, 0, 1, 1], [0, 1, 1, 0]):
            yield {"od": od, "mode": "baton", "order": pattern * 40,
                   "threads": [{"node": 11, "ops": [{"e": sdt, "path": "index", "v": bytes([0xAA]) * n},
                                                    {"e": vdt, "path": "name", "v": "A" * n}]},
                               {"node": 12, "ops": [{"e": sdt, "path": "index", "v": bytes([0x55]) * (n + 3)},
                                                    {"e": vdt, "path": "name", "v": "b" * (n + 2)}]}]}


def search(ctx):
    thorough = ctx.tier == "thorough"
    ctx.enumerate(enum_cases(thorough), "type boundaries x access paths; 8/16-bit values; fixed 2-thread interleavings")
    ctx.hypothesis(case_strategy(["inline"]), 4000 if thorough else 1000, salt=1)
    ctx.hypothesis(case_strategy(["baton"]), 1500 if thorough else 300, salt=2)
    ctx.hypothesis(case_strategy(["dispatcher"]), 300 if thorough else 40, salt=3)
    ctx.hypothesis(case_strategy(["virtual"]), 150 if thorough else 20, salt=4)
