"""C03 - typed values survive the client -> bus -> server -> client round trip.

SUT: the whole stack: RemoteNode.sdo[...] typed accessors on one network,
LocalNode(s) on another, same generated dictionary on both.

Delivery modes
  inline      responses are delivered inside the send call (no threads)
  baton       2..8 client threads, one per node id, sharing ONE client network;
              the harness owns the schedule: exactly one thread runs at a time
              and control may move to another thread before every request
              frame, following an order list drawn by Hypothesis (deterministic,
              replayable frame-level interleavings of concurrent transfers)
  baton + "deferred": true
              as baton, but no frame is delivered inside the send call: it waits on
              the bus, the sender yields once more, and the thread that runs next
              delivers everything pending (frames of different CAN ids in an order
              the case draws, per id in FIFO order) - requests to several nodes are
              in flight at the same time and a response reaches its client's queue
              from another thread, still deterministic and replayable
  dispatcher  frames wait in a FIFO; a dispatcher thread delivers them later
              with drawn delays, interleaved with drawn unrelated traffic
  virtual     python-can's threaded virtual bus with real Notifier threads
"""
import math
import struct
import threading
import time

from hypothesis import strategies as st

from harness import refcodec as rc
from harness.core import Discrepancy, Outcome
from harness.odutil import build_od as _build_od_code
from harness.simbus import Frame, Hub

PROPERTY = "C03"
LEVEL = "exploration"
RULE = ("case = dictionary (variables, records and arrays over all 19 numeric types, BOOLEAN, REAL32/64, VISIBLE/"
        "UNICODE/OCTET strings, DOMAIN) + per client thread a node id and a list of (entry, access path in "
        "{index, name, 'Record.Member', [index][sub], [index][member name], get_variable(index|name, sub), "
        "Mapping protocol items()/get() of the record}, typed value) + delivery mode "
        "(inline | baton-scheduled threads with a drawn frame-level order, responses delivered inside the send "
        "call | baton-deferred: every frame waits on the bus, the sender gives the baton away and the thread that "
        "runs next delivers what is pending, different CAN ids in a drawn order, so requests to several nodes are "
        "in flight together | dispatcher thread with drawn delays and unrelated traffic | python-can virtual bus). "
        "Values: all type boundaries, +-2^k+-1, random; all 8/16-bit values in the thorough tier; floats incl. inf, "
        "-0.0, subnormals, NaN (quiet/negative/payload; for a NaN the stored bytes must be a NaN pattern of the "
        "type's width and both read-backs NaN - sign and payload are not pinned); UNICODE strings over all scalar "
        "values incl. beyond the BMP (UTF-16 surrogate pairs), strings of 0..200 bytes. Names: top-level object, "
        "record, array and member names may contain '.', and an object may be named like '<record>.<member>' of "
        "another object (by-name access must reach the object that carries the name; the qualified spelling is "
        "used for a member only where it is unambiguous). Arrays: also elements beyond the declared members "
        "(typed like element 1), addressed by sub-index through every path. Stray responses on the client's own "
        "channel (8 kinds: upload/download/segment responses, aborts) arrive at every moment the client is not "
        "waiting: before an op, between write and read-back, right after the k-th response of a running "
        "(segmented) transfer, before an abandoned upload, before the final reads. Late answers (inline mode): the "
        "node's answer to a read or write of object B is kept back until the client has timed out, and reaches the "
        "client inside a later op on another object A (other index, other sub-index of the same record, or both) - "
        "right before the answer to that op's 1st..9th request frame, i.e. after the client discarded what was "
        "stale; the later op is a read of A, or a write of A with its read-back; then the op is repeated "
        "undisturbed (and B is written and checked again when the slow request was a write). There a transfer may "
        "fail with SdoCommunicationError, but one that reports success must have moved the right value (read == "
        "value written last; node holds exactly the encoding). Oracle: remote.raw == v, "
        "local.raw == v, data_store bytes == independent CiA 301 "
        "encoding; each thread reads back only its own values; at the end every entry still reads as written last; "
        "in cases where all nodes were created from ONE "
        "ObjectDictionary object, a node's entry read before that node's first write answers exactly like a "
        "node nobody wrote to (differential against a pristine rig). The concurrent enumerations run first, in a "
        "fresh process state. Non-trivial = boundary value, payload > 4 "
        "bytes, or a non-inline mode; distinct = canonical JSON.")
ASSUMPTIONS = [
    "thread interleavings are explored at frame granularity by a harness-owned schedule (one runnable thread "
    "at a time); finer-grained races inside a single callback are only sampled by the dispatcher/virtual modes",
    "in threaded modes RESPONSE_TIMEOUT is 5 s (>1000x the injected delays); a time-out there is reported as "
    "a harness error, not as a violation; in the baton modes no wait ever depends on time (the response is in the "
    "client's queue before the client starts waiting)",
    "strings carry no trailing NUL (decode_raw documents stripping them); REAL32 values are binary32-representable; "
    "REAL32 NaNs are quiet ones",
    "a response-like frame on the client's own channel counts as unrelated traffic only while the client has no "
    "request outstanding (the library discards such frames before its next request); the one exception are the "
    "late-answer histories: there the frame is the node's own, genuine answer to the client's earlier request for "
    "ANOTHER object (it carries that object's index/sub-index or is a download/segment confirmation), the "
    "disturbed transfer may fail with an SDO communication or abort error, and a late answer for the very same object is not "
    "used with a write in between (SDO has no sequence numbers: it cannot be told from a fresh one); the time-out "
    "of the slow request is certain (its answer is kept back), no wait depends on speed; NMT commands in the drawn "
    "noise address nodes that do not take part (an NMT command to a participating node is not unrelated)",
    "the 'Record.Member' spelling is not used where it is ambiguous (record name containing '.', or an object "
    "carrying the qualified name itself); undeclared array elements have no name and are addressed by sub-index",
]
BUDGET = {"quick": 150, "thorough": 420}


class Baton:
    """Cooperative scheduler: one thread runs at a time; a switch may happen
    at every yield point, chosen from `order`."""

    def __init__(self, n, order):
        self.cv = threading.Condition()
        self.n = n
        self.order = list(order)
        self.pos = 0
        self.current = None        # thread index that may run
        self.parked = set()
        self.finished = set()
        self.switches = 0

    def _pick(self):
        alive = [t for t in range(self.n) if t not in self.finished]
        if not alive:
            self.current = None
            return
        if self.pos < len(self.order):
            choice = alive[self.order[self.pos] % len(alive)]
            self.pos += 1
        else:
            choice = alive[self.pos % len(alive)]
            self.pos += 1
        if choice != self.current:
            self.switches += 1
        self.current = choice

    def start_all(self):
        with self.cv:
            ok = self.cv.wait_for(lambda: len(self.parked) + len(self.finished) == self.n, timeout=30)
            if not ok:
                raise RuntimeError("baton: threads did not reach the start line")
            self._pick()
            self.cv.notify_all()

    def yield_point(self, t):
        with self.cv:
            self.parked.add(t)
            if self.current == t:
                self._pick()
            self.cv.notify_all()
            ok = self.cv.wait_for(lambda: self.current == t, timeout=60)
            if not ok:
                raise RuntimeError("baton: scheduler stalled")
            self.parked.discard(t)

    def finish(self, t):
        with self.cv:
            self.finished.add(t)
            self.parked.discard(t)
            if self.current == t or self.current is None:
                self._pick()
            self.cv.notify_all()


_tls = threading.local()


def make_network_class():
    import canopen

    class ScheduledNetwork(canopen.Network):
        """Network.send_message is documented as overridable; the override only
        adds a scheduling point in front of the real method."""
        baton = None
        deferred = None       # baton mode with deferred delivery: callable that delivers what waits on the bus
        after_send = None     # inline mode: callable(can_id) run when the send (and its inline delivery) is over
        before_send = None    # inline mode: callable(can_id) run right before the frame goes out

        def send_message(self, can_id, data, remote=False):
            t = getattr(_tls, "index", None)
            if self.baton is not None and t is not None:
                self.baton.yield_point(t)
            if self.before_send is not None:
                self.before_send(can_id)
            r = super().send_message(can_id, data, remote)
            if self.baton is not None and t is not None and self.deferred is not None:
                # the frame waits on the bus; other threads may send theirs before anything is delivered
                self.baton.yield_point(t)
                self.deferred()
            if self.after_send is not None:
                self.after_send(can_id)
            return r

    return ScheduledNetwork


PATHS = ["index", "name", "dotted", "sub", "member", "getvar", "getvar_name", "values"]


def get_var(sdo, od_entry, path):
    index, sub, name, parent_name, top = od_entry[:5]
    dotted_ok = od_entry[6] if len(od_entry) > 6 else True
    if top:
        if path in ("getvar", "values"):
            return sdo.get_variable(index)
        if path == "getvar_name":
            return sdo.get_variable(name)
        return sdo[index] if path in ("index", "sub", "member") else sdo[name]
    if name is None:
        # element of an array beyond the declared members: it has no declared name, only a sub-index
        if path in ("index", "sub", "member"):
            return sdo[index][sub]
        if path in ("name", "dotted"):
            return sdo[parent_name][sub]
    if path == "index" or path == "sub":
        return sdo[index][sub]
    if path == "member":
        return sdo[index][name]
    if path == "name" or (path == "dotted" and not dotted_ok):
        return sdo[parent_name][name]
    if path == "getvar":
        return sdo.get_variable(index, sub)
    if path == "getvar_name":
        return sdo.get_variable(parent_name, sub)
    if path == "values":
        # Mapping protocol of SdoRecord (arrays would need the element count from the device first)
        obj = sdo.get(index)
        if type(obj).__name__ == "SdoRecord":
            for s, v in obj.items():
                if s == sub:
                    return v
            raise KeyError(f"sub-index {sub} not among the items() of {index:#x}")
        return obj.get(sub)
    return sdo[f"{parent_name}.{name}"]


def flat_entries(od):
    """(index, sub, name, parent name, top-level?, data type, 'Record.Member' spelling usable?) per entry.
    The qualified spelling is only used where it is unambiguous: the record's own name has no '.', and no
    object is called '<record>.<member>' itself. Arrays may list "extra_subs": elements beyond the declared
    members (typed like element 1, CiA 301 arrays are homogeneous; they have no declared name)."""
    out = []
    tops = {o["name"] for o in od}
    for o in od:
        if o["kind"] == "var":
            out.append((o["index"], 0, o["name"], None, True, o["dt"], True))
        else:
            declared = set()
            for m in o["members"]:
                declared.add(m["sub"])
                if m["sub"] == 0:
                    continue
                ok = "." not in o["name"] and f"{o['name']}.{m['name']}" not in tops
                out.append((o["index"], m["sub"], m["name"], o["name"], False, m["dt"], ok))
            if o["kind"] == "array" and 1 in declared:
                dt1 = [m["dt"] for m in o["members"] if m["sub"] == 1][0]
                for s in o.get("extra_subs") or []:
                    if 1 <= s <= 254 and s not in declared:
                        declared.add(s)
                        out.append((o["index"], s, None, o["name"], False, dt1, False))
    return out


def val(v):
    """Typed value of an op: NaNs travel through the JSON case as {"nan": <binary64 bits, hex>}."""
    if isinstance(v, dict) and "nan" in v:
        return struct.unpack("<d", int(v["nan"], 16).to_bytes(8, "little"))[0]
    return v


def _is_nan(dt, v):
    return dt in rc.REALS and isinstance(v, float) and math.isnan(v)


def stored_ok(dt, v, stored):
    if stored is None:
        return False
    stored = bytes(stored)
    if _is_nan(dt, v):
        # every NaN pattern of the right width is an encoding of NaN (sign and payload are not pinned)
        w = rc.REALS[dt]
        mb = 23 if w == 32 else 52
        bits = int.from_bytes(stored, "little")
        return len(stored) == w // 8 and (bits >> mb) & ((1 << (w - 1 - mb)) - 1) == (1 << (w - 1 - mb)) - 1 \
            and bits & ((1 << mb) - 1) != 0
    return stored == rc.encode(dt, v)


def want_hex(dt, v):
    return "a NaN pattern" if _is_nan(dt, v) else rc.encode(dt, v).hex()


STALE_FRAMES = [
    bytes([0x43, 0x00, 0x10, 0x00, 0x91, 0x01, 0x0F, 0x00]),   # expedited upload response for 0x1000:0
    bytes([0x60, 0x00, 0x10, 0x00, 0, 0, 0, 0]),               # download confirmation
    bytes([0x80, 0x00, 0x10, 0x00, 0x00, 0x00, 0x02, 0x06]),   # abort: object does not exist (node scan)
    bytes([0x41, 0x08, 0x10, 0x00, 0x10, 0, 0, 0]),            # segmented upload initiate, 16 bytes
    bytes([0x00]) + b"abcdefg",                                # upload segment
    bytes([0x11]) + b"hijklmn",                                # last upload segment, toggled
    bytes([0x20, 0, 0, 0, 0, 0, 0, 0]),                        # download segment confirmation
    bytes([0x4F, 0x18, 0x10, 0x01, 0x2A, 0, 0, 0]),            # one-byte expedited upload response
]


def stale_frame(node, kind, j):
    """j-th stray response on the SDO channel of `node`; kind 0 is the classic left-over of a read of 0x1000."""
    if not kind:
        data = bytes([0x43, 0x00, 0x10, 0x00, 0x91 + j, 0x01, 0x0F, 0x00])
    else:
        data = STALE_FRAMES[(kind + j) % len(STALE_FRAMES)]
    return Frame(0x580 + node, data)


def check_value(tag, dt, v, remote_var, local_var, local_node, index, sub, D, between=None):
    def bad(kind, detail):
        D.append(Discrepancy(f"C03/{kind}", f"{tag}: {detail}"))
    remote_var.raw = v
    stored = local_node.data_store.get(index, {}).get(sub)
    if not stored_ok(dt, v, stored):
        bad("stored-bytes", f"{rc.NAMES[dt]} {v!r}: local node holds "
                            f"{bytes(stored).hex() if stored is not None else None} want {want_hex(dt, v)}")
        return
    if between is not None:
        between()
    back = remote_var.raw
    if not _same(dt, back, v):
        bad("remote-readback", f"{rc.NAMES[dt]} wrote {v!r} read back {back!r}")
        return
    loc = local_var.raw
    if not _same(dt, loc, v):
        bad("local-readback", f"{rc.NAMES[dt]} wrote {v!r}, local side reads {loc!r}")


def late_answer(hub, net_c, remote, local, ent, e, op, v, nid, last, tag, D):
    """The node answers one request too late: the client has given up (time-out) and the answer reaches the
    client during a LATER transfer - after the client has sent the `at`-th request frame of that transfer's
    op and before the node's answer to that frame. The later transfer concerns another object.

    The client cannot be blamed for failing the disturbed transfer (SdoCommunicationError is accepted), but a
    transfer that reports success must have moved the right value: a read returns the value written last, a
    write leaves exactly the encoding in the node. Afterwards the caller repeats the op undisturbed."""
    import canopen
    la = op["late"]
    e2 = ent[la["e2"] % len(ent)]
    index, sub, dt = e[0], e[1], e[5]
    i2, s2, dt2 = e2[0], e2[1], e2[5]
    tag = f"{tag} [late answer of {'write' if la.get('w') else 'read'} {i2:04x}:{s2:02x} at request {la['at']}]"
    slow_write = bool(la.get("w")) or (i2, s2) not in last
    disturbed_write = (index, sub) not in last or bool(la.get("dw"))
    if (i2, s2) == (index, sub) and (slow_write or disturbed_write):
        # an old answer for the very same object cannot be told from a new one (SDO has no sequence numbers)
        return
    rv = get_var(remote.sdo, e, op["path"])
    rv2 = get_var(remote.sdo, e2, "index")
    lv2 = get_var(local.sdo, e2, "index")
    v2 = val(la.get("v2"))
    held = []
    rsp_id = 0x580 + nid

    def hold(fr, hub_):
        if fr.can_id == rsp_id:
            held.append(bytes(fr.data))
            return []
        return [fr]

    SDO_ERRORS = (canopen.SdoCommunicationError, canopen.SdoAbortedError)   # 'a communication or abort error'
    # 1. the slow request: its answer is kept back, the client times out (nothing can arrive: no race)
    keep = remote.sdo.RESPONSE_TIMEOUT
    hub.filter = hold
    remote.sdo.RESPONSE_TIMEOUT = 0.002
    try:
        if slow_write:
            rv2.raw = v2
        else:
            rv2.raw
    except SDO_ERRORS:
        pass
    finally:
        hub.filter = None
        remote.sdo.RESPONSE_TIMEOUT = keep
    if slow_write:
        last.pop((i2, s2), None)     # whether the node took the value is not pinned by anything
    # 2. the next op on another object; the late answer arrives right after its `at`-th request has been
    #    prepared (stale answers were discarded) and before the real answer
    state = {"n": 0}

    def release():
        frames, held[:] = list(held), []
        for data in frames:
            hub.inject(Frame(rsp_id, data))

    def before_send(can_id):
        if can_id == 0x600 + nid:
            state["n"] += 1
            if state["n"] == la["at"]:
                release()

    net_c.before_send = before_send
    try:
        if disturbed_write:
            try:
                rv.raw = v
            except SDO_ERRORS:
                last.pop((index, sub), None)
            else:
                stored = local.data_store.get(index, {}).get(sub)
                if not stored_ok(dt, v, stored):
                    D.append(Discrepancy("C03/late-answer/stored-bytes",
                                         f"{tag}: write of {rc.NAMES[dt]} {v!r} reported success, local node holds "
                                         f"{bytes(stored).hex() if stored is not None else None} want {want_hex(dt, v)}"))
                    return
                last[(index, sub)] = (e, op["path"], v)
        if (index, sub) in last:
            want = last[(index, sub)][2]
            try:
                back = rv.raw
            except SDO_ERRORS:
                pass
            except Exception as ex:
                # e.g. the codec choking on another object's bytes
                D.append(Discrepancy("C03/late-answer/read-raises",
                                     f"{tag}: {rc.NAMES[dt]} written last {want!r}: {type(ex).__name__}: {ex} "
                                     f"({i2:04x}:{s2:02x} was the object of the late answer)"))
                return
            else:
                if not _same(dt, back, want):
                    D.append(Discrepancy("C03/late-answer/remote-readback",
                                         f"{tag}: {rc.NAMES[dt]} written last {want!r}, the read returns {back!r} "
                                         f"({i2:04x}:{s2:02x} was the object of the late answer)"))
                    return
    finally:
        net_c.before_send = None
        release()       # not reached: the answer arrives while the client is idle
    # 3. the object of the slow write is settled again, undisturbed
    if slow_write:
        check_value(tag + " afterwards", dt2, v2, rv2, lv2, local, i2, s2, D)
        if not D:
            last[(i2, s2)] = (e2, "index", v2)


def final_sweep(tag, remote, local, last, D, before_read=None):
    """Every entry still holds the value written to it last - also after later writes to
    other entries (e.g. other members of the same record)."""
    for (index, sub), (e, path, v) in last.items():
        dt = e[5]
        try:
            stored = local.data_store.get(index, {}).get(sub)
            if not stored_ok(dt, v, stored):
                D.append(Discrepancy("C03/final/stored-bytes",
                                     f"{tag}: {index:04x}:{sub:02x} {rc.NAMES[dt]} last written {v!r}: local node "
                                     f"holds {bytes(stored).hex() if stored is not None else None} at the end"))
                return
            if before_read is not None:
                before_read()
            back = get_var(remote.sdo, e, path).raw
            if not _same(dt, back, v):
                D.append(Discrepancy("C03/final/remote-readback",
                                     f"{tag}: {index:04x}:{sub:02x} {rc.NAMES[dt]} last written {v!r}, reads "
                                     f"{back!r} at the end"))
                return
        except Exception as ex:
            D.append(Discrepancy("C03/final/raises", f"{tag}: {index:04x}:{sub:02x}: {type(ex).__name__}: {ex}"))
            return


def _same(dt, a, b):
    if dt in rc.REALS:
        return isinstance(a, float) and rc.float_bits_equal(a, float(b))
    if dt == rc.BOOLEAN:
        return a is bool(b)
    if dt in (rc.OCTET_STRING, rc.DOMAIN):
        return isinstance(a, (bytes, bytearray)) and bytes(a) == bytes(b)
    if dt in rc.INTEGERS:
        return isinstance(a, int) and not isinstance(a, bool) and a == b
    return isinstance(a, str) and a == b


def make_od(spec, source):
    """The dictionary of a node: built in code, or (source='eds') imported from EDS text that an
    independent writer produced from the same description."""
    if source == "eds":
        import io

        import canopen
        from harness.c02 import eds_safe, render_eds
        if eds_safe(spec):
            fp = io.StringIO(render_eds(spec, False))
            fp.name = "generated.eds"
            return canopen.import_od(fp, 1)
    return _build_od_code(spec)


def pristine_reads(od_spec, source, ent):
    """What a node that nobody has written to answers for every entry: value, or abort code."""
    import canopen
    hub = Hub()
    port_s = hub.port("server")
    net_s = canopen.Network(bus=port_s)
    port_s.network = net_s
    port_c = hub.port("client")
    net_c = canopen.Network(bus=port_c)
    port_c.network = net_c
    net_s.add_node(canopen.LocalNode(1, make_od(od_spec, source)))
    remote = canopen.RemoteNode(1, make_od(od_spec, source))
    net_c.add_node(remote)
    remote.sdo.RESPONSE_TIMEOUT = 0.05
    out = {}
    for e in ent:
        try:
            out[(e[0], e[1])] = ("value", get_var(remote.sdo, e, "index").raw)
        except canopen.SdoAbortedError as ex:
            out[(e[0], e[1])] = ("abort", ex.code)
    return out


def run_case(case) -> Outcome:
    import canopen
    mode = case["mode"]
    od_spec = case["od"]
    ent = flat_entries(od_spec)
    threads = case["threads"]
    D = []
    lock = threading.Lock()
    nontrivial = mode != "inline"
    for th in threads:
        for op in th["ops"]:
            if op.get("partial") is not None:
                nontrivial = True
                continue
            if op.get("late"):
                nontrivial = True
            dt = ent[op["e"] % len(ent)][5]
            v = val(op["v"])
            if dt in rc.INTEGERS:
                lo, hi = rc.int_range(dt)
                if v in (lo, hi) or abs(v) > 255:
                    nontrivial = True
            elif dt in rc.REALS or (hasattr(v, "__len__") and len(rc.encode(dt, v)) > 4):
                nontrivial = True

    if mode == "virtual":
        return _run_virtual(case, ent, nontrivial)

    hub = Hub()
    NetCls = make_network_class()
    port_s = hub.port("server")
    net_s = canopen.Network(bus=port_s)
    port_s.network = net_s
    port_c = hub.port("client")
    net_c = NetCls(bus=port_c)
    port_c.network = net_c
    pairs = []
    # shared_od: the nodes are of one device type and were all given the SAME ObjectDictionary object (one for
    # the local nodes, one for the remote ones), the way an application that loads the EDS once does it
    shared = bool(case.get("shared_od")) and mode in ("inline", "baton")
    pristine = pristine_reads(od_spec, case.get("od_source", "code"), ent) if shared else None
    od_l = make_od(od_spec, case.get("od_source", "code")) if shared else None
    od_r = make_od(od_spec, case.get("od_source", "code")) if shared else None
    for th in threads:
        nid = th["node"]
        local = canopen.LocalNode(nid, od_l if shared else make_od(od_spec, case.get("od_source", "code")))
        net_s.add_node(local)
        remote = canopen.RemoteNode(nid, od_r if shared else make_od(od_spec, case.get("od_source", "code")))
        net_c.add_node(remote)
        remote.sdo.RESPONSE_TIMEOUT = 5.0 if mode != "inline" else 0.05
        pairs.append((remote, local))

    def work(t):
        remote, local = pairs[t]
        local_D = []
        last = {}
        for k, op in enumerate(threads[t]["ops"]):
            e = ent[op["e"] % len(ent)]
            index, sub, name, pname, top, dt = e[:6]
            v = val(op.get("v"))
            nid = threads[t]["node"]
            tag = f"mode {mode} thread {t} node {nid} op {k} {index:04x}:{sub:02x} via {op['path']}"
            kind = op.get("stale_kind", 0)

            def stale(n, kind=kind, nid=nid):
                # responses nobody is waiting for arrive on this client's channel while it is idle (what a
                # node scan or another master's read of object 0x1000 leaves behind): unrelated traffic
                for j in range(n):
                    hub.inject(stale_frame(nid, kind, j))

            if mode == "inline" and op.get("stale"):
                stale(op["stale"])
            net_c.after_send = None
            if mode == "inline" and op.get("stale_seg"):
                # ... or right after one of the responses of a running transfer, i.e. between two of its
                # requests (the client is not waiting for anything at that moment either)
                sent = {"n": 0}

                def after_send(can_id, sent=sent, at=op["stale_seg"], stale=stale):
                    sent["n"] += 1
                    if sent["n"] == at:
                        stale(1)
                net_c.after_send = after_send
            between = None
            if mode == "inline" and op.get("stale_rb"):
                between = (lambda n=op["stale_rb"], stale=stale: stale(n))
            if op.get("partial") is not None:
                # an upload through the stream interface that the caller does not read to the end
                if (index, sub) in last:
                    try:
                        with get_var(remote.sdo, e, op["path"]).open("rb", buffering=op.get("buf", 0)) as f:
                            f.read(op["partial"])
                    except Exception as ex:
                        local_D.append(Discrepancy("C03/partial-read-raises", f"{tag}: {type(ex).__name__}: {ex}"))
                        break
                    finally:
                        net_c.after_send = None
                continue
            try:
                rv = get_var(remote.sdo, e, op["path"])
                lv = get_var(local.sdo, e, op["path"])
                if mode == "inline" and not shared and op.get("late"):
                    late_answer(hub, net_c, remote, local, ent, e, op, v, nid, last, tag, local_D)
                    if local_D:
                        break
                if shared and (index, sub) not in last:
                    # nothing was written to this entry of THIS node yet: it must answer like a node that was
                    # never written to at all, whatever the other nodes have received meanwhile
                    try:
                        got = ("value", rv.raw)
                    except canopen.SdoAbortedError as ex:
                        got = ("abort", ex.code)
                    want = pristine[(index, sub)]
                    if got[0] != want[0] or (got[0] == "abort" and got[1] != want[1]) or \
                            (got[0] == "value" and not _same(dt, got[1], want[1])):
                        local_D.append(Discrepancy("C03/other-nodes-data", f"{tag}: read before this node's first "
                                                   f"write gives {got!r}; an untouched node gives {want!r}"))
                        break
                check_value(tag, dt, v, rv, lv, local, index, sub, local_D, between)
                last[(index, sub)] = (e, op["path"], v)
            except Exception as ex:
                local_D.append(Discrepancy("C03/raises", f"{tag}: {rc.NAMES[dt]} {v!r}: "
                                                         f"{type(ex).__name__}: {ex}"))
            finally:
                net_c.after_send = None
            if local_D:
                break
        if not local_D:
            before_read = None
            if mode == "inline" and case.get("stale_final"):
                before_read = (lambda n=case["stale_final"], nid=threads[t]["node"], kind=case.get("stale_kind", 0):
                               [hub.inject(stale_frame(nid, kind, j)) for j in range(n)])
            final_sweep(f"mode {mode} thread {t} node {threads[t]['node']}", remote, local, last, local_D,
                        before_read)
        with lock:
            D.extend(local_D)

    if mode == "inline":
        for t in range(len(threads)):
            work(t)
    elif mode == "baton":
        baton = Baton(len(threads), case.get("order", []))
        net_c.baton = baton
        if case.get("deferred"):
            # responses are not delivered inside the send call: every frame waits on the bus, the sender gives
            # the baton away, and whichever thread runs next delivers what is pending - the responses of
            # different nodes in an order the case chooses (per CAN id the order of the frames is kept)
            hub.queued = True
            picks = case.get("deliver") or [0]
            dstate = {"i": 0}

            def deliver_pending():
                while hub.fifo:
                    firsts, seen = [], set()
                    for i_, f_ in enumerate(hub.fifo):
                        if f_.can_id not in seen:
                            seen.add(f_.can_id)
                            firsts.append(i_)
                    j_ = firsts[picks[dstate["i"] % len(picks)] % len(firsts)]
                    dstate["i"] += 1
                    fr_ = hub.fifo[j_]
                    del hub.fifo[j_]
                    hub._deliver(fr_)
            net_c.deferred = deliver_pending

        def runner(t):
            _tls.index = t
            try:
                baton.yield_point(t)
                work(t)
            finally:
                baton.finish(t)

        ths = [threading.Thread(target=runner, args=(t,), daemon=True) for t in range(len(threads))]
        for th_ in ths:
            th_.start()
        baton.start_all()
        for th_ in ths:
            th_.join(90)
            if th_.is_alive():
                raise RuntimeError("baton-scheduled client thread did not finish")
        if hub.fifo:
            raise RuntimeError("baton: frames left on the bus after all threads finished")
    elif mode == "dispatcher":
        hub.queued = True
        stop = threading.Event()
        delays = case.get("delays") or [0]
        # "unrelated" traffic must not use a CAN id that belongs to one of the participating nodes
        own = {base + th["node"] for th in threads for base in (0x580, 0x600, 0x700, 0x80)}
        noise = [nz if (nz is None or nz[0] not in own) else None for nz in (case.get("noise") or [])]
        # ... and an NMT command is only unrelated when it addresses some other node (not all nodes, not ours)
        nodes = {th["node"] for th in threads}
        noise = [None if (nz is not None and nz[0] == 0 and (len(nz[1]) < 2 or bytes(nz[1])[1] == 0
                                                             or bytes(nz[1])[1] in nodes)) else nz for nz in noise]
        state = {"i": 0}

        def dispatch():
            while not stop.is_set() or hub.fifo:
                if hub.fifo:
                    i = state["i"]
                    state["i"] += 1
                    d = delays[i % len(delays)]
                    if d:
                        time.sleep(d / 1000.0)
                    if noise:
                        nz = noise[i % len(noise)]
                        if nz is not None:
                            fr = Frame(nz[0], bytes(nz[1]), ts=hub.now())
                            hub.log.append(fr)
                            hub._deliver(fr)
                    hub.pump(1)
                else:
                    time.sleep(0.0002)

        dth = threading.Thread(target=dispatch, daemon=True)
        dth.start()
        try:
            cts = [threading.Thread(target=work, args=(t,), daemon=True) for t in range(len(threads))]
            for c_ in cts:
                c_.start()
            for c_ in cts:
                c_.join(120)
                if c_.is_alive():
                    raise RuntimeError("client thread did not finish in dispatcher mode")
        finally:
            stop.set()
            dth.join(10)
    else:
        raise ValueError(mode)
    for (fr, e) in port_s.notify_errors + port_c.notify_errors:
        D.append(Discrepancy("C03/notify-raises", f"Network.notify raised {type(e).__name__}: {e}"))
    timeouts = [d for d in D if "No SDO response received" in d.detail]
    if timeouts and mode in ("dispatcher",):
        raise RuntimeError(f"inconclusive: time-out in a threaded mode: {timeouts[0]}")
    klass = f"{mode}{'-deferred' if mode == 'baton' and case.get('deferred') else ''}/{len(threads)}thr"
    if mode == "inline" and not shared and any(op.get("late") for th in threads for op in th["ops"]):
        klass += "/late-answer"
    return Outcome(nontrivial, klass, D[:1])


_virt_counter = [0]


def _run_virtual(case, ent, nontrivial):
    import canopen
    _virt_counter[0] += 1
    chan = f"verif-c03-{threading.get_ident()}-{_virt_counter[0]}"
    D = []
    nets = []
    try:
        net_s = canopen.Network()
        net_s.NOTIFIER_CYCLE = 0.005
        net_s.connect(channel=chan, interface="virtual")
        nets.append(net_s)
        net_c = canopen.Network()
        net_c.NOTIFIER_CYCLE = 0.005
        net_c.connect(channel=chan, interface="virtual")
        nets.append(net_c)
        pairs = []
        for th in case["threads"]:
            local = canopen.LocalNode(th["node"], make_od(case["od"], case.get("od_source", "code")))
            net_s.add_node(local)
            remote = canopen.RemoteNode(th["node"], make_od(case["od"], case.get("od_source", "code")))
            net_c.add_node(remote)
            remote.sdo.RESPONSE_TIMEOUT = 5.0
            pairs.append((remote, local))
        lock = threading.Lock()

        def work(t):
            remote, local = pairs[t]
            local_D = []
            last = {}
            for k, op in enumerate(case["threads"][t]["ops"]):
                e = ent[op["e"] % len(ent)]
                index, sub, name, pname, top, dt = e[:6]
                tag = f"mode virtual thread {t} op {k} {index:04x}:{sub:02x} via {op['path']}"
                if op.get("partial") is not None:
                    continue
                try:
                    check_value(tag, dt, val(op["v"]), get_var(remote.sdo, e, op["path"]),
                                get_var(local.sdo, e, op["path"]), local, index, sub, local_D)
                    last[(index, sub)] = (e, op["path"], val(op["v"]))
                except Exception as ex:
                    local_D.append(Discrepancy("C03/raises", f"{tag}: {type(ex).__name__}: {ex}"))
                if local_D:
                    break
            if not local_D:
                final_sweep(f"mode virtual thread {t}", remote, local, last, local_D)
            with lock:
                D.extend(local_D)

        ths = [threading.Thread(target=work, args=(t,), daemon=True) for t in range(len(pairs))]
        for t_ in ths:
            t_.start()
        for t_ in ths:
            t_.join(120)
            if t_.is_alive():
                raise RuntimeError("client thread did not finish on the virtual bus")
    finally:
        for n_ in nets:
            try:
                n_.NOTIFIER_SHUTDOWN_TIMEOUT = 2.0
                n_.disconnect()
            except Exception:
                pass
    if any("No SDO response received" in d.detail for d in D):
        raise RuntimeError(f"inconclusive: time-out on the virtual bus: {D[0]}")
    return Outcome(True, f"virtual/{len(case['threads'])}thr", D[:1])


# ---- generation ------------------------------------------------------------------
def value_strategy(dt):
    if dt == rc.BOOLEAN:
        return st.booleans()
    if dt in rc.INTEGERS:
        lo, hi = rc.int_range(dt)
        w = rc.INTEGERS[dt]
        pts = {lo, hi, 0, 1, lo + 1, hi - 1}
        for k in range(0, w):
            for b in ((1 << k), -(1 << k)):
                for d in (-1, 0, 1):
                    if lo <= b + d <= hi:
                        pts.add(b + d)
        return st.one_of(st.sampled_from(sorted(pts)), st.integers(lo, hi))
    if dt == rc.REAL32:
        return st.one_of(st.floats(width=32, allow_nan=True),
                         st.sampled_from([float("inf"), float("-inf"), -0.0, 0.0, 1.401298464324817e-45,
                                          3.4028234663852886e38] + [val(n) for n in NANS[rc.REAL32]])
                         ).map(lambda x: nan_spec(rc.REAL32, x))
    if dt == rc.REAL64:
        return st.one_of(st.floats(allow_nan=True),
                         st.sampled_from([float("inf"), float("-inf"), -0.0, 5e-324, 1.7976931348623157e308] +
                                         [val(n) for n in NANS[rc.REAL64]])).map(lambda x: nan_spec(rc.REAL64, x))
    if dt == rc.VISIBLE_STRING:
        return st.text(st.characters(min_codepoint=0, max_codepoint=127), max_size=200).map(lambda s: s.rstrip("\0"))
    if dt == rc.UNICODE_STRING:
        # every Unicode scalar value (UTF-16 needs a surrogate pair beyond the BMP); at most 200 bytes encoded
        return st.one_of(
            st.text(st.characters(min_codepoint=0, max_codepoint=0x10FFFF, exclude_categories=["Cs"]), max_size=100),
            st.text(st.sampled_from("a\u00e9\u4e2d\uffff\U00010000\U0001F600\U000E0041\U0010FFFF "), max_size=60),
        ).map(fit_unicode)
    return st.binary(max_size=200)


def fit_unicode(s):
    n, out = 0, []
    for ch in s:
        n += 4 if ord(ch) > 0xFFFF else 2
        if n > 200:
            break
        out.append(ch)
    return "".join(out).rstrip("\0")


def nan_spec(dt, x):
    """NaNs are kept in the case by their bits so that a stored failure replays with the same NaN. For REAL32
    only NaNs that binary32 can hold, and only quiet ones (what a conversion does to a signalling NaN differs
    between platforms)."""
    if not (isinstance(x, float) and math.isnan(x)):
        return x
    bits = int.from_bytes(struct.pack("<d", x), "little")
    if dt == rc.REAL32:
        bits = (bits & ~((1 << 29) - 1)) | (1 << 51)
    return {"nan": f"{bits:016x}"}


# quiet NaN, negative quiet NaN, quiet NaNs with a payload, (REAL64 only) a signalling NaN
NANS = {rc.REAL32: [{"nan": "7ff8000000000000"}, {"nan": "fff8000000000000"}, {"nan": "7ff8000020000000"},
                    {"nan": "7ffd555540000000"}],
        rc.REAL64: [{"nan": "7ff8000000000000"}, {"nan": "fff8000000000000"}, {"nan": "7ff8000000000001"},
                    {"nan": "7ffdeadbeef01234"}, {"nan": "7ff0000000000001"}]}


ALL_DTS = [rc.BOOLEAN] + sorted(rc.NUMERIC) + list(rc.STRINGS)
NAME_ALPHA = "abcdefghijklmnopqrstuvwxyzABCXYZ0123456789 _-"
INDEX = st.integers(0x2000, 0x9FFF)


@st.composite
def od_strategy(draw):
    n = draw(st.integers(1, 6))
    idxs = sorted(draw(st.sets(INDEX, min_size=n, max_size=n)))
    od = []
    for k, index in enumerate(idxs):
        # names as vendors write them: "Max. speed", "Supply 3.3V", "rev. 1.x" - also for top-level objects
        name = f"o{k} " + draw(st.text(NAME_ALPHA + "..", min_size=1, max_size=8)).strip()
        name = name.strip() or f"o{k}"
        if draw(st.booleans()):
            od.append({"kind": "var", "index": index, "name": name, "dt": draw(st.sampled_from(ALL_DTS))})
        else:
            subs = sorted(draw(st.sets(st.integers(1, 254), min_size=1, max_size=4)))
            od.append({"kind": draw(st.sampled_from(["record", "array"])), "index": index, "name": name,
                       "members": [{"sub": 0, "name": "count", "dt": rc.UNSIGNED8}] +
                                  [{"sub": s, "name": f"m{s} " + draw(st.text(NAME_ALPHA + "..", max_size=5)).strip(),
                                    "dt": draw(st.sampled_from(ALL_DTS))} for s in subs]})
            if od[-1]["kind"] == "array" and 1 not in subs:
                od[-1]["kind"] = "record"
            for m in od[-1]["members"]:
                m["name"] = m["name"].strip()
            if od[-1]["kind"] == "array" and draw(st.booleans()):
                # elements of the array beyond the ones the dictionary spells out
                od[-1]["extra_subs"] = draw(st.lists(st.integers(1, 254), min_size=1, max_size=3, unique=True))
    recs = [o for o in od if o["kind"] != "var"]
    if recs and draw(st.integers(0, 3)) == 0:
        # an object whose own name reads like the qualified name of a member of another object
        o = draw(st.sampled_from(recs))
        m = draw(st.sampled_from(o["members"][1:]))
        od.append({"kind": "var", "index": 0xA000 + draw(st.integers(0, 0xFF)), "name": f"{o['name']}.{m['name']}",
                   "dt": draw(st.sampled_from(ALL_DTS))})
    return od


def _draw_stale(draw, op):
    """Where the stray responses arrive: before the op, between the write and the read-back, or right after the
    k-th response of the op's transfers (i.e. between two segments)."""
    where = draw(st.sampled_from(["stale", "stale", "stale_rb", "stale_seg"]))
    op[where] = draw(st.integers(1, 3 if where != "stale_seg" else 30))
    op["stale_kind"] = draw(st.sampled_from([0, 0] + list(range(1, len(STALE_FRAMES) + 1))))


@st.composite
def case_strategy(draw, modes):
    od = draw(od_strategy())
    ent = flat_entries(od)
    mode = draw(st.sampled_from(modes))
    nthreads = 1 if mode == "inline" else draw(st.integers(2 if mode == "baton" else 1, 8 if mode == "baton" else 3))
    node_ids = draw(st.lists(st.integers(1, 127), min_size=nthreads, max_size=nthreads, unique=True))
    # shared dictionary object: few entries, so that one node's write precedes another node's first read of it
    shared = mode == "baton" and draw(st.booleans())
    threads = []
    for t in range(nthreads):
        ops = []
        for _ in range(draw(st.integers(1, 6 if mode != "inline" else 10))):
            e = draw(st.integers(0, min(1, len(ent) - 1) if shared else len(ent) - 1))
            dt = ent[e][5]
            ops.append({"e": e, "path": draw(st.sampled_from(PATHS)),
                        "v": draw(value_strategy(dt))})
            if mode == "inline" and draw(st.integers(0, 4)) == 0:
                _draw_stale(draw, ops[-1])
            elif mode == "inline" and len(ent) > 1 and draw(st.integers(0, 4)) == 0:
                # the answer to a request for another object comes too late and lands in this op's transfers
                e2 = draw(st.integers(0, len(ent) - 1))
                ops[-1]["late"] = {"e2": e2, "v2": draw(value_strategy(ent[e2][5])), "w": draw(st.booleans()),
                                   "dw": draw(st.booleans()), "at": draw(st.sampled_from([1, 1, 1, 2, 2, 3, 5, 9]))}
            if draw(st.integers(0, 5)) == 0:
                # abandon an upload of something written before, half-way
                prev = draw(st.sampled_from([o_ for o_ in ops if "v" in o_]))
                ops.append({"e": prev["e"], "path": prev["path"], "partial": draw(st.integers(0, 12)),
                            "buf": draw(st.sampled_from([0, 0, 3, 1024]))})
                if mode == "inline" and draw(st.integers(0, 3)) == 0:
                    _draw_stale(draw, ops[-1])
        threads.append({"node": node_ids[t], "ops": ops})
    case = {"od": od, "mode": mode, "threads": threads,
            "od_source": draw(st.sampled_from(["code", "code", "eds"]))}
    if shared:
        case["shared_od"] = True
    if mode == "inline" and draw(st.integers(0, 4)) == 0:
        case["stale_final"] = draw(st.integers(1, 2))
        case["stale_kind"] = draw(st.integers(0, len(STALE_FRAMES)))
    if mode == "baton":
        case["order"] = draw(st.lists(st.integers(0, 7), min_size=0, max_size=200))
        if draw(st.booleans()):
            case["deferred"] = True
            case["deliver"] = draw(st.lists(st.integers(0, 7), min_size=1, max_size=12))
    if mode == "dispatcher":
        case["delays"] = draw(st.lists(st.sampled_from([0, 0, 0, 0.2, 1, 3]), min_size=1, max_size=8))
        case["noise"] = draw(st.lists(st.one_of(
            st.none(),
            st.tuples(st.sampled_from([0x000, 0x080, 0x181, 0x201, 0x581 + 100, 0x601 + 100, 0x701, 0x7E4, 0x1FFFFFFF]),
                      st.binary(min_size=2, max_size=8))), max_size=6))
    return case


def typed_od():
    od = []
    for k, dt in enumerate(ALL_DTS):
        od.append({"kind": "var", "index": 0x2000 + k, "name": rc.NAMES[dt], "dt": dt})
    od.append({"kind": "record", "index": 0x3000, "name": "Rec", "members":
               [{"sub": 0, "name": "count", "dt": rc.UNSIGNED8}] +
               [{"sub": k + 1, "name": "M " + rc.NAMES[dt], "dt": dt} for k, dt in enumerate(ALL_DTS)]})
    # member names as vendors write them
    od.append({"kind": "record", "index": 0x3001, "name": "Limits", "members":
               [{"sub": 0, "name": "count", "dt": rc.UNSIGNED8},
                {"sub": 1, "name": "Max. speed", "dt": rc.UNSIGNED16},
                {"sub": 2, "name": "Gain (approx.)", "dt": rc.REAL32},
                {"sub": 3, "name": "rev. 1.x name", "dt": rc.VISIBLE_STRING},
                {"sub": 4, "name": ".hidden", "dt": rc.INTEGER32}]})
    # an array: two elements spelled out, the others exist all the same (CiA 301: all elements have the type of
    # element 1)
    od.append({"kind": "array", "index": 0x3002, "name": "Table", "members":
               [{"sub": 0, "name": "count", "dt": rc.UNSIGNED8},
                {"sub": 1, "name": "Table 1", "dt": rc.INTEGER32},
                {"sub": 2, "name": "Table 2", "dt": rc.INTEGER32}], "extra_subs": [3, 0x40, 0xFE]})
    return od


def dotted_od():
    """Object names as vendors write them - with dots, also at the top level - and an object whose plain name
    reads like the qualified name of a member of another object."""
    m = lambda sub, name, dt: {"sub": sub, "name": name, "dt": dt}
    return [
        {"kind": "var", "index": 0x2000, "name": "Plain counter", "dt": rc.UNSIGNED32},
        {"kind": "var", "index": 0x2001, "name": "Max. speed", "dt": rc.UNSIGNED16},
        {"kind": "var", "index": 0x2002, "name": "Supply 3.3V level", "dt": rc.INTEGER16},
        {"kind": "var", "index": 0x2003, "name": "Fw ver. string", "dt": rc.VISIBLE_STRING},
        {"kind": "var", "index": 0x2004, "name": "Gain approx.", "dt": rc.REAL32},
        {"kind": "var", "index": 0x2005, "name": ".cfg blob", "dt": rc.DOMAIN},
        {"kind": "var", "index": 0x2006, "name": "a.b.c", "dt": rc.UNSIGNED8},
        {"kind": "record", "index": 0x2010, "name": "Motor", "members":
            [m(0, "Highest subindex", rc.UNSIGNED8), m(1, "Speed", rc.INTEGER32), m(2, "Torque", rc.INTEGER16)]},
        {"kind": "var", "index": 0x2011, "name": "Motor.Speed", "dt": rc.UNSIGNED16},
        {"kind": "var", "index": 0x2012, "name": "Motor.Torque", "dt": rc.INTEGER16},
        {"kind": "record", "index": 0x2020, "name": "Temp. sensor", "members":
            [m(0, "count", rc.UNSIGNED8), m(1, "raw", rc.INTEGER24), m(2, "deg. C", rc.REAL64),
             m(3, "label", rc.UNICODE_STRING)]},
        {"kind": "array", "index": 0x2030, "name": "Calib. table", "members":
            [m(0, "count", rc.UNSIGNED8), m(1, "pt. 1", rc.UNSIGNED24), m(2, "pt. 2", rc.UNSIGNED24)],
         "extra_subs": [3, 0x7F]},
    ]


def _some_value(dt, i):
    if dt == rc.BOOLEAN:
        return True
    if dt in rc.INTEGERS:
        return rc.int_range(dt)[1] - i
    if dt in rc.REALS:
        return 1.5 + i
    if dt in (rc.VISIBLE_STRING, rc.UNICODE_STRING):
        return f"member {i}"
    return bytes([i % 256]) * 9


def enum_concurrency(thorough):
    """Run first, while the process is fresh (nothing an earlier case left behind in the library can hide or
    heal a missing separation between the clients)."""
    od = typed_od()
    ent = flat_entries(od)
    pick = lambda dt: [i for i, en in enumerate(ent) if en[5] == dt][0]
    # requests of 2..3 threads to different nodes are in flight at the same time (responses delivered later,
    # from whichever thread runs next, in a chosen order): same entries, node-specific values
    sets = [[rc.UNSIGNED16, rc.UNSIGNED32], [rc.VISIBLE_STRING, rc.DOMAIN, rc.INTEGER64]]
    if thorough:
        sets += [[rc.REAL64, rc.UNICODE_STRING], [rc.INTEGER8, rc.OCTET_STRING, rc.UNSIGNED24]]

    def ops_for(dts, t):
        ops = []
        for n_, dt in enumerate(dts):
            i = pick(dt)
            if dt in rc.INTEGERS:
                v = (0x1111111111111111 * (t + 1) + n_) & rc.int_range(dt)[1]
            elif dt in rc.REALS:
                v = 1000.5 * (t + 1)
            elif dt in (rc.VISIBLE_STRING, rc.UNICODE_STRING):
                v = f"node-specific text of thread {t} " + "abc"[t] * (3 + 4 * t)
            else:
                v = bytes([0x11 * (t + 1)]) * (9 + 5 * t)
            ops.append({"e": i, "path": ["index", "name", "getvar"][(t + n_) % 3], "v": v})
        return ops

    for dts in sets:
        for nthr, orders in ((2, ([0, 1], [1, 0], [0, 0, 1], [0, 1, 1, 0], [1, 0, 0, 1, 1], [0, 1, 1])),
                             (3, ([0, 1, 2], [2, 1, 0], [0, 1, 2, 2, 1, 0], [1, 2, 0, 0]))):
            for order in orders:
                for deliver in ([0], [1], [2, 0, 1], [0, 1, 1]):
                    for shared in (False, True):
                        if shared and not (deliver == [1] or thorough):
                            continue
                        case = {"od": od, "mode": "baton", "deferred": True, "order": order * 60,
                                "deliver": deliver,
                                "threads": [{"node": 31 + t, "ops": ops_for(dts, t)} for t in range(nthr)]}
                        if shared:
                            case["shared_od"] = True
                        yield case
    # deterministic interleavings of two segmented transfers to different nodes
    sdt = pick(rc.DOMAIN)
    vdt = pick(rc.VISIBLE_STRING)
    for n in (5, 8, 15, 40):
        for pattern in ([0, 1], [0, 0, 1], [1, 0, 0, 1, 1], [0, 1, 1, 0]):
            yield {"od": od, "mode": "baton", "order": pattern * 40,
                   "threads": [{"node": 11, "ops": [{"e": sdt, "path": "index", "v": bytes([0xAA]) * n},
                                                    {"e": vdt, "path": "name", "v": "A" * n}]},
                               {"node": 12, "ops": [{"e": sdt, "path": "index", "v": bytes([0x55]) * (n + 3)},
                                                    {"e": vdt, "path": "name", "v": "b" * (n + 2)}]}]}




def enum_late(thorough):
    """The answer to a request comes too late (the client timed out) and arrives during a later transfer for
    another object: same sub-index / other index (plain variables), same index / other sub-index (members of
    one record), both different; the slow request a read or a write; the late answer lands before the answer to
    the 1st, 2nd, 3rd request of the later op (a read, or a write with its read-back). One history per group:
    every object is written first, then disturbed again and again."""
    od = typed_od()
    ent = flat_entries(od)
    top = lambda dt: [i for i, en in enumerate(ent) if en[5] == dt and en[4]][0]
    mem = lambda dt: [i for i, en in enumerate(ent) if en[5] == dt and not en[4] and en[0] == 0x3000][0]
    dts = [rc.UNSIGNED16, rc.UNSIGNED32, rc.INTEGER32, rc.REAL32, rc.VISIBLE_STRING, rc.DOMAIN]
    if thorough:
        dts = list(ALL_DTS)
    groups = [[top(dt) for dt in dts], [mem(dt) for dt in dts],
              [top(dts[0]), mem(dts[0]), top(dts[4 if not thorough else -1]), mem(dts[1])]]
    for g, idxs in enumerate(groups):
        setup = [{"e": i, "path": "index", "v": _some_value(ent[i][5], 3 + n)} for n, i in enumerate(idxs)]
        pairs = [(a, b) for a in idxs for b in idxs if a != b]
        if thorough and g < 2:
            # every type next to its neighbours in the list, both directions, plus a stride over the rest
            pairs = [(a, b) for n, a in enumerate(idxs) for m, b in enumerate(idxs)
                     if a != b and (abs(n - m) <= 2 or (n + 2 * m) % 7 == 0)]
        for w in (False, True):
            for dw in (False, True):
                for at in (1, 2, 3):
                    if at == 3 and (w or dw) and not thorough:
                        continue
                    for c in range(0, len(pairs), 10):
                        ops = list(setup)
                        for n, (a, b) in enumerate(pairs[c:c + 10]):
                            ops.append({"e": b, "path": PATHS[(n + at) % len(PATHS)],
                                        "v": _some_value(ent[b][5], 5 + n + at),
                                        "late": {"e2": a, "v2": _some_value(ent[a][5], 11 + n), "w": w, "dw": dw,
                                                 "at": at}})
                        yield {"od": od, "mode": "inline", "threads": [{"node": 5 + g, "ops": ops}]}


def enum_cases(thorough):
    od = typed_od()
    ent = flat_entries(od)
    paths = PATHS
    # boundaries of every type, through every access path
    for e, en in enumerate(ent):
        dt = en[5]
        if dt == rc.BOOLEAN:
            vals = [False, True]
        elif dt in rc.INTEGERS:
            lo, hi = rc.int_range(dt)
            vals = sorted({lo, lo + 1, -1 if lo < 0 else 0, 0, 1, 127, 128, 255, 256, hi - 1, hi} &
                          set(range(lo, hi + 1)) if rc.INTEGERS[dt] <= 16 else
                          {lo, lo + 1, 0, 1, hi - 1, hi, hi >> 1, (hi >> 1) + 1})
        elif dt in rc.REALS:
            vals = [0.0, -0.0, 1.5, float("inf"), float("-inf"), -2.5e-45 if dt == rc.REAL32 else -5e-324]
            if dt == rc.REAL32:
                vals = [0.0, -0.0, 1.5, float("inf"), float("-inf"), 1.401298464324817e-45, 3.4028234663852886e38]
            vals = vals + NANS[dt]
        elif dt == rc.VISIBLE_STRING:
            vals = ["", "a", "abcd", "abcde", "1234567", "12345678", "x" * 200, "\x00lead", "in\x00side"]
        elif dt == rc.UNICODE_STRING:
            vals = ["", "a", "ab", "abc", "﻿bom", "￾", "中文", "z" * 100,
                    "pump \U0001F600 7", "\U00010000", "\U0010FFFFa", "\U0001F600" * 50]
        else:
            vals = [b"", b"\x00", b"\x01\x02\x03\x04", b"\x01\x02\x03\x04\x05", bytes(range(7)), bytes(range(8)),
                    bytes(200), bytes([255] * 199)]
        for k, p in enumerate(paths):
            if k == 0:
                yield {"od": od, "mode": "inline",
                       "threads": [{"node": 7, "ops": [{"e": e, "path": p, "v": v, "stale": j % 4} for j, v in enumerate(vals)]}]}
            yield {"od": od, "mode": "inline", "threads": [{"node": 7, "ops": [{"e": e, "path": p, "v": v} for v in vals]}],
                   "od_source": "eds" if (k + e) % 2 else "code"}
    # names with dots (top-level objects, records, arrays), an object named like a qualified member of another
    # one, array elements beyond the declared ones: every entry through every access path; all of them in one
    # history per path so that a value landing in the wrong object shows in the final sweep as well
    dod = dotted_od()
    dent = flat_entries(dod)
    for k, p in enumerate(paths):
        for src in ("code", "eds"):
            yield {"od": dod, "mode": "inline", "od_source": src, "threads": [{"node": 9, "ops": [
                {"e": i, "path": p, "v": _some_value(en[5], i + k)} for i, en in enumerate(dent)]}]}
            yield {"od": dod, "mode": "inline", "od_source": src, "shared_od": True, "threads": [
                {"node": 9 + t, "ops": [{"e": i, "path": p, "v": _some_value(en[5], i + k + t)}
                                        for i, en in enumerate(dent)][::-1 if t else 1]} for t in range(2)]}
    # stray responses on the client's channel at every idle moment of a history: before an op, between the
    # write and the read-back, after the k-th response of a (segmented) transfer, before the final reads,
    # before an abandoned upload
    pick = lambda dt: [i for i, en in enumerate(ent) if en[5] == dt][0]
    hist = [(pick(rc.UNSIGNED16), "index", 0xBEEF), (pick(rc.VISIBLE_STRING), "name", "a text of three segments"),
            (pick(rc.DOMAIN), "index", bytes(range(30))), (pick(rc.REAL64), "getvar", 2.5),
            (pick(rc.UNSIGNED64), "name", 0x0102030405060708)]
    for kind in range(0, len(STALE_FRAMES) + 1):
        for where in ("stale", "stale_rb"):
            yield {"od": od, "mode": "inline", "stale_final": 1 + kind % 2, "stale_kind": kind,
                   "threads": [{"node": 5, "ops": [{"e": e, "path": p, "v": v, where: 1 + (j + kind) % 2,
                                                    "stale_kind": kind} for j, (e, p, v) in enumerate(hist)]}]}
        for at in range(1, 13 if (thorough or kind < 2) else 0):
            yield {"od": od, "mode": "inline", "threads": [{"node": 5, "ops": [
                {"e": e, "path": p, "v": v, "stale_seg": at, "stale_kind": kind} for (e, p, v) in hist] + [
                {"e": hist[1][0], "path": "name", "partial": 9, "buf": 0, "stale_seg": 1 + at % 2, "stale_kind": kind},
                {"e": hist[0][0], "path": "index", "v": 0x1234, "stale_rb": 1}]}]}
    # several members of one record / several objects written one after the other, then re-read
    rec = [i for i, en in enumerate(ent) if not en[4]]
    for a in range(0, len(rec) - 3, 3):
        ops = []
        for i in rec[a:a + 4]:
            dt = ent[i][5]
            v = {rc.BOOLEAN: True}.get(dt)
            if v is None:
                if dt in rc.INTEGERS:
                    v = rc.int_range(dt)[1] - i
                elif dt in rc.REALS:
                    v = 1.5 + i
                elif dt in (rc.VISIBLE_STRING, rc.UNICODE_STRING):
                    v = f"member {i}"
                else:
                    v = bytes([i]) * 9
            ops.append({"e": i, "path": ["sub", "dotted", "member", "name"][i % 4], "v": v})
        yield {"od": od, "mode": "inline", "threads": [{"node": 8, "ops": ops}]}
    # an upload abandoned half-way must not disturb the transfers that follow
    s_i = [i for i, en in enumerate(ent) if en[5] == rc.VISIBLE_STRING][0]
    d_i = [i for i, en in enumerate(ent) if en[5] == rc.DOMAIN][0]
    u_i = [i for i, en in enumerate(ent) if en[5] == rc.UNSIGNED64][0]
    for k in (0, 1, 7, 10):
        for buf in (0, 3, 1024):
            yield {"od": od, "mode": "inline", "threads": [{"node": 6, "ops": [
                {"e": s_i, "path": "name", "v": "Pump controller #7 (north hall)"},
                {"e": d_i, "path": "index", "v": bytes(range(40))},
                {"e": s_i, "path": "name", "partial": k, "buf": buf},
                {"e": d_i, "path": "index", "v": bytes(range(60, 90))},
                {"e": d_i, "path": "index", "partial": k, "buf": buf},
                {"e": u_i, "path": "index", "v": 0x1122334455667788},
                {"e": s_i, "path": "name", "v": "second text, long enough for segments"}]}]}
    # all values of the 8- and 16-bit types
    for dt in (rc.INTEGER8, rc.UNSIGNED8, rc.INTEGER16, rc.UNSIGNED16):
        e = [i for i, en in enumerate(ent) if en[5] == dt][0]
        lo, hi = rc.int_range(dt)
        step = 1 if thorough or hi - lo < 1000 else 97
        vals = list(range(lo, hi + 1, step))
        for a in range(0, len(vals), 128):
            yield {"od": od, "mode": "inline",
                   "threads": [{"node": 9, "ops": [{"e": e, "path": "index", "v": v} for v in vals[a:a + 128]]}]}
    # nodes of one device type created from one and the same ObjectDictionary object
    for src in ("code", "eds"):
        for a in range(0, len(ent), 5):
            mk = lambda off: [{"e": i, "path": "index", "v": _some_value(ent[i][5], i + off)} for i in range(a, min(a + 5, len(ent)))]
            yield {"od": od, "mode": "inline", "shared_od": True, "od_source": src,
                   "threads": [{"node": 21, "ops": mk(0)}, {"node": 22, "ops": mk(1)}, {"node": 23, "ops": mk(2)}]}


def search(ctx):
    thorough = ctx.tier == "thorough"
    # the concurrent families first: at that point the process has not run anything that could leave state
    # behind in the library (stale-response histories do, by design)
    ctx.enumerate(enum_concurrency(thorough), "2..3 threads with requests in flight at the same time x delivery "
                                              "orders; fixed 2-thread interleavings of segmented transfers")
    ctx.hypothesis(case_strategy(["baton"]), 1500 if thorough else 300, salt=2)
    ctx.enumerate(enum_cases(thorough), "type boundaries x access paths; dotted names; stray responses at every "
                                        "idle moment; 8/16-bit values; shared dictionary object")
    ctx.enumerate(enum_late(thorough), "late answer of a timed-out request for another object arriving inside "
                                       "a later transfer: object pairs x slow read/write x disturbed read/write x "
                                       "position")
    ctx.hypothesis(case_strategy(["inline"]), 4000 if thorough else 1000, salt=1)
    ctx.hypothesis(case_strategy(["dispatcher"]), 300 if thorough else 40, salt=3)
    ctx.hypothesis(case_strategy(["virtual"]), 150 if thorough else 20, salt=4)
