"""C10 - frames reach exactly the handlers subscribed at that moment.

SUT: Network.subscribe / unsubscribe / notify / __setitem__ / __delitem__ /
add_node / create_node / send_message / send_periodic, MessageListener,
PeriodicMessageTask.__init__, NodeScanner, RemoteNode / LocalNode
.associate_network / .remove_network / RemoteNode.add_sdo.

Clause of the statement                                   -> case family
---------------------------------------------------------------------------
(1) each received frame invokes exactly the callbacks      -> "hist" (frame ops through Network.notify and
    currently subscribed to its id, once each, in             through MessageListener, after every prefix of
    subscription order, with id, data, timestamp              the history; one global event log orders user
                                                              callbacks, node handlers' hooks and frames the
                                                              node sent; timestamps of 8 value classes incl.
                                                              0.0 / 0 and microsecond digits), "id" (one id,
                                                              one callback), "bus" (virtual python-can bus,
                                                              notifier thread, given timestamps)
(2) subscribing the same callback twice does not           -> "hist" (sub ops on an already subscribed
    duplicate delivery                                        callback; bound methods are fetched afresh for
                                                              every call, so "same" means equal, as for the
                                                              library's own handlers)
(3) after a node is removed or replaced none of the old    -> "hist" (add_remote / add_remote_int /
    node's SDO, heartbeat, EMCY, NMT handlers sees a          create_local / set_local / readd / del /
    frame (and the new node's do)                             add_sdo ops, local and remote mixed at the same
                                                              ids; every node object ever created is observed
                                                              until the end; a final sweep delivers a frame
                                                              on every id that ever had a subscription)
(4) outgoing frames carry exactly id, data, remote flag;   -> "id" (send_message and send_periodic for every
    extended format exactly for ids above 0x7FF               11-bit id and sampled 29-bit ids, data as bytes /
                                                              list / bytearray / None, remote on/off - also
                                                              remote with non-empty data), "hist" (SDO
                                                              responses of local nodes, send ops)
(5) error and remote frames are not dispatched             -> "id" (4 flag combinations per id), "hist"
                                                              (listener ops with flags inside histories)
(6) scanner lists each node id once, in order of first     -> "id" (every id alone, stand-alone scanner and
    appearance, only for predefined-connection-set ids        through Network.notify), "scan" (sequences:
                                                              permutations of all 2048 ids with 29-bit ids
                                                              mixed in, Hypothesis sequences with repeats,
                                                              reset in between), "hist" (scanner compared
                                                              after every frame)

Reference model: a multimap id -> ordered list of handler keys without
duplicates; node handlers are keys of the node *object* (a replaced node is a
different object), their effects are predicted from CiA 301 (heartbeat state
byte, NMT command -> state, EMCY layout, expedited upload response).
"""
from collections.abc import Mapping

from hypothesis import strategies as st

from harness.core import Discrepancy, Outcome
from harness.odutil import build_od
from harness.simbus import Frame, Hub

PROPERTY = "C10"
LEVEL = "exploration"
RULE = ("hist: case = pool of 2-3 node ids + history of up to 120 (quick) / 300 (thorough) ops "
        "{sub, unsub, unsub_all, frame via notify | listener | listener+remote | listener+error, add_remote, "
        "add_remote_int, create_local, set_local, readd (same object again), del, add_sdo, scanner_reset} over a "
        "pool of <= 13 CAN ids (0, heartbeat/EMCY/SDO-tx/SDO-rx ids of the pooled nodes, a free 11-bit id, 29-bit "
        "ids incl. one whose low 11 bits equal a heartbeat id) and 6 callbacks (functions, bound methods fetched "
        "afresh, two methods of one object, callable object); all histories of length <= 4 (quick) / 5 (thorough) "
        "over two 6/7-letter alphabets and of length <= 3 / 4 over an 8-letter alphabet around add_remote_eds (device "
        "silent / abort / ok / lose2, add_remote, del, sub, frame on the SDO id) are enumerated, Hypothesis draws the long ones; a reference multimap "
        "predicts after every frame the exact ordered event log (callback invocations with id/data/timestamp and "
        "a probe of every node object's state, heartbeat/EMCY hook calls, frames sent by local nodes) and the "
        "scanner list; frame timestamps come from 8 value classes (0.0, int 0, microsecond fractions below 1 s, Unix "
        "time with microsecond digits, whole seconds as int, dyadic, 10-us uptime, nanoseconds) besides the running "
        "1000+i/4 and are compared exactly, also in the node handlers' nmt.timestamp / EMCY timestamp; a send op "
        "(send_message with bytes/list/bytearray data of 0..8 bytes, remote on/off, inside the history) must put "
        "exactly that id / data / remote flag / format on the bus (remote frame: data field empty or as given) and "
        "nothing into the event log; add_remote_eds = add_node(id, upload_eds=True) with a reference device (CiA 301 "
        "SDO server for 0x1021:0) behind the bus that is silent / aborts / serves a valid EDS segmented / serves text "
        "that is no EDS / answers expedited / goes silent after 1, 2 or 5 responses: the device's responses are received "
        "frames on 0x580+id and must reach exactly the model's subscribers of that moment (the node being replaced "
        "included), and however the upload ends the net change is 'old node's handlers out, new node's in'; after every "
        "op that can change subscriptions, at the end and after the sweep Network.subscribers is compared with the "
        "multimap (number of callbacks per id, user callbacks at the model's positions, no user callback in a node "
        "handler's place; what a fresh Network subscribes for itself is set aside), so a handler nobody can reach any "
        "more is seen even though no observed object shows an effect; a final sweep puts a frame on every id that ever had a subscriber (notify and "
        "listener, timestamp classes); three template histories "
        "(remote->local->remote->removed, local->remote->same object again->removed, and five EDS uploads ending in "
        "five different ways over nothing / a remote / a local node / a re-added node, frames on all its ids in "
        "between) are run for every node id 1..127. id: one case per CAN id (all 2048 11-bit ids, 4096 (quick) / "
        "262144 (thorough) sampled 29-bit ids): send_message/send_periodic variants (bytes, list, bytearray, None; "
        "remote on/off, remote=True also with non-empty data of every type: the flag, id and format are demanded, "
        "data/DLC of a remote frame may be dropped or kept; update() of a remote task with and without data keeps the "
        "flag), listener flag combinations, listener timestamps incl. 0.0 / 0 and non-dyadic ones, scanner alone. "
        "bus: 12 (quick) / 192 (thorough) connect/disconnect histories over a python-can virtual bus whose peer "
        "preserves message timestamps: callbacks get id, data and exactly the timestamp of each frame. "
        "scan: id sequences (affine permutations of all "
        "2048 ids with 29-bit ids mixed in; Hypothesis sequences over pooled nodes x all 16 function codes with "
        "resets). Non-trivial: hist with >=1 successful replace/remove of "
        "a node and >=1 duplicate subscribe; id with a 29-bit id or 0x7FF/0x800 neighbourhood; scan with a "
        "repeated listed node or a 29-bit id. Distinct = canonical JSON of the case.")
ASSUMPTIONS = [
    "frame data on ids that node handlers may listen to is well-formed for that service (NMT 2 bytes with command "
    "1/2/128, heartbeat 1 byte with state 0/4/5/127, EMCY 8 bytes, SDO request = upload of 0x2000:0); user callbacks "
    "never raise and never change subscriptions from inside a callback",
    "received frames are 29-bit exactly when their id is above 0x7FF (Network.notify gets no format flag, so a 29-bit "
    "frame with a small id cannot be told from an 11-bit frame by any subscriber)",
    "unsubscribe of something not subscribed, del of an absent node: raising or not are both accepted, only the "
    "resulting state is compared",
    "unsubscribe(id) without callback also strips the library's own node handlers on that id (that is what 'all "
    "callbacks' says); removing such a node afterwards may raise, the history is then cut there (state undefined); "
    "the generator makes this rare",
    "same callback = equal callable (bound methods of the same object and function are equal), as the library "
    "itself relies on for its own handlers",
    "for remote / error frames only 'no callback, no node effect' is demanded; whether the scanner looks at them is "
    "left open",
    "NMT commands 129/130 and the states a node reports initially are C11's business: initial nmt.state is taken "
    "from the object, only changes are predicted",
    "the frame's timestamp is whatever number the can.Message / the notify() caller carries (0.0 and int included); "
    "the callback must get that very value (==), no substitution, rounding or unit change",
    "remote=True with a non-empty data argument: the outgoing frame must be a remote frame with the given id and "
    "format; its data field may be empty or the given bytes, its DLC 0 or their length (python-can drops the data); "
    "update(data) on a periodic remote frame may be refused, if accepted the live task is still one remote frame",
    "Network.subscribers is a mapping CAN id -> sequence of the subscribed callbacks (the property's anchor); ids "
    "without subscribers may be absent or empty; if the attribute is no mapping the comparison is skipped and the "
    "case class says so",
    "add_node(id, upload_eds=True): the node is added whether or not a dictionary could be uploaded (the library logs "
    "the failure); the SUT's own request / abort frames on 0x600+id during the upload are not judged here; SDO "
    "time-out is 1 ms, the device answers synchronously so no outcome depends on time; when a local node's SDO server "
    "listens on 0x580+id (node id - 32) the device stays silent (it would be answered from inside a transmit call)",
    "subscription changes and frames are sequential steps of a history: nothing changes subscriptions while one "
    "frame is being dispatched (neither from a callback nor from a second thread) - the statement does not say "
    "whether 'currently subscribed' is taken at reception or at each callback's turn",
    "bus family: python-can's virtual interface with preserve_timestamps=True on the sending peer hands the "
    "receiving bus a message with the sender's timestamp; up to 5 s are allowed for the notifier thread to deliver",
]
BUDGET = {"quick": 150, "thorough": 330}

NCB = 6
# Hypothesis examples per shard: short histories, long histories (int list), long histories (bytes), scanner sequences
EXAMPLES = {"quick": (600, 700, 1400, 1500), "thorough": (3000, 3000, 8000, 6000)}
STATE_NAME = {0: "INITIALISING", 4: "STOPPED", 5: "OPERATIONAL", 127: "PRE-OPERATIONAL"}
NMT_CMD = {1: 5, 2: 4, 128: 127}          # CiA 301: start, stop, enter pre-operational
UPLOAD_2000 = bytes([0x40, 0x00, 0x20, 0x00, 0, 0, 0, 0])
# function codes (id // 128) of the predefined connection set that a *node* transmits
PCS_TX = {1: "EMCY", 3: "TPDO1", 5: "TPDO2", 7: "TPDO3", 9: "TPDO4", 11: "SDO tx", 14: "heartbeat"}
UNSIGNED32 = 7


# What the device does while add_node(id, upload_eds=True) reads its object 0x1021 (Store EDS):
#   silent   nobody answers (time-out)              abort    SDO abort 0x06020000 (object does not exist)
#   ok       a valid EDS, segmented upload          garbage  text that is no EDS, segmented upload
#   exp      four bytes in an expedited response    loseK    as ok, but the K+1st and all later responses are lost
DEV_MODES = ("silent", "abort", "ok", "garbage", "exp", "lose1", "lose2", "lose5")
EDS_OK = (b"[FileInfo]\nFileName=v.eds\nFileVersion=1\nFileRevision=1\nEDSVersion=4.0\nDescription=v\nCreatedBy=v\n\n"
          b"[DeviceInfo]\nVendorName=v\nProductName=v\nNrOfRXPDO=0\nNrOfTXPDO=0\n\n"
          b"[MandatoryObjects]\nSupportedObjects=1\n1=0x1000\n\n"
          b"[1000]\nParameterName=Device type\nObjectType=0x7\nDataType=0x0007\nAccessType=ro\n"
          b"DefaultValue=0x00000191\nPDOMapping=0\n")
EDS_GARBAGE = b"this is not an electronic data sheet\n\x00\x01\x02 = = [\n"


class RefEdsDevice:
    """CiA 301 SDO server side for one object, 0x1021:0 (Store EDS), written from the standard: initiate upload
    response (expedited with size / segmented with size), upload segments with toggle bit, abort for anything
    else. `reply(request) -> bytes | None`."""

    def __init__(self, mode):
        self.mode = mode
        self.payload = {"garbage": EDS_GARBAGE, "exp": b"[a]\n"}.get(mode, EDS_OK)
        self.pos = 0
        self.toggle = 0
        self.replies = 0
        self.lose_after = int(mode[4:]) if mode.startswith("lose") else None

    def reply(self, data):
        if self.mode == "silent" or len(data) != 8:
            return None
        ccs = data[0] >> 5
        if ccs == 2:                                   # initiate upload request
            if self.mode == "abort" or (data[1], data[2], data[3]) != (0x21, 0x10, 0):
                out = bytes([0x80, data[1], data[2], data[3]]) + (0x06020000).to_bytes(4, "little")
            elif self.mode == "exp":
                out = bytes([0x43 | ((4 - len(self.payload)) << 2), 0x21, 0x10, 0]) + self.payload.ljust(4, b"\0")
            else:
                self.pos, self.toggle = 0, 0
                out = bytes([0x41, 0x21, 0x10, 0]) + len(self.payload).to_bytes(4, "little")
        elif ccs == 3:                                 # upload segment request
            t = (data[0] >> 4) & 1
            if t != self.toggle:
                out = bytes([0x80, 0x21, 0x10, 0]) + (0x05030000).to_bytes(4, "little")
            else:
                chunk = self.payload[self.pos:self.pos + 7]
                self.pos += len(chunk)
                last = self.pos >= len(self.payload)
                out = bytes([(t << 4) | ((7 - len(chunk)) << 1) | int(last)]) + chunk.ljust(7, b"\0")
                self.toggle ^= 1
        else:                                          # abort from the client, anything else: no answer
            return None
        if self.lose_after is not None and self.replies >= self.lose_after:
            return None
        self.replies += 1
        return out


def ref_scan(listed, can_id):
    if can_id > 0x7FF:
        return
    fc, node = divmod(can_id, 128)
    if node != 0 and fc in PCS_TX and node not in listed:
        listed.append(node)


def ts_class(k, x):
    """Timestamp value classes (k selects the class, x >= 0 varies the value inside it): what interfaces hand
    out - nothing (0.0 / 0, python-can's default), time since start with micro- or nanosecond digits, Unix time
    with microsecond digits, whole seconds as int, dyadic fractions. All are exact floats/ints, JSON keeps them."""
    k %= 8
    if k == 0:
        return 0.0
    if k == 1:
        return 0
    if k == 2:
        return (x % 999983 + 1) / 1e6                   # 0.000001 .. 0.999983
    if k == 3:
        return 1700000000 + (x % 16777259) / 1e6 + 1e-6  # Unix time, microsecond digits
    if k == 4:
        return 1700000000 + x % 100003                   # whole seconds, int
    if k == 5:
        return float(x) + 0.125
    if k == 6:
        return (x % 10000019) / 1e4 + 0.00037            # time since start, 10 us digits
    return (x + 1) * 1e-9                                # nanoseconds after start


def ext_sample(i):
    """Deterministic sample of 29-bit ids: a spread over the whole range, plus ids whose low 11 bits look
    like a predefined-connection-set id."""
    if i % 4 == 3:
        low = (0x80, 0x180, 0x280, 0x380, 0x480, 0x580, 0x700, 0x600)[(i // 4) % 8] + 1 + (i * 37) % 127
        high = 1 + (i * 2654435761) % 0x3FFFF
        return (high << 11) | low
    edge = (0x800, 0x801, 0x1FFFFFFF, 0x1FFFFFFE, 0x10000000, 0x0FFFFFFF, 0xFFF, 0x1000)
    if i < len(edge):
        return edge[i]
    return 0x800 + (i * 2654435761) % (0x20000000 - 0x800)


# ----------------------------------------------------------------------------
class _Obj:
    """A user object whose bound methods / instances are pooled callbacks."""

    def __init__(self, rig, j_method, j_other, j_call):
        self.rig = rig
        self.j_method, self.j_other, self.j_call = j_method, j_other, j_call

    def method(self, can_id, data, ts):
        self.rig.called(self.j_method, can_id, data, ts)

    def other(self, can_id, data, ts):
        self.rig.called(self.j_other, can_id, data, ts)

    def __call__(self, can_id, data, ts):
        self.rig.called(self.j_call, can_id, data, ts)


class Rig:
    def __init__(self):
        self.hub = Hub()
        self.net, self.port = self.hub.attach("sut")
        self.events = []
        self.peer_port = self.hub.port("peer", handler=self._peer)
        self.device = None       # reference device answering the SUT's SDO requests while a node is being added
        self.nodes = []          # real node objects, index = serial k
        a = _Obj(self, 2, 5, None)
        b = _Obj(self, 3, None, None)
        c = _Obj(self, None, None, 4)

        def f0(can_id, data, ts):
            self.called(0, can_id, data, ts)

        f1 = lambda can_id, data, ts: self.called(1, can_id, data, ts)  # noqa: E731

        self._cbs = [lambda: f0,
                     lambda: f1,
                     lambda: a.method,      # a fresh bound method every time
                     lambda: b.method,      # same function, other object
                     lambda: c,             # callable instance
                     lambda: a.other]       # same object, other function

    def cb(self, j):
        return self._cbs[j]()

    def _peer(self, fr):
        self.events.append(("tx", fr.can_id, fr.data, bool(fr.remote), bool(fr.extended)))
        if self.device is not None:
            self.device(fr)

    def called(self, j, can_id, data, ts):
        self.events.append(("cb", j, can_id, bytes(data), ts, self.probe()))

    def probe(self):
        out = []
        for kind, node in self.nodes:
            if kind == "remote":
                out.append((node.nmt.state, node.nmt.timestamp,
                            tuple(c.responses.qsize() for c in node.sdo_channels)))
            else:
                out.append((node.nmt.state,))
        return tuple(out)

    def register(self, kind, node):
        k = len(self.nodes)
        self.nodes.append((kind, node))
        if kind == "remote":
            ev = self.events
            node.nmt.add_heartbeat_callback(lambda s, k=k: ev.append(("hb", k, s)))
            node.emcy.add_callback(lambda e, k=k: ev.append(
                ("emcy", k, e.code, e.register, bytes(e.data), e.timestamp)))
        return k


def _local_od(serial):
    return build_od([{"kind": "var", "index": 0x2000, "name": "serial", "dt": UNSIGNED32,
                      "access": "ro", "value": serial}])


class MObj:
    def __init__(self, kind, n, k, state):
        self.kind, self.n, self.k = kind, n, k
        self.state = state
        self.ts = None
        self.chans = [0x580 + n] if kind == "remote" else []
        self.q = [[] for _ in self.chans]
        self.stripped = False

    def probe(self):
        if self.kind == "remote":
            return (self.state, self.ts, tuple(len(q) for q in self.q))
        return (self.state,)


class Model:
    def __init__(self):
        self.subs = {}        # id -> ordered list of keys
        self.ever = set()     # ids that ever had a subscription
        self.objs = []
        self.attached = {}    # node id -> k
        self.scan = []

    def subscribe(self, can_id, key):
        self.ever.add(can_id)
        lst = self.subs.setdefault(can_id, [])
        if key in lst:
            return False
        lst.append(key)
        return True

    def unsubscribe(self, can_id, key):
        lst = self.subs.get(can_id, [])
        if key in lst:
            lst.remove(key)
            return True
        return False

    def keys_of(self, o):
        if o.kind == "remote":
            ks = [(tx, ("sdo", o.k, c)) for c, tx in enumerate(o.chans)]
            ks += [(0x700 + o.n, ("hb", o.k)), (0x80 + o.n, ("emcy", o.k)), (0, ("nmt", o.k))]
        else:
            ks = [(0x600 + o.n, ("req", o.k)), (0, ("nmt", o.k))]
        return ks

    def attach(self, o):
        for can_id, key in self.keys_of(o):
            self.subscribe(can_id, key)
        o.stripped = False
        self.attached[o.n] = o.k

    def detach(self, o):
        for can_id, key in self.keys_of(o):
            self.unsubscribe(can_id, key)
        if self.attached.get(o.n) == o.k:
            del self.attached[o.n]

    def probe(self):
        return tuple(o.probe() for o in self.objs)

    def expect(self, can_id, data, ts):
        """Apply one dispatched frame to the model; return the expected event list."""
        ev = []
        for key in list(self.subs.get(can_id, [])):
            what = key[0]
            if what == "u":
                ev.append(("cb", key[1], can_id, data, ts, self.probe()))
                continue
            o = self.objs[key[1]]
            if what == "sdo":
                o.q[key[2]].append(data)
            elif what == "hb":
                s = data[0] & 0x7F
                o.ts = ts
                o.state = STATE_NAME[127 if s == 0 else s]
                ev.append(("hb", o.k, s))
            elif what == "emcy":
                code = data[0] | (data[1] << 8)
                ev.append(("emcy", o.k, code, data[2], data[3:8], ts))
            elif what == "nmt":
                cmd, target = data[0], data[1]
                if target in (0, o.n) and cmd in NMT_CMD:
                    o.state = STATE_NAME[NMT_CMD[cmd]]
            elif what == "req":
                serial = (o.k + 1).to_bytes(4, "little")
                ok = {bytes([0x43, 0x00, 0x20, 0x00]) + serial,      # expedited, size indicated
                      bytes([0x42, 0x00, 0x20, 0x00]) + serial,      # expedited, size not indicated
                      bytes([0x41, 0x00, 0x20, 0x00, 4, 0, 0, 0])}   # segmented, size 4
                ev.append(("tx", 0x580 + o.n, ok, False, False))
        ref_scan(self.scan, can_id)
        return ev


def _events_match(exp, got):
    if len(exp) != len(got):
        return False
    for e, g in zip(exp, got):
        if e[0] == "tx":
            if g[0] != "tx" or g[1] != e[1] or g[2] not in e[2] or tuple(g[3:]) != tuple(e[3:]):
                return False
        elif e[0] == "cb":
            if tuple(e) != tuple(g):
                return False
            if type(g[2]) is not int:
                return False
        elif tuple(e) != tuple(g):
            return False
    return True


def _show_events(evs):
    out = []
    for e in evs:
        if e[0] == "cb":
            out.append(f"cb{e[1]}(id={e[2]:#x}, data={bytes(e[3]).hex()}, ts={e[4]!r}, nodes={e[5]})")
        elif e[0] == "tx":
            d = e[2]
            d = "|".join(sorted(x.hex() for x in d)) if isinstance(d, (set, frozenset)) else bytes(d).hex()
            out.append(f"tx({e[1]:#x}#{d}{' R' if e[3] else ''}{' X' if e[4] else ''})")
        elif e[0] == "emcy":
            out.append(f"emcy(node-object {e[1]}, code={e[2]:#x}, reg={e[3]}, data={bytes(e[4]).hex()}, ts={e[5]!r})")
        else:
            out.append(f"{e[0]}(node-object {e[1]}, {e[2]})")
    return "[" + ", ".join(out) + "]"


def sweep_data(can_id):
    if can_id == 0:
        return [bytes([1, 0]), bytes([2, 0])]
    if 0x701 <= can_id <= 0x77F:
        return [bytes([5])]
    if 0x81 <= can_id <= 0xFF:
        return [bytes([0x10, 0x81, 0x01, 1, 2, 3, 4, 5])]
    if 0x601 <= can_id <= 0x67F:
        return [UPLOAD_2000]
    return [bytes([0xA5, can_id & 0xFF, 0x5A])]


class _End(Exception):
    """History cut (state undefined from here on by the stated assumptions)."""


def run_hist(case) -> Outcome:
    import can
    import canopen

    rig = Rig()
    net = rig.net
    m = Model()
    D = []
    stats = {"dup": 0, "removed": 0, "frames": 0, "special": 0, "nodes": 0, "cut": False, "sent": 0, "ts0": 0}

    def bad(sig, detail, step):
        D.append(Discrepancy(f"C10/{sig}", f"step {step}: {detail}"))

    table_seen = {}
    base = {}
    if isinstance(getattr(net, "subscribers", None), Mapping):
        base = {can_id: list(cbs) for can_id, cbs in net.subscribers.items() if cbs}

    def deliver(can_id, data, ts, via, step):
        rig.events.clear()
        before = m.probe()
        scan_before = list(m.scan)
        try:
            if via == "notify":
                net.notify(can_id, bytearray(data), ts)
            else:
                msg = can.Message(arbitration_id=can_id, data=data, timestamp=ts,
                                  is_extended_id=can_id > 0x7FF,
                                  is_remote_frame=via in ("remote", "remote+error"),
                                  is_error_frame=via in ("error", "remote+error"))
                net.listeners[0].on_message_received(msg)
        except Exception as e:
            bad("dispatch/raises", f"frame {can_id:#x}#{data.hex()} via {via}: {type(e).__name__}: {e}", step)
            return
        got = list(rig.events)
        if via in ("notify", "listener"):
            exp = m.expect(can_id, data, ts)
            tag = "dispatch"
        else:
            exp = []
            tag = "flagged-frame-dispatched"
        if not _events_match(exp, got):
            bad(f"{tag}/events", f"frame {can_id:#x}#{data.hex()} ts={ts!r} via {via}: model subscribers "
                f"{m.subs.get(can_id, [])}; expected events {_show_events(exp)} got {_show_events(got)}", step)
            return
        real, want = rig.probe(), m.probe()
        if real != want:
            which = [k for k, (r, w) in enumerate(zip(real, want)) if r != w]
            bad(f"{tag}/node-effects", f"frame {can_id:#x}#{data.hex()} ts={ts!r} via {via}: node objects {which} "
                f"(kind,id,attached: {[(m.objs[k].kind, m.objs[k].n, m.attached.get(m.objs[k].n) == k) for k in which]}) "
                f"show {[real[k] for k in which]} want {[want[k] for k in which]} (before: "
                f"{[before[k] for k in which]})", step)
            return
        sc = list(net.scanner.nodes)
        if via in ("notify", "listener"):
            if sc != m.scan:
                bad("scanner/history", f"after frame {can_id:#x}: scanner.nodes = {sc} want {m.scan}", step)
        else:
            alt = list(scan_before)
            ref_scan(alt, can_id)
            if sc == alt:
                m.scan = alt
            elif sc != scan_before:
                bad("scanner/history", f"after {via} frame {can_id:#x}: scanner.nodes = {sc}, was {scan_before}", step)

    def check_table(step):
        """Network.subscribers (the property's 'CAN id -> ordered list of callbacks') against the reference
        multimap: as many callbacks per id as the model has keys, the user's callbacks at the model's positions,
        and no user callback where the model has a node handler. A handler that nobody can reach any more (left
        behind by a node add / replace / remove, however it ended) shows up here at once and not only as an
        effect on some object still observed."""
        subs = getattr(net, "subscribers", None)
        if not isinstance(subs, Mapping):
            stats["no-table"] = True
            return
        pool = [rig.cb(j) for j in range(NCB)]
        for can_id in sorted(set(m.subs) | set(subs)):
            want = m.subs.get(can_id, [])
            have = list(subs.get(can_id, ()))
            own = base.get(can_id, [])
            if own and have[:len(own)] == own:
                # what a fresh Network subscribes for its own services (LSS master) is not part of the history;
                # no generated op touches that id
                have = have[len(own):]
            if len(have) != len(want):
                bad("subscribers/table", f"{len(have)} callbacks are subscribed to {can_id:#x} "
                    f"({[getattr(h, '__qualname__', type(h).__name__) for h in have]}), by the history it is "
                    f"{len(want)}: {want}", step)
                return
            seen = (tuple(map(id, have)), tuple(want))
            if table_seen.get(can_id) == seen:
                continue        # same callback objects, same model keys as at the last comparison
            table_seen[can_id] = seen
            for pos, (key, cb) in enumerate(zip(want, have)):
                mine = [j for j in range(NCB) if cb == pool[j]]
                if mine != ([key[1]] if key[0] == "u" else []):
                    bad("subscribers/table-order", f"position {pos} of the callbacks subscribed to {can_id:#x} "
                        f"holds {'user callback(s) ' + str(mine) if mine else 'a handler of the library'}, by the "
                        f"history it is {key} (all: {want})", step)
                    return

    def new_obj(kind, n, node):
        k = rig.register(kind, node)
        o = MObj(kind, n, k, node.nmt.state)
        m.objs.append(o)
        stats["nodes"] += 1
        return o

    def put(n, o, call, what, step):
        """Model + real: node object o becomes network[n] through call()."""
        old = m.objs[m.attached[n]] if n in m.attached else None
        may_raise = old is not None and old.stripped
        try:
            call()
        except Exception as e:
            if may_raise:
                raise _End()
            bad(f"{what}/raises", f"{what} node {n}: {type(e).__name__}: {e}", step)
            return
        if old is not None:
            m.detach(old)
            stats["removed"] += 1
        m.attach(o)
        try:
            ok = net[n] is rig.nodes[o.k][1] and n in net
        except Exception:
            ok = False
        if not ok:
            bad("nodes/mapping", f"after {what} node {n}: network[{n}] is not the node just added", step)

    try:
        for step, op in enumerate(case["ops"]):
            kind = op["op"]
            if kind == "sub":
                try:
                    net.subscribe(op["id"], rig.cb(op["cb"]))
                except Exception as e:
                    bad("subscribe/raises", f"subscribe({op['id']:#x}, cb{op['cb']}): {type(e).__name__}: {e}", step)
                if not m.subscribe(op["id"], ("u", op["cb"])):
                    stats["dup"] += 1
            elif kind == "unsub":
                present = m.unsubscribe(op["id"], ("u", op["cb"]))
                try:
                    net.unsubscribe(op["id"], rig.cb(op["cb"]))
                except Exception as e:
                    if present:
                        bad("unsubscribe/raises", f"unsubscribe({op['id']:#x}, cb{op['cb']}) of a subscribed "
                            f"callback: {type(e).__name__}: {e}", step)
            elif kind == "unsub_all":
                lst = m.subs.get(op["id"], [])
                try:
                    net.unsubscribe(op["id"])
                except Exception as e:
                    if lst:
                        bad("unsubscribe/raises", f"unsubscribe({op['id']:#x}) with subscribers {lst}: "
                            f"{type(e).__name__}: {e}", step)
                for key in lst:
                    if key[0] != "u":
                        m.objs[key[1]].stripped = True
                m.subs[op["id"]] = []
            elif kind == "frame":
                via = op["via"]
                stats["frames" if via in ("notify", "listener") else "special"] += 1
                if via == "listener" and not op["ts"]:
                    stats["ts0"] += 1
                deliver(op["id"], bytes(op["data"]), op["ts"], via, step)
            elif kind in ("add_remote", "add_remote_int", "add_remote_eds", "create_local", "set_local"):
                n = op["n"]
                if kind == "add_remote":
                    node = canopen.RemoteNode(n, canopen.ObjectDictionary())
                    o = new_obj("remote", n, node)
                    put(n, o, lambda: net.add_node(node), kind, step)
                elif kind == "set_local":
                    node = canopen.LocalNode(n, _local_od(len(rig.nodes) + 1))
                    o = new_obj("local", n, node)

                    def call():
                        net[n] = node
                    put(n, o, call, kind, step)
                else:
                    # the library creates the object; it is registered right after the call
                    box = {}
                    serial = len(rig.nodes) + 1
                    if kind == "add_remote_int":
                        def call():
                            box["node"] = net.add_node(n, canopen.ObjectDictionary())
                    elif kind == "add_remote_eds":
                        # the dictionary is to be uploaded from the device first (object 0x1021 read through
                        # SDO); the device answers as op["dev"] says: not at all, with an abort, with an EDS,
                        # with something that is none, or it goes silent after some responses. However the
                        # upload ends, this is a node add like any other: the responses are frames received
                        # on 0x580+n and go to whoever is subscribed there at that moment (the node being
                        # replaced is still attached), and afterwards exactly the new node's handlers are added.
                        mode = op.get("dev", "silent")
                        if any(key[0] == "req" for key in m.subs.get(0x580 + n, [])):
                            # a local node's SDO server listens on this id (its node id is n - 32) and would
                            # answer the device's responses from inside the transmit call: keep the bus silent
                            mode = "silent"
                        stats["eds-" + ("lose" if mode.startswith("lose") else mode)] = True
                        dev = RefEdsDevice(mode)
                        eds_exp = []

                        def device(fr, n=n, dev=dev, eds_exp=eds_exp):
                            if fr.can_id != 0x600 + n or fr.remote:
                                return
                            out = dev.reply(bytes(fr.data))
                            if out is not None:
                                ts = 7000.0 + 0.5 * dev.replies
                                eds_exp.extend(m.expect(0x580 + n, out, ts))
                                rig.hub.route(Frame(0x580 + n, out, ts=ts, src=rig.peer_port))

                        def call():
                            from canopen.sdo import SdoClient
                            keep = SdoClient.RESPONSE_TIMEOUT
                            SdoClient.RESPONSE_TIMEOUT = 0.001
                            rig.device = device
                            try:
                                box["node"] = net.add_node(n, upload_eds=True)
                            finally:
                                rig.device = None
                                SdoClient.RESPONSE_TIMEOUT = keep
                        rig.events.clear()
                    else:
                        def call():
                            box["node"] = net.create_node(n, _local_od(serial))
                    old = m.objs[m.attached[n]] if n in m.attached else None
                    try:
                        call()
                    except Exception as e:
                        if old is not None and old.stripped:
                            raise _End()
                        bad(f"{kind}/raises", f"{kind} node {n}: {type(e).__name__}: {e}", step)
                        break
                    node = box["node"]
                    if kind == "add_remote_eds":
                        # the SUT's own requests (and a closing abort) on 0x600+n are not judged here (C01/C02);
                        # everything else in the log must be the dispatch of the device's responses
                        got = [e for e in rig.events if not (e[0] == "tx" and e[1] == 0x600 + n)]
                        if rig.port.notify_errors:
                            fr, e = rig.port.notify_errors[0]
                            bad("add_remote_eds/dispatch-raises", f"response {fr!r} of the device during the "
                                f"upload: {type(e).__name__}: {e}", step)
                            break
                        if not _events_match(eds_exp, got):
                            bad("add_remote_eds/events", f"device '{mode}' answered {dev.replies} requests on "
                                f"{0x580 + n:#x}; model subscribers there {m.subs.get(0x580 + n, [])}; expected "
                                f"events {_show_events(eds_exp)} got {_show_events(got)}", step)
                            break
                        if mode == "ok":
                            try:
                                if 0x1000 in node.object_dictionary:
                                    stats["eds-uploaded"] = True
                            except Exception:
                                pass
                    o = new_obj("remote" if kind in ("add_remote_int", "add_remote_eds") else "local", n, node)
                    if old is not None:
                        m.detach(old)
                        stats["removed"] += 1
                    m.attach(o)
                    try:
                        ok = net[n] is node
                    except Exception:
                        ok = False
                    if not ok:
                        bad("nodes/mapping", f"after {kind} node {n}: network[{n}] is not the returned node", step)
                    if kind == "add_remote_eds" and not D:
                        real, want = rig.probe(), m.probe()
                        if real != want:
                            bad("add_remote_eds/node-effects", f"after the upload (device '{mode}') the node objects "
                                f"show {real} want {want}", step)
                        elif list(net.scanner.nodes) != m.scan:
                            bad("scanner/history", f"after the upload from node {n} (device '{mode}', {dev.replies} "
                                f"responses): scanner.nodes = {list(net.scanner.nodes)} want {m.scan}", step)
            elif kind == "readd":
                if m.objs:
                    o = m.objs[op["k"] % len(m.objs)]
                    node = rig.nodes[o.k][1]
                    put(o.n, o, lambda: net.add_node(node), "readd", step)
            elif kind == "del":
                n = op["n"]
                old = m.objs[m.attached[n]] if n in m.attached else None
                try:
                    del net[n]
                except Exception as e:
                    if old is not None:
                        if old.stripped:
                            raise _End()
                        bad("del/raises", f"del network[{n}]: {type(e).__name__}: {e}", step)
                else:
                    if old is not None:
                        m.detach(old)
                        stats["removed"] += 1
                        if n in net.nodes:
                            bad("nodes/mapping", f"after del network[{n}] the id is still in network.nodes", step)
            elif kind == "add_sdo":
                remotes = [o for o in m.objs if o.kind == "remote"]
                if remotes:
                    o = remotes[op["k"] % len(remotes)]
                    node = rig.nodes[o.k][1]
                    try:
                        node.add_sdo(op["rx"], op["tx"])
                    except Exception as e:
                        bad("add_sdo/raises", f"node {o.n}.add_sdo({op['rx']:#x}, {op['tx']:#x}): "
                            f"{type(e).__name__}: {e}", step)
                    o.chans.append(op["tx"])
                    o.q.append([])
                    if m.attached.get(o.n) == o.k:
                        m.subscribe(op["tx"], ("sdo", o.k, len(o.chans) - 1))
            elif kind == "scanner_reset":
                net.scanner.reset()
                m.scan = []
            elif kind == "send":
                # an outgoing frame in the middle of the history: the peer sees exactly id / data / remote flag,
                # the format follows the id, nothing is dispatched locally
                stats["sent"] += 1
                raw = bytes(op["data"])
                arg = (raw, list(raw), bytearray(raw))[op["as"] % 3]
                rig.events.clear()
                try:
                    net.send_message(op["id"], arg, op["remote"])
                except Exception as e:
                    bad("send_message/raises", f"send_message({op['id']:#x}, {arg!r}, remote={op['remote']}): "
                        f"{type(e).__name__}: {e}", step)
                    break
                # a remote frame has no data field: only its flag, id and format are pinned
                exp = [("tx", op["id"], {raw, b""} if op["remote"] else {raw}, bool(op["remote"]), op["id"] > 0x7FF)]
                got = list(rig.events)
                if not _events_match(exp, got):
                    bad("send_message/history", f"send_message({op['id']:#x}, {arg!r}, remote={op['remote']}): "
                        f"expected on the bus {_show_events(exp)} got {_show_events(got)}", step)
            else:
                raise ValueError(kind)
            if not D and kind not in ("frame", "send", "scanner_reset"):
                check_table(step)
            if D:
                break
        if not D:
            check_table("end of history")
        # sweep: one frame on every id that ever had a subscriber
        if not D:
            cnt = 0
            for can_id in sorted(m.ever):
                for data in sweep_data(can_id):
                    cnt += 1
                    ts = 9000000.5 + cnt if cnt % 3 == 0 else ts_class(cnt + len(case["ops"]), can_id * 131 + cnt)
                    deliver(can_id, data, ts, "listener" if cnt % 3 == 1 else "notify", f"sweep {can_id:#x}")
                    if D:
                        break
                if D:
                    break
        if not D:
            check_table("after the sweep")
        # what the SDO clients of remote nodes were handed
        if not D:
            for o in m.objs:
                if o.kind != "remote":
                    continue
                node = rig.nodes[o.k][1]
                for c, client in enumerate(node.sdo_channels):
                    got = []
                    while not client.responses.empty():
                        got.append(bytes(client.responses.get_nowait()))
                    if got != o.q[c]:
                        bad("dispatch/sdo-data", f"node object {o.k} (id {o.n}) channel {c} tx {o.chans[c]:#x} "
                            f"received {[g.hex() for g in got]} want {[g.hex() for g in o.q[c]]}", "end")
                        break
    except _End:
        stats["cut"] = True

    nontrivial = stats["dup"] >= 1 and stats["removed"] >= 1
    n_ops = len(case["ops"])
    klass = "hist/" + ("len<=5" if n_ops <= 5 else "len6-19" if n_ops < 20 else "len20-79" if n_ops < 80
                       else "len80-300")
    klass += "/nodes" + ("0" if stats["nodes"] == 0 else "1-2" if stats["nodes"] <= 2 else "3+")
    if stats["removed"]:
        klass += "/replace-or-remove"
    if stats["dup"]:
        klass += "/dup-subscribe"
    if stats["special"]:
        klass += "/remote-or-error-frame"
    if stats["ts0"]:
        klass += "/zero-timestamp"
    if stats["sent"]:
        klass += "/send"
    if stats.get("eds-uploaded"):
        klass += "/eds-uploaded"
    if any(stats.get("eds-" + x) for x in ("silent", "abort", "garbage", "exp", "lose")):
        klass += "/eds-upload-failed"
    if stats["cut"]:
        klass += "/cut-at-stripped-removal"
    if stats.get("no-table"):
        klass += "/subscriber-table-not-observable"
    return Outcome(nontrivial, klass, D)


# ----------------------------------------------------------------------------
def _id_data(can_id, k):
    n = (can_id + k) % 8 + 1
    return bytes(((can_id >> (i % 4) * 8) + 17 * i + k) & 0xFF for i in range(n))


def run_id(case) -> Outcome:
    import can
    import canopen

    can_id = case["id"]
    ext = can_id > 0x7FF
    D = []

    def bad(sig, detail):
        D.append(Discrepancy(f"C10/{sig}", f"id {can_id:#x}: {detail}"))

    hub = Hub()
    net, port = hub.attach("sut")

    def check_msg(msg, data, remote, how):
        want = b"" if data is None else bytes(data)
        if msg.arbitration_id != can_id or type(msg.arbitration_id) is not int:
            bad(f"{how}/id", f"message has arbitration id {msg.arbitration_id!r}")
        if bool(msg.is_extended_id) != ext:
            bad(f"{how}/extended-flag", f"is_extended_id = {msg.is_extended_id} want {ext}")
        if bool(msg.is_remote_frame) != remote:
            bad(f"{how}/remote-flag", f"is_remote_frame = {msg.is_remote_frame} want {remote}")
        if msg.is_error_frame:
            bad(f"{how}/error-flag", "is_error_frame set")
        if remote and want:
            # a remote frame has no data field; what becomes of a data argument given together with
            # remote=True (dropped, kept, its length used as DLC) is not pinned - only the flag, id and format
            if bytes(msg.data) not in (b"", want) or msg.dlc not in (0, len(want)):
                bad(f"{how}/data", f"remote frame: data = {bytes(msg.data).hex()} dlc {msg.dlc}, given {want.hex()}")
        elif bytes(msg.data) != want or msg.dlc != len(want):
            bad(f"{how}/data", f"data = {bytes(msg.data).hex()} dlc {msg.dlc} want {want.hex()}")

    d1, d2 = _id_data(can_id, 1), _id_data(can_id, 2)
    variants = [(b"", False), (d1, False), (list(d2), False), (bytearray(d1[::-1]), False),
                (bytes([0xFF] * 8), False), (b"", True),
                # the remote flag is the caller's, whatever the data argument is
                (d1, True), (list(d2), True), (bytearray(d2[::-1]), True), (bytes(1), True)]
    for data, remote in variants:
        n0 = len(port.raw_messages)
        try:
            net.send_message(can_id, data, remote)
        except Exception as e:
            bad("send_message/raises", f"send_message(data={data!r}, remote={remote}): {type(e).__name__}: {e}")
            continue
        new = port.raw_messages[n0:]
        if len(new) != 1:
            bad("send_message/count", f"{len(new)} messages handed to the bus for one send_message")
            continue
        check_msg(new[0], data, remote, "send_message")
    for i, (data, remote) in enumerate(variants + [(None, True)]):
        n0, t0 = len(port.raw_messages), len(hub.tasks)
        period = 0.001 * (1 + (can_id + i) % 7)
        try:
            task = net.send_periodic(can_id, data, period, remote)
        except Exception as e:
            bad("send_periodic/raises", f"send_periodic(data={data!r}, remote={remote}): {type(e).__name__}: {e}")
            continue
        new = hub.tasks[t0:]
        if len(new) != 1 or len(port.raw_messages) != n0:
            bad("send_periodic/count", f"{len(new)} cyclic tasks, {len(port.raw_messages) - n0} direct sends "
                "for one send_periodic")
        else:
            check_msg(new[0].msg, data, remote, "send_periodic")
            if new[0].period != period:
                bad("send_periodic/period", f"period {new[0].period!r} want {period!r}")
            if not remote and not D:
                # the documented task.update(data): the frame that goes on transmitting keeps id, flags
                # and format and carries the new data - on buses that modify the running task in place
                # and on buses where the task has to be stopped and started again
                for modifiable in (True, False):
                    hub.modifiable_tasks = modifiable
                    t1 = len(hub.tasks)
                    try:
                        tk = net.send_periodic(can_id, data, period, remote)
                        nd = bytes(_id_data(can_id, 3 + i))
                        tk.update(nd)
                        live = [t for t in hub.tasks[t1:] if t.live]
                        if len(live) != 1:
                            bad("update/count", f"{len(live)} live tasks after update() (modify_data={modifiable})")
                        else:
                            check_msg(live[0].msg, nd, remote, f"update/modify_data={modifiable}")
                        tk.stop()
                    except Exception as e:
                        bad("update/raises", f"update() after send_periodic(data={data!r}): {type(e).__name__}: {e}")
                hub.modifiable_tasks = True
            elif remote and not D:
                # a periodic remote frame (node guarding) stays a remote frame whatever update() is given
                for modifiable in (True, False):
                    hub.modifiable_tasks = modifiable
                    t1 = len(hub.tasks)
                    try:
                        tk = net.send_periodic(can_id, data, period, remote)
                        tk.update(b"")
                        tk.update(bytes(_id_data(can_id, 3 + i))[:0])
                        try:
                            # data for a frame without data field: refusing it is accepted; if it is taken,
                            # what goes on transmitting is still the remote frame
                            tk.update(bytes(_id_data(can_id, 3 + i)))
                        except Exception:
                            pass
                        live = [t for t in hub.tasks[t1:] if t.live]
                        if len(live) != 1:
                            bad("update/count", f"{len(live)} live tasks after update() of a remote-frame task "
                                                f"(modify_data={modifiable})")
                        elif not live[0].msg.is_remote_frame or live[0].msg.arbitration_id != can_id or \
                                bool(live[0].msg.is_extended_id) != ext:
                            bad(f"update/modify_data={modifiable}/remote-flag",
                                f"after update() the periodic remote frame is {live[0].msg}")
                        tk.stop()
                    except Exception as e:
                        bad("update/raises", f"update() of a remote-frame task: {type(e).__name__}: {e}")
                hub.modifiable_tasks = True
        try:
            task.stop()
        except Exception as e:
            bad("send_periodic/raises", f"task.stop(): {type(e).__name__}: {e}")

    # reception: one callback on this id, one on a neighbour; 4 flag combinations
    log = []
    other = can_id ^ 1
    net.subscribe(can_id, lambda i, d, t: log.append(("this", i, bytes(d), t)))
    net.subscribe(other, lambda i, d, t: log.append(("other", i, bytes(d), t)))
    if ext:
        # the 11-bit id with the same low bits must not hear a 29-bit frame
        net.subscribe(can_id & 0x7FF, lambda i, d, t: log.append(("low11", i, bytes(d), t)))
    scan = []
    for j, (remote, error) in enumerate([(False, False), (True, False), (False, True), (True, True),
                                         (False, False), (False, False), (False, False), (False, False)]):
        # the timestamp is the frame's, whatever it is: j = 0..4 dyadic Unix time, then no timestamp at all
        # (0.0 / 0), then two further value classes that move with the id
        ts = (1700000000.25 + j + can_id if j < 5 else (0.0, 0)[can_id % 2] if j == 5 else
              ts_class(2 + (can_id + j) % 6, can_id * 7919 + j))
        data = _id_data(can_id, 3 + j)
        log.clear()
        msg = can.Message(arbitration_id=can_id, data=data, timestamp=ts, is_extended_id=ext,
                          is_remote_frame=remote, is_error_frame=error)
        try:
            net.listeners[0].on_message_received(msg)
        except Exception as e:
            bad("listener/raises", f"{type(e).__name__}: {e}")
            continue
        want = [] if (remote or error) else [("this", can_id, data, ts)]
        if log != want:
            bad("listener/" + ("dispatch" if not (remote or error) else "flagged-frame-dispatched"),
                f"remote={remote} error={error}: callbacks saw {log} want {want}")
        if not (remote or error):
            ref_scan(scan, can_id)
            if list(net.scanner.nodes) != scan:
                bad("scanner/single", f"through Network: scanner.nodes = {net.scanner.nodes} want {scan}")
    alone = canopen.network.NodeScanner()
    want = []
    for _ in range(2):
        alone.on_message_received(can_id)
        ref_scan(want, can_id)
        if list(alone.nodes) != want:
            bad("scanner/single", f"stand-alone: scanner.nodes = {alone.nodes} want {want}")
    nontrivial = ext or can_id >= 0x7F0
    if ext:
        klass = "id/29-bit/" + ("low-bits-look-like-service" if (can_id & 0x7FF) // 128 in PCS_TX and can_id & 0x7F
                                else "other")
    else:
        fc, node = divmod(can_id, 128)
        klass = "id/11-bit/" + (PCS_TX[fc] if fc in PCS_TX and node else "node0" if node == 0 else "not-listed")
    return Outcome(nontrivial, klass, D)


# ----------------------------------------------------------------------------
def perm_ids(a, b, ext_every):
    out = []
    for i in range(2048):
        can_id = (a * i + b) % 2048
        if ext_every and i % ext_every == 0:
            out.append(((1 + (i * 40503) % 0x3FFFF) << 11) | can_id)
        out.append(can_id)
    return out


def run_scan(case) -> Outcome:
    import canopen

    if "perm" in case:
        ids = perm_ids(*case["perm"])
    else:
        ids = case["ids"]
    resets = set(case.get("resets", []))
    D = []
    hub = Hub()
    net, port = hub.attach("sut")
    scanners = [("stand-alone", canopen.network.NodeScanner(), None), ("network", net.scanner, net)]
    want = []
    repeat = False
    for i, can_id in enumerate(ids):
        if i in resets:
            want = []
            for _, sc, _n in scanners:
                sc.reset()
        if can_id <= 0x7FF and can_id % 128 in want and can_id // 128 in PCS_TX:
            repeat = True
        ref_scan(want, can_id)
        for name, sc, n in scanners:
            try:
                if n is None:
                    sc.on_message_received(can_id)
                else:
                    n.notify(can_id, bytearray(b"\x05"), 1.0 + i)
            except Exception as e:
                D.append(Discrepancy("C10/scanner/raises", f"{name}: id {can_id:#x}: {type(e).__name__}: {e}"))
                break
            if list(sc.nodes) != want:
                D.append(Discrepancy("C10/scanner/sequence",
                                     f"{name}: after ids {[hex(x) for x in ids[max(0, i - 5):i + 1]]} (position {i}) "
                                     f"scanner.nodes = {list(sc.nodes)[-8:]} (len {len(sc.nodes)}) want "
                                     f"{want[-8:]} (len {len(want)})"))
                break
        if D:
            break
    has_ext = any(x > 0x7FF for x in ids)
    klass = "scan/" + ("permutation-of-all-11-bit" if "perm" in case else
                       "len<=8" if len(ids) <= 8 else "len9-80")
    if has_ext:
        klass += "/with-29-bit"
    if repeat:
        klass += "/repeats"
    if resets:
        klass += "/reset"
    return Outcome(repeat or has_ext, klass, D)


def run_case(case) -> Outcome:
    fam = case["fam"]
    if fam == "hist":
        return run_hist(case)
    if fam == "id":
        return run_id(case)
    if fam == "scan":
        return run_scan(case)
    if fam == "bus":
        return run_bus(case)
    raise ValueError(fam)


_bus_serial = [0]


def run_bus(case) -> Outcome:
    """Frames received through a real python-can bus (interface 'virtual') and the library's own
    notifier thread, over a history of connect / disconnect / connect: a subscription made on the
    Network object is served in every connected phase. A frame given as [id, data, timestamp] is sent by
    a peer that preserves the timestamp of the message (python-can: preserve_timestamps), so the frame the
    Network's bus receives carries exactly that timestamp and the callback must be handed it."""
    import os
    import time

    import can
    import canopen
    D = []
    _bus_serial[0] += 1
    channel = f"verif-c10-{os.getpid()}-{_bus_serial[0]}"
    net = canopen.Network()
    net.NOTIFIER_CYCLE = 0.01
    got = []
    ids = sorted({f[0] for ph in case["phases"] for f in ph})
    stamped = {f[0] for ph in case["phases"] for f in ph if len(f) > 2}
    for can_id in ids:
        if can_id in stamped:
            net.subscribe(can_id, lambda i, d, t: got.append((i, bytes(d), t)))
        else:
            net.subscribe(can_id, lambda i, d, t: got.append((i, bytes(d))))
    try:
        for k, frames in enumerate(case["phases"]):
            net.connect(interface="virtual", channel=channel)
            peer = can.Bus(interface="virtual", channel=channel, preserve_timestamps=True)
            try:
                want = []
                mark = len(got)
                for fr in frames:
                    can_id, data = fr[0], fr[1]
                    if can_id in stamped:
                        ts = fr[2] if len(fr) > 2 else 1.5
                        peer.send(can.Message(arbitration_id=can_id, data=bytes(data), is_extended_id=can_id > 0x7FF,
                                              timestamp=ts))
                        want.append((can_id, bytes(data), ts))
                    else:
                        peer.send(can.Message(arbitration_id=can_id, data=bytes(data), is_extended_id=can_id > 0x7FF))
                        want.append((can_id, bytes(data)))
                end = time.monotonic() + 5.0
                while len(got) - mark < len(want) and time.monotonic() < end:
                    time.sleep(0.002)
                time.sleep(0.01)
                if got[mark:] != want:
                    D.append(Discrepancy("C10/bus/reception",
                                         f"connected phase {k + 1} of {len(case['phases'])}: frames sent by a peer "
                                         f"{[(hex(w[0]), w[1].hex()) + tuple(w[2:]) for w in want]} (id, data"
                                         f"[, timestamp]), subscribed callbacks saw "
                                         f"{[(hex(g[0]), g[1].hex()) + tuple(g[2:]) for g in got[mark:]]}"))
                    break
            finally:
                peer.shutdown()
                net.disconnect()
    finally:
        if net.bus is not None:
            try:
                net.disconnect()
            except Exception:
                pass
    return Outcome(len(case["phases"]) > 1, f"bus/phases{len(case['phases'])}", D)


# ---- generation --------------------------------------------------------------
def id_pool(nodes, free11, free29):
    ids = [0]
    for n in nodes[:2]:
        ids += [0x700 + n, 0x80 + n, 0x580 + n, 0x600 + n]
    ids += [free11, 0x10000000 | (0x700 + nodes[0]), free29, (0x80 + nodes[0]) | 0x800]
    return ids


def frame_data(can_id, nodes, c, d):
    if can_id == 0:
        return bytes([(1, 2, 128)[c % 3], ([0] + list(nodes) + [nodes[0] % 127 + 1])[d % (len(nodes) + 2)]])
    if 0x701 <= can_id <= 0x77F:
        s = (0, 4, 5, 127)[c % 4]
        if s and d & 1:
            s |= 0x80
        return bytes([s])
    if 0x81 <= can_id <= 0xFF:
        return bytes([d, c, (c * 3 + d) & 0xFF, c ^ d, d, c, (c + d) & 0xFF, 0x11])
    if 0x601 <= can_id <= 0x67F:
        return UPLOAD_2000
    return bytes((d * 7 + i * 31 + c) & 0xFF for i in range(c % 9))


def decode(nodes, free11, free29, raw):
    """Turn raw integer tuples into a history (pure; keeps a light model so that unsubscribe-all rarely strips
    the library's own handlers)."""
    ids = id_pool(nodes, free11, free29)
    ops = []
    objs = []          # (kind, n, [extra tx])
    attached = {}

    def node_ids():
        s = set()
        for n, k in attached.items():
            s.add(0)
            kind, _, txs = objs[k]
            if kind == "remote":
                s.update((0x700 + n, 0x80 + n, 0x580 + n))
                s.update(txs)
            else:
                s.add(0x600 + n)
        return s

    def pick_id(a):
        # the first ids of the pool (NMT, first node's heartbeat/EMCY/SDO) are favoured
        return ids[a % len(ids)] if a < 160 else ids[a % 5]

    def pick_node(b):
        return nodes[0] if b < 150 else nodes[b % len(nodes)]

    for i, (kind, a, b, c) in enumerate(raw):
        if kind <= 2:
            ops.append({"op": "sub", "id": pick_id(a), "cb": b % NCB})
        elif kind == 3:
            ops.append({"op": "unsub", "id": pick_id(a), "cb": b % NCB})
        elif kind == 4:
            can_id = pick_id(a)
            if can_id in node_ids() and c < 248:
                ops.append({"op": "unsub", "id": can_id, "cb": b % NCB})
            else:
                ops.append({"op": "unsub_all", "id": can_id})
        elif kind <= 9 or kind == 15:
            can_id = pick_id(a)
            if kind == 15:
                if c < 40:
                    ops.append({"op": "scanner_reset"})
                    continue
                if c < 72:
                    ops.append({"op": "send", "id": can_id, "data": bytes((b + 29 * j) & 0xFF for j in range(b % 9)),
                                "as": a // 16, "remote": c % 2 == 1})
                    continue
                via = ("remote", "error", "remote+error", "listener")[c % 4]
            else:
                via = "listener" if kind == 9 else "notify"
            ts = 1000.0 + i * 0.25 if c < 150 else ts_class(c, a * 65536 + b * 256 + c)
            ops.append({"op": "frame", "id": can_id, "data": frame_data(can_id, nodes, b, c), "ts": ts,
                        "via": via})
        elif kind in (10, 11):
            n = pick_node(b)
            what = (("add_remote", "add_remote_int", "add_remote", "add_remote_eds") if kind == 10
                    else ("create_local", "set_local"))[a % (4 if kind == 10 else 2)]
            ops.append({"op": what, "n": n})
            if what == "add_remote_eds":
                ops[-1]["dev"] = DEV_MODES[c % len(DEV_MODES)]
            objs.append(("remote" if kind == 10 else "local", n, []))
            attached[n] = len(objs) - 1
        elif kind == 12:
            n = pick_node(b)
            ops.append({"op": "del", "n": n})
            attached.pop(n, None)
        elif kind == 13:
            remotes = [k for k, o in enumerate(objs) if o[0] == "remote"]
            tx = ids[b % len(ids)]
            ops.append({"op": "add_sdo", "k": a, "rx": 0x600 + (c % 127) + 1, "tx": tx})
            if remotes:
                objs[remotes[a % len(remotes)]][2].append(tx)
        elif kind == 14:
            ops.append({"op": "readd", "k": a})
            if objs:
                k = a % len(objs)
                attached[objs[k][1]] = k
    return {"fam": "hist", "nodes": list(nodes), "ops": ops}


def enum_hist(maxlen):
    """Every history of length 1..maxlen over two small alphabets."""
    A = 0x123
    n = 5
    alpha1 = [{"op": "sub", "id": A, "cb": 2}, {"op": "sub", "id": A, "cb": 3},
              {"op": "unsub", "id": A, "cb": 2}, {"op": "unsub", "id": A, "cb": 3},
              {"op": "unsub_all", "id": A},
              {"op": "frame", "id": A, "data": b"\x01\x02\x03", "ts": 1700000000.123457, "via": "notify"}]
    alpha2 = [{"op": "add_remote", "n": n}, {"op": "create_local", "n": n}, {"op": "del", "n": n},
              {"op": "readd", "k": 0}, {"op": "add_sdo", "k": 0, "rx": 0x640, "tx": 0x5C0},
              {"op": "sub", "id": 0x80 + n, "cb": 0},
              {"op": "frame", "id": 0x80 + n, "data": bytes([0x10, 0x81, 1, 0, 0, 0, 0, 0]), "ts": 0.0,
               "via": "listener"}]
    tx = 0x580 + n
    alpha3 = [{"op": "add_remote_eds", "n": n, "dev": d} for d in ("silent", "abort", "ok", "lose2")] + \
             [{"op": "add_remote", "n": n}, {"op": "del", "n": n}, {"op": "sub", "id": tx, "cb": 2},
              {"op": "frame", "id": tx, "data": bytes([0x60, 0, 0x20, 0, 0, 0, 0, 0]), "ts": 0.000271,
               "via": "notify"}]
    for alpha, cut in ((alpha1, 0), (alpha2, 0), (alpha3, 1)):
        def rec(prefix, depth):
            if prefix:
                yield {"fam": "hist", "nodes": [n], "ops": list(prefix)}
            if depth == 0:
                return
            for x in alpha:
                prefix.append(x)
                yield from rec(prefix, depth - 1)
                prefix.pop()
        yield from rec([], maxlen - cut)


def _unpack_bytes(b):
    return [(b[i] & 15, b[i + 1], b[i + 2], b[i + 3]) for i in range(0, len(b) - 3, 4)]


def _unpack_int(v):
    # Hypothesis favours small integers; an odd multiplier mod 2^28 is a bijection that spreads them over all fields
    v = (v * 0x9E3779B1) & 0xFFFFFFF
    return (v & 15, (v >> 4) & 255, (v >> 12) & 255, (v >> 20) & 255)


def hist_strategy(maxlen, long=False):
    """long=False: a list with one integer per op (shrinks well: ops can be deleted one by one);
    long="bytes": one byte string, 4 bytes per op (Hypothesis draws that several times faster, shrinks badly)."""
    if long == "bytes":
        raw = st.one_of(st.binary(min_size=4 * 12, max_size=4 * 60),
                        st.binary(min_size=4 * 60, max_size=4 * maxlen)).map(_unpack_bytes)
    else:
        op = st.integers(0, (1 << 28) - 1).map(_unpack_int)
        if long:
            raw = st.one_of(st.lists(op, min_size=12, max_size=60), st.lists(op, min_size=60, max_size=maxlen))
        else:
            raw = st.lists(op, min_size=1, max_size=maxlen)
    node = st.one_of(st.sampled_from([1, 2, 126, 127]), st.integers(1, 127))
    # raw is drawn first: Hypothesis fills draws that come after a changed prefix with zeros far more often
    return st.tuples(
        raw,
        st.lists(node, min_size=2, max_size=3, unique=True),
        st.integers(1, 0x7FF).filter(lambda v: v != 0x7E4),
        st.integers(0x800, 0x1FFFFFFF),
    ).map(lambda t: decode(t[1], t[2], t[3], t[0]))


def decode_scan(raw, nodes, resets):
    """3 bytes per id: ids of the pooled nodes under all 16 function codes (repeats), any 11-bit id, 29-bit ids."""
    pool = list(nodes) + [0]
    ids = []
    for i in range(0, len(raw) - 2, 3):
        s, x, y = raw[i], raw[i + 1], raw[i + 2]
        svc = (x % 16) * 128 + pool[y % len(pool)]
        if s % 4 <= 1:
            ids.append(svc)
        elif s % 4 == 2:
            ids.append(((x << 8) | y) & 0x7FF)
        else:
            high = 1 + (((x << 8) | y | (s << 16)) * 2654435761) % 0x3FFFF
            ids.append((high << 11) | (svc if s & 4 else ((x << 8) | y) & 0x7FF))
    case = {"fam": "scan", "ids": ids}
    rs = sorted({r % len(ids) for r in resets if r % len(ids)})
    if rs:
        case["resets"] = rs
    return case


def scan_strategy():
    raw = st.one_of(st.binary(min_size=6, max_size=30), st.binary(min_size=60, max_size=240))
    return st.tuples(raw, st.lists(st.integers(1, 127), min_size=1, max_size=4),
                     st.lists(st.integers(1, 79), max_size=2)).map(lambda t: decode_scan(*t))


def node_templates():
    """Three mixed local/remote life cycles for every node id 1..127."""
    emcy = bytes([0x00, 0x50, 0x11, 9, 8, 7, 6, 5])
    for n in range(1, 128):
        hb, em, tx, rq = 0x700 + n, 0x80 + n, 0x580 + n, 0x600 + n

        def frames(t, n=n, hb=hb, em=em, tx=tx, rq=rq):
            def ts(j):
                # every timestamp class reaches the heartbeat / EMCY handlers of some node id, by both routes
                return ts_class(n + t + 3 * j, n * 1009 + t * 17 + j)
            vias = ("notify", "listener") if (n + t) % 2 else ("listener", "notify")
            return [{"op": "frame", "id": hb, "data": bytes([5 if t % 2 else 127]), "ts": ts(0), "via": vias[0]},
                    {"op": "frame", "id": em, "data": emcy, "ts": ts(1), "via": vias[1]},
                    {"op": "frame", "id": tx, "data": bytes([0x60, 0, 0x20, 0, 0, 0, 0, 0]), "ts": ts(2),
                     "via": "notify"},
                    {"op": "frame", "id": rq, "data": UPLOAD_2000, "ts": ts(3), "via": "listener"},
                    {"op": "frame", "id": 0, "data": bytes([(1, 2, 128)[t % 3], n if t % 2 else 0]), "ts": ts(4),
                     "via": vias[0]}]
        subs = [{"op": "sub", "id": i, "cb": j} for j, i in enumerate((hb, em, tx, rq, 0))]
        yield {"fam": "hist", "nodes": [n], "ops": subs[:2] + [{"op": "add_remote", "n": n}] + subs[2:] + frames(1) +
               [{"op": "sub", "id": hb, "cb": 0}, {"op": "create_local", "n": n}] + frames(2) +
               [{"op": "add_remote_int", "n": n}] + frames(3) + [{"op": "del", "n": n}] + frames(4)}
        # every way an EDS upload can end, for every node id: upload while nothing / a remote node / a local node
        # is at that id, frames on all its ids after each, then removal
        d = DEV_MODES[n % len(DEV_MODES):] + DEV_MODES[:n % len(DEV_MODES)]
        yield {"fam": "hist", "nodes": [n], "ops": subs[2:4] + [{"op": "add_remote_eds", "n": n, "dev": d[0]}] +
               frames(1) + subs[:2] + [{"op": "add_remote_eds", "n": n, "dev": d[1]}] + frames(2) +
               [{"op": "create_local", "n": n}, {"op": "add_remote_eds", "n": n, "dev": d[2]}] + frames(3) +
               [{"op": "readd", "k": 0}, {"op": "add_remote_eds", "n": n, "dev": d[3]}, {"op": "del", "n": n}] +
               frames(4) + [{"op": "add_remote_eds", "n": n, "dev": d[4]}, {"op": "unsub", "id": tx, "cb": 2},
                            {"op": "del", "n": n}] + frames(5)}
        yield {"fam": "hist", "nodes": [n], "ops": [{"op": "set_local", "n": n}] + subs + frames(1) +
               [{"op": "add_remote", "n": n}, {"op": "add_sdo", "k": 0, "rx": rq, "tx": em}] + frames(2) +
               [{"op": "sub", "id": em, "cb": 1}, {"op": "readd", "k": 1}] + frames(3) + [{"op": "readd", "k": 0}] +
               frames(4) + [{"op": "del", "n": n}, {"op": "del", "n": n}] + frames(5)}


def showcase():
    """A few hand-picked cases run first (they also become the evidence samples)."""
    n = 5
    hb, em, rq = 0x700 + n, 0x80 + n, 0x600 + n
    emcy = bytes([0x10, 0x81, 0x01, 1, 2, 3, 4, 5])
    yield {"fam": "hist", "nodes": [n], "ops": [
        {"op": "sub", "id": hb, "cb": 2}, {"op": "sub", "id": hb, "cb": 2}, {"op": "sub", "id": 0, "cb": 0},
        {"op": "add_remote", "n": n}, {"op": "sub", "id": hb, "cb": 3}, {"op": "sub", "id": em, "cb": 4},
        {"op": "frame", "id": hb, "data": b"\x05", "ts": 100.5, "via": "notify"},
        {"op": "frame", "id": em, "data": emcy, "ts": 1700000000.123457, "via": "listener"},
        {"op": "send", "id": hb, "data": b"\x00", "as": 0, "remote": True},
        {"op": "add_sdo", "k": 0, "rx": 0x640, "tx": hb},
        {"op": "frame", "id": hb, "data": b"\x7f", "ts": 102.5, "via": "remote"},
        {"op": "frame", "id": hb, "data": b"\x7f", "ts": 0.0, "via": "listener"},
        {"op": "create_local", "n": n}, {"op": "sub", "id": rq, "cb": 5},
        {"op": "frame", "id": rq, "data": UPLOAD_2000, "ts": 104.5, "via": "notify"},
        {"op": "frame", "id": 0, "data": bytes([1, n]), "ts": 105.5, "via": "notify"},
        {"op": "frame", "id": em, "data": emcy, "ts": 106.5, "via": "error"},
        {"op": "readd", "k": 0}, {"op": "unsub", "id": hb, "cb": 2},
        {"op": "frame", "id": hb, "data": b"\x04", "ts": 107.5, "via": "notify"},
        {"op": "del", "n": n}, {"op": "del", "n": n}, {"op": "unsub_all", "id": hb},
        {"op": "frame", "id": 0, "data": bytes([128, 0]), "ts": 108.5, "via": "listener"}]}
    tx = 0x580 + n
    resp = bytes([0x60, 0, 0x20, 0, 0, 0, 0, 0])
    yield {"fam": "hist", "nodes": [n], "ops": [
        {"op": "sub", "id": tx, "cb": 0}, {"op": "sub", "id": tx, "cb": 0},
        {"op": "add_remote_eds", "n": n, "dev": "lose1"},
        {"op": "frame", "id": tx, "data": resp, "ts": 1.5, "via": "notify"},
        {"op": "add_remote_eds", "n": n, "dev": "ok"},
        {"op": "frame", "id": tx, "data": resp, "ts": 2.5, "via": "listener"},
        {"op": "add_remote_eds", "n": n, "dev": "abort"}, {"op": "del", "n": n},
        {"op": "frame", "id": tx, "data": resp, "ts": 0.0, "via": "notify"}]}
    for can_id in (0x7FF, 0x800, 0x702, 0x10000702):
        yield {"fam": "id", "id": can_id}
    for phases in ([[(0x123, b"\x01")]], [[(0x123, b"\x01\x02")], [(0x123, b"\x03")]],
                   [[(0x702, b"\x05"), (0x1FFFFFFF, b"")], [(0x702, b"\x7f")], [(0x80, b"\x00" * 8), (0x702, b"\x04")]],
                   [[(0x123, b"\x01\x02", 0.0), (0x124, b"", 1700000000.123457)],
                    [(0x123, b"\x03", 1700000003), (0x10000124, b"\x09", 0.000271), (0x124, b"\x04" * 8, 0)]]):
        yield {"fam": "bus", "phases": [[list(f) for f in ph] for ph in phases]}
    yield {"fam": "scan", "ids": [0x702, 0x10000703, 0x582, 0x604, 0x184, 0x700, 0x81, 0x702], "resets": [7]}


def bus_cases(count):
    """Connect / disconnect histories over a real python-can bus with every frame's timestamp given."""
    pool = (0x123, 0x702, 0x85, 0x7FF, 0x800, 0x10000702, 0x1FFFFFFF, 0)
    for k in range(count):
        phases = []
        for p in range(1 + k % 3):
            frames = []
            for j in range(1 + (k + p) % 4):
                can_id = pool[(k * 3 + p * 5 + j) % len(pool)]
                data = b"" if (k + j) % 5 == 0 else _id_data(can_id, k + j)
                frames.append([can_id, data, ts_class(k + p + j, k * 4099 + p * 131 + j)])
            phases.append(frames)
        yield {"fam": "bus", "phases": phases}


def search(ctx):
    thorough = ctx.tier == "thorough"
    ctx.enumerate(showcase())
    ctx.hypothesis(hist_strategy(300 if thorough else 120, long=True), 6, salt=3)

    def ids():
        for can_id in range(0x800):
            yield {"fam": "id", "id": can_id}
        for i in range(262144 if thorough else 4096):
            yield {"fam": "id", "id": ext_sample(i)}

    ctx.enumerate(ids(), "send/receive/scanner rules for every 11-bit id and sampled 29-bit ids")

    def perms():
        mult = [1, 2047, 3, 5, 129, 257, 1025, 683, 1365, 7, 127, 255]
        if thorough:
            mult += list(range(9, 2048, 14))
        for j, a in enumerate(mult):
            yield {"fam": "scan", "perm": [a, (j * 977) % 2048, (0, 3, 7, 1)[j % 4]]}

    ctx.enumerate(perms(), "scanner fed every 11-bit id in permuted orders, 29-bit ids mixed in")
    ctx.enumerate(enum_hist(5 if thorough else 4), "all histories up to length 4 (quick) / 5 (thorough) over two "
                  "small alphabets and up to length 3 / 4 over a third one (node add with EDS upload: device "
                  "silent / aborting / answering / going silent after two responses)")
    ctx.enumerate(node_templates(), "three mixed remote/local life-cycle histories (one with EDS uploads that end in "
                  "every way) for every node id 1..127")
    ctx.enumerate(bus_cases(192 if thorough else 12), "frames with given timestamps (all value classes) received "
                  "through a python-can virtual bus and the library's notifier thread, 1-3 connected phases")
    n_short, n_mid, n_long, n_scan = EXAMPLES[ctx.tier]
    maxlen = 300 if thorough else 120
    # Round-robin in chunks, so that a budget running out (loaded machine) cuts every generator proportionally
    # instead of starving the last one, and no examples are generated after the budget is gone.
    # Within a round: the well-shrinking long histories before the fast kind.
    plan = [[hist_strategy(maxlen, long=True), n_mid, 5], [hist_strategy(maxlen, long="bytes"), n_long, 4],
            [hist_strategy(16), n_short, 2], [scan_strategy(), n_scan, 1]]
    rounds = 8 if thorough else 2
    for r in range(rounds):
        for strat, n, salt in plan:
            if ctx.over_budget():
                ctx.notes.append("time budget ran out during the Hypothesis rounds (exhaustive parts were complete)")
                return
            ctx.hypothesis(strat, (n + rounds - 1) // rounds, salt=salt + 10 * r)
