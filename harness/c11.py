"""C11 - NMT commands, states and heartbeats follow the CiA 301 state machine.

SUT: NmtBase / NmtMaster / NmtSlave through their owners: two RemoteNodes
("A", "B") plus the broadcast master ``network.nmt`` on one canopen.Network
(the master side), two LocalNodes with the same ids (dictionary holds 0x1017)
on a second Network (the slave side) and a third, network-less port ("another
master" / heartbeat producer) that puts raw frames on the simulated bus.

Oracle: the reference model ``RefNmt`` below, written from CiA 301 (NMT node
control: command specifier -> state, addressing "own id or 0", undefined
specifiers ignored; heartbeat byte = bit 7 reserved/toggle + 7 bit state,
0 = boot-up = the node has entered PRE-OPERATIONAL) and from the property
text.  It never calls canopen.  After EVERY step of a history the five
observable views (remote A/B ``.nmt.state``, local A/B ``.nmt.state``,
``network.nmt.state``) and the frames each side put on the bus are compared
with the model.

Clause -> case family
  * "for any sequence of NMT commands (own / broadcast / other node) ... the
    state reported by master and slave is the one the machine assigns;
    commands for other nodes change nothing"
        fam "seq": every sequence of length <=2 (quick) / <=4 (thorough) over
        11 specifiers x targets {A, 0, B}, every symbol issued as raw frame
        of the third port, via ``send_command`` or via ``.state = name``; from
        the initial state and from PRE-OPERATIONAL (reached by the CiA boot
        sequence reset -> boot-up -> pre-operational).  "Changes nothing" is
        checked as string identity of the view before/after.  fam "hist":
        Hypothesis histories of up to 12 mixed steps, arbitrary specifiers
        0..255, arbitrary node ids, a fourth id nobody owns.
  * "a master sends exactly the frame [cs, node id] on CAN id 0"
        every cmd/name step: the master port must have sent exactly that one
        frame (std id 0, data frame, DLC 2), the slave side nothing.
  * "state assignments by name" / "invalid state name is rejected without
    sending anything"
        fam "name": all 8 documented names and a list of near-miss / arbitrary
        strings on remote.nmt, network.nmt and local.nmt; Hypothesis text.
  * "heartbeats ... boot-up reported as PRE-OPERATIONAL ... toggle bit ignored"
        fam "hb": all 256 heartbeat bytes for A, for B and for an id nobody
        owns, from both start states; "tick" steps put the slave's own
        heartbeat (what its periodic task currently holds) on the bus, so the
        master's decoded view is compared with the slave's state.
        A slave set to INITIALISING/RESET must emit the boot-up frame [0] on
        0x700+id (fam "local").
  * "waiting for a heartbeat or boot-up returns on the matching message and
    fails with the NMT error when none arrives"
        fam "wait": feeder thread repeating the chosen frames every 2 ms until
        the waiter returns; silence, frames of another node, only non-boot-up
        heartbeats (for wait_for_bootup) and a stale heartbeat received before
        the wait must all end in NmtError.
        "busy" waits (enum_wait_busy, wait_history(busy=True)): the feeder first
        plays a one-shot schedule ``pre`` - silences of 0.1 .. 0.7 s (2.5 s
        thorough; the caller's time-out is 6 s longer), NMT command frames of
        another master for {awaited node, 0, other node, unowned ids}, defined
        and undefined specifiers, ``send_command`` calls on the RemoteNodes /
        network.nmt from the feeder thread, heartbeats of other nodes and (boot
        waits) non-boot-up heartbeats of the awaited node - and only then the
        cyclic matching frames.  None of the one-shot events is the awaited
        message: the positive wait still returns (never an early NmtError), the
        negative one still ends in NmtError (time-out = schedule + 70 ms), and
        the five views / the frames follow the schedule like in any other step.
        The waiting RemoteNode is A or B; several waits follow each other on
        one object (what arrived during an earlier wait is not a message of the
        next; a failed wait leaves the object usable).
  * "the heartbeat toggle bit is ignored" over sequences
        fam "hbseq": all pairs over 7 state values x toggle bit on one node and
        interleaved on two nodes, all triples over 8 bytes (thorough: all 65536
        byte pairs) - every heartbeat is decoded on its own.

  * "a boot-up message is reported as PRE-OPERATIONAL" when the boot-up is the node's ANSWER to a command
        fam "app": a device application behind the LocalNodes (Rig._application) answers reset commands
        with the boot-up message (then PRE-OPERATIONAL), or every command with a heartbeat; on the inline
        bus the answer is handled before the master's send_command has returned.  The message sequence
        is "command, boot-up": the master reports PRE-OPERATIONAL afterwards.
  * the master of a node is whichever RemoteNode is registered for the id
        fam "rrep" / step "rreplace": the RemoteNode of A or B is replaced on the live network (5 ways,
        up to three times in one history); heartbeats, boot-ups, commands and waits are then judged on
        the new object, the other node's master and network.nmt must not notice.

Deviations from DESIGN.md (soundness / cost):
  * two node pairs instead of one, so "commands for other nodes change
    nothing" is observed on real objects in both directions; the length 3/4
    enumeration of the thorough tier uses one pair (node construction is 75 %
    of a case) and reaches id B with raw frames only.
  * a broadcast sent by ``network.nmt`` is not heard by the RemoteNodes of the
    same Network (a sender does not hear itself): their view may stay or follow.
  * a slave may answer a reset command with a boot-up frame (real devices do,
    canopen's LocalNode leaves that to the application): accepted, not demanded.
  * GENUINE DEFECT found on the unchanged tree, excluded by construction and
    counted (EXCL_UNKNOWN_THEN_CMD): once a RemoteNode has heard a heartbeat
    with an undefined state value, ``send_command``/``state = name`` raise
    KeyError before sending anything and a command heard on the bus raises
    KeyError out of Network.notify (NMT_STATES[self._state] in a log call).
"""
import threading
import time

from hypothesis import strategies as st

from harness import refcodec as rc
from harness.core import Discrepancy, Outcome
from harness.odutil import build_od
from harness.simbus import Frame, Hub

PROPERTY = "C11"
LEVEL = "exploration"
RULE = ("case = (node ids, heartbeat time, start state, history of steps); steps: raw NMT frame from a third "
        "port, remote.nmt.send_command, remote.nmt.state=name, network.nmt (broadcast) the same, "
        "local.nmt.state=name / send_command, heartbeat byte from the third port, 'tick' (the slave's own "
        "periodic heartbeat put on the bus), wait_for_heartbeat / wait_for_bootup with a feeder thread. "
        "Enumerated: all sequences of <=2 (quick) / <=4 (thorough) symbols over 11 command specifiers x "
        "{A, broadcast, B} x issue routes (lengths 3/4: route rotates with the index, one node pair), from "
        "INITIALISING and from PRE-OPERATIONAL; all 256 heartbeat "
        "bytes; heartbeat pairs/triples with and without toggle bit on one and two nodes; all names + invalid "
        "strings; local name pairs; wait matrix; busy waits: a one-shot schedule (silence 0.1-0.7 s, NMT command "
        "frames of another master for {awaited, 0, other, unowned} x defined/undefined cs, send_command calls from "
        "the feeder thread, other nodes' heartbeats, non-boot-up heartbeats of the awaited node) precedes the "
        "cyclic matching frames (positive: must return, time-out = schedule + 6 s) or nothing (negative: NmtError), "
        "waiting node A or B, two or three waits in a row on one object. Hypothesis: histories up to 12 "
        "steps with arbitrary specifiers/ids/bytes/strings, wait histories with random schedules; half of them with a "
        "device application on the slave side ('app': a reset command is answered with the boot-up message and "
        "PRE-OPERATIONAL / boot-up only / every defined command acknowledged by a heartbeat of the new state; the answer "
        "is delivered inline, i.e. before the master's call returns) and with 'rreplace' steps (the RemoteNode of A or B "
        "replaced on the live network by add_node(node) / network[id]= / add_node(id, od) / del + add / re-adding the same "
        "object; all later steps use the new object). Enumerated for these: every symbol x route (thorough: every pair) x "
        "3 applications x 2 starts, reset routes inside histories, command + wait; replacement x 5 ways x {A, B} x 1-3 "
        "times followed by heartbeats / boot-ups / commands / ticks / positive and negative waits. Oracle: CiA 301 table model RefNmt compared "
        "after every step (5 state views + frames sent by each side). Non-trivial: >=2 distinct effective "
        "commands, or a foreign-target / undefined specifier, an invalid name, a heartbeat byte the "
        "repository tests do not feed, any wait. distinct = canonical JSON of the case.")
ASSUMPTIONS = [
    "a node in INITIALISING obeys NMT commands like in any other state (canopen has no autonomous "
    "Initialisation -> Pre-operational transition; the application does it) - as the repository's tests pin",
    "SLEEP(80)/STANDBY(96) are the two extra specifiers/states of the property's '7 defined specifiers'",
    "a RemoteNode does not hear frames sent by its own Network (like on a real bus): after a broadcast of "
    "network.nmt the RemoteNode view may be either unchanged or the new state",
    "'rejected' = any exception; 'the NMT error' = canopen.nmt.NmtError",
    "waits: the matching message is repeated every 2 ms from the end of the one-shot schedule (0 .. 0.7 s, "
    "thorough 2.5 s after the call) until the waiter is back, the caller's time-out is 6 s longer than the "
    "schedule; or it never comes (time-out 30 ms, schedule + 70 ms when there is one). Decided: wrong value / "
    "missing error / NmtError although the match came within the time-out / return later than 3 s after the "
    "first match. A one-shot event may reach the node before the wait began (loaded machine): the expectation "
    "is the same in that case, only the sensitivity is lost",
    "frames the SLAVE side itself puts on 0x700+id of the awaited node during a wait (truthful heartbeat, boot-up "
    "after a reset command - canopen's LocalNode sends neither) count as messages: the negative verdict and the "
    "tight return value are only demanded when there were none",
    "frames of the third port carry increasing bus time-stamps like the frames the Networks send themselves",
    "device application ('app'): the harness's own model of what CiA 301 asks of a node that is reset (boot-up message, "
    "then PRE-OPERATIONAL) or of a heartbeat producer that reports after every state change; its frames are sent through "
    "the slave Network and judged like any slave frame (boot-up after a reset command: master must report "
    "PRE-OPERATIONAL; truthful heartbeat: the master follows it). The simulated bus delivers inline, so the answer "
    "is processed before send_command returns - the sequence of messages is 'command, boot-up', whatever the nesting",
    "'rreplace': Network.add_node / __setitem__ for an id that is already present replaces the node object (documented "
    "MutableMapping behaviour); the view of the NEW master before it has heard or sent anything is not judged (any "
    "name), the step must not send frames nor change any other view",
    "the local dictionary contains 0x1017 with a default (the slave reads it when entering PRE-OPERATIONAL)",
]
BUDGET = {"quick": 150, "thorough": 400}

# ---- reference tables (CiA 301, not imported from canopen) -------------------------
INIT, PREOP, OPER, STOP = "INITIALISING", "PRE-OPERATIONAL", "OPERATIONAL", "STOPPED"
SLEEP, STANDBY = "SLEEP", "STANDBY"
UNK = "?"                       # token: any string that is none of the defined state names
DEFINED = frozenset([INIT, PREOP, OPER, STOP, SLEEP, STANDBY])
# NMT node control: cs -> state entered
CS_STATE = {1: OPER, 2: STOP, 128: PREOP, 129: INIT, 130: INIT, 80: SLEEP, 96: STANDBY}
# heartbeat / boot-up: 7 bit state value -> state of the producer as seen by a consumer
HB_STATE = {0: PREOP, 4: STOP, 5: OPER, 127: PREOP, 80: SLEEP, 96: STANDBY}
# value a producer in that state transmits
STATE_CODE = {INIT: 0, STOP: 4, OPER: 5, PREOP: 127, SLEEP: 80, STANDBY: 96}
# documented names -> acceptable command specifiers
NAME_CS = {"OPERATIONAL": {1}, "STOPPED": {2}, "SLEEP": {80}, "STANDBY": {96}, "PRE-OPERATIONAL": {128},
           "INITIALISING": {129, 130}, "RESET": {129}, "RESET COMMUNICATION": {130}}
DEF_CS = [1, 2, 80, 96, 128, 129, 130]
UNDEF_CS = [0, 3, 127, 255]
CS_NAMES = {1: ["OPERATIONAL"], 2: ["STOPPED"], 80: ["SLEEP"], 96: ["STANDBY"], 128: ["PRE-OPERATIONAL"],
            129: ["RESET", "INITIALISING"], 130: ["RESET COMMUNICATION"]}
INVALID_NAMES = ["", " ", "operational", "Operational", "OPERATIONAL ", " OPERATIONAL", "OPERATIONAL\n",
                 "OPERATIONAL\x00", "PRE_OPERATIONAL", "PREOPERATIONAL", "PRE-OP", "PRE OPERATIONAL",
                 "pre-operational", "RESET NODE", "RESET_COMMUNICATION", "RESET COMMUNICATIONS", "reset",
                 "INITIALIZING", "INITIALISATION", "BOOT-UP", "BOOTUP", "STOP", "START", "STARTED",
                 "UNKNOWN STATE '75'", "UNKNOWN", "0", "1", "5", "127", "128", "0x80", "None", "SLEEPING",
                 "STAND-BY", "stopped", "\u041e\u0420ERATIONAL", "OPERATIONAL,STOPPED", "STOPPED;", "*"]
TESTED_HB = {0, 4, 5, 80, 96, 127, 0xCB}
APPS = ("boot", "stay", "echo")                             # device applications (Rig._application)
RR_HOWS = ("add", "setitem", "int", "del-add", "same")      # ways a master object is replaced (step "rreplace")
ANY_STATE = frozenset(DEFINED | {UNK})


def decode_hb(byte):
    return HB_STATE.get(byte & 0x7F, UNK)


def tok(s):
    return s if s in DEFINED else UNK


def fits(actual, allowed):
    if not isinstance(actual, str):
        return False
    return (actual in allowed) if actual in DEFINED else (UNK in allowed)


class _Excluded(Exception):
    pass


# Genuine defect of the unchanged tree (reported, excluded by construction so the search goes on behind it):
# NmtBase.send_command / NmtBase.on_command evaluate NMT_STATES[self._state] for a log message; when the
# RemoteNode's last heartbeat carried an undefined state value that is a KeyError - send_command sends
# nothing, on_command raises out of Network.notify and does not follow the command.
EXCL_UNKNOWN_THEN_CMD = ("defect: command for a RemoteNode whose last heartbeat carried an undefined state "
                         "(KeyError from NMT_STATES[self._state] in the log call; nothing sent / not followed)")

SAME = "same"   # marker: the view must be string-identical to what it was before the step


class RefNmt:
    """What CiA 301 + the property text say about every observable, as sets of
    acceptable tokens.  ``slave[T]`` is a single validated name."""

    def __init__(self, ids, nodes):
        self.ids = ids
        self.nodes = nodes
        self.slave = {T: INIT for T in nodes}

    def delivered(self, cs, tid, exp, to_slaves=True, to_masters=False):
        """A command frame [cs, tid] is heard by the slave side and/or the
        master side's RemoteNodes."""
        for T in self.nodes:
            if tid in (self.ids[T], 0) and cs in CS_STATE:
                if to_slaves:
                    exp["l" + T] = {CS_STATE[cs]}
                if to_masters:
                    exp["r" + T] = {CS_STATE[cs]}


class Rig:
    def __init__(self, case):
        import canopen
        a, b, x = case["ids"]
        # Ahi / hi0 / hiF: node-id bytes above 127 - no node has such an id, the frames concern nobody
        self.ids = {"A": a, "B": b, "none": x, "all": 0, "Ahi": a | 0x80, "hi0": 0x80, "hiF": 0xFF}
        self.hub = Hub()
        self.hub.modifiable_tasks = bool(case.get("mod", True))
        self.mnet, self.mport = self.hub.attach("master")
        self.snet, self.sport = self.hub.attach("slave")
        self.third = self.hub.port("third")
        self.remote, self.local = {}, {}
        # "pairs": 1 -> only node A exists; id B is then just another foreign id (raw frames only)
        self.nodes = "AB" if case.get("pairs", 2) == 2 else "A"
        self.views = tuple(["r" + T for T in self.nodes] + ["l" + T for T in self.nodes] + ["net"])
        # "ctor": "od" -> the node id is not given to the constructor (None / 0) but taken from the
        # object dictionary, as the node classes document
        from_od = self.from_od = case.get("ctor") == "od"
        self.kidx = {T: k for k, T in enumerate(self.nodes)}
        for k, T in enumerate(self.nodes):
            r = self.new_remote(T)
            self.mnet.add_node(r)
            self.remote[T] = r
            od = build_od([{"kind": "var", "index": 0x1017, "name": "Producer heartbeat time",
                            "dt": rc.UNSIGNED16, "default": case.get("hb_ms", 0)}])
            if from_od:
                od.node_id = self.ids[T]
            loc = canopen.LocalNode((0, None)[k % 2] if from_od else self.ids[T], od)
            self.snet.add_node(loc)
            self.local[T] = loc
        self.NmtError = canopen.nmt.NmtError
        # "app": the device application behind the LocalNodes answers the NMT commands that concern it
        # (CiA 301: a node that is reset re-initialises and announces itself with the boot-up message;
        # canopen's LocalNode leaves that to the application).  The answer travels over the simulated bus
        # like every other frame: it is delivered while the command is still being sent.
        self.app = case.get("app") or None
        if self.app not in (None,) + APPS:
            raise ValueError(self.app)
        if self.app:
            self.snet.subscribe(0, self._application)

    def new_remote(self, T):
        """a fresh master object (RemoteNode) for node T, constructed the way the case says"""
        import canopen
        rod = canopen.ObjectDictionary()
        if self.from_od:
            rod.node_id = self.ids[T]
        return canopen.RemoteNode((None, 0)[self.kidx[T] % 2] if self.from_od else self.ids[T], rod)

    def _application(self, can_id, data, timestamp):
        """Device application (harness side, CiA 301 addressing: own id or 0; undefined specifiers ignored).
        "boot": a reset command -> re-initialise (boot-up message), then enter PRE-OPERATIONAL;
        "stay": ... boot-up message only (still initialising when the step ends);
        "echo": every defined command is answered with one heartbeat frame carrying the state the node
                is in now (state 0 after a reset command = the boot-up message)."""
        if len(data) < 2:
            return
        cs, nid = data[0], data[1]
        if cs not in CS_STATE:
            return
        for T in self.nodes:
            if nid not in (self.ids[T], 0):
                continue
            nmt = self.local[T].nmt
            if cs in (129, 130):
                if self.app == "echo":
                    self.snet.send_message(0x700 + self.ids[T], [0])
                else:
                    nmt.state = "INITIALISING"
                    if self.app == "boot":
                        nmt.state = "PRE-OPERATIONAL"
            elif self.app == "echo":
                code = STATE_CODE.get(nmt.state)
                if code:
                    self.snet.send_message(0x700 + self.ids[T], [code])

    def app_last(self):
        """keep the application behind the nodes' own command handlers (it reacts to what they did)"""
        if self.app:
            self.snet.unsubscribe(0, self._application)
            self.snet.subscribe(0, self._application)

    def snapshot(self):
        snap = {"net": self.mnet.nmt.state}
        for T in self.nodes:
            snap["r" + T] = self.remote[T].nmt.state
            snap["l" + T] = self.local[T].nmt.state
        return snap

    def master_obj(self, to):
        return self.mnet.nmt if to == "all" else self.remote[to].nmt

    def put(self, can_id, data):
        """a frame of the third port (another master / another producer), time-stamped like the frames
        the two Networks send themselves (increasing bus clock)"""
        self.hub.route(Frame(can_id, bytes(data), src=self.third, ts=self.hub.now()))

    def hb_tasks(self, T):
        cid = 0x700 + self.ids[T]
        return [t for t in self.hub.live_tasks() if t.port is self.sport and t.msg.arbitration_id == cid]


def _fr(frames):
    return "[" + ", ".join(repr(f) for f in frames) + "]"


def _frames_match(got, want):
    """want: list of (can_id, set of acceptable data)"""
    if len(got) != len(want):
        return False
    for f, (cid, datas) in zip(got, want):
        if f.can_id != cid or f.data not in datas or f.remote or f.extended:
            return False
    return True


def _wait_items(op):
    """The one-shot part of a wait's schedule ("pre") as a list of tuples."""
    out = []
    for it in op.get("pre", []):
        k = it[0]
        if k == "sleep":
            out.append(("sleep", int(it[1])))
        elif k == "hb":
            out.append(("hb", it[1], int(it[2])))       # heartbeat byte from the third port: to, byte
        elif k in ("raw", "cmd"):
            out.append((k, int(it[1]), it[2]))          # command: cs, to
        else:
            raise ValueError(it)
    return out


def _concerned(rig, tid):
    return [T for T in rig.nodes if tid in (rig.ids[T], 0)]


def _wait_plan(rig, op, before):
    """Everything the oracle says about one wait step, from the case alone (no clock).

    Schedule of the feeder thread: the one-shot items ``pre`` in order (silence, NMT command frames
    of another master, commands issued through the master objects of this Network, heartbeats),
    ALWAYS all of them, then the cyclic ``feed`` (heartbeat bytes) every 2 ms until the waiter is
    back.  The matching message must be in the cyclic part (a one-shot match could arrive before
    the wait began)."""
    ids, nodes = rig.ids, rig.nodes
    w = op.get("on", "A")
    what = op["what"]
    if w not in nodes:
        raise _Excluded("wait on a node the case does not have")
    pre = _wait_items(op)
    cyc = [(to, int(b)) for to, b in op["feed"]]
    for it in pre:
        if it[0] == "cmd" and it[2] != "all" and it[2] not in nodes:
            raise _Excluded("step needs node B but the case has only one node pair")

    def is_match(to, b):
        return to == w and (what == "hb" or b & 0x7F == 0)

    cyc_match = any(is_match(to, b) for to, b in cyc)
    pre_match = any(it[0] == "hb" and is_match(it[1], it[2]) for it in pre)
    if pre_match and not cyc_match:
        raise _Excluded("wait: the only matching message is sent once (it may arrive before the wait began)")
    w_pre_bytes = [it[2] for it in pre if it[0] == "hb" and it[1] == w]
    w_bytes = [b for to, b in cyc if to == w]
    resets = []          # nodes a reset command of the schedule concerns (with repetition)
    w_cmd_states = set()
    for it in pre:
        if it[0] in ("raw", "cmd") and it[1] in CS_STATE:
            con = _concerned(rig, ids[it[2]])
            if it[1] in (129, 130):
                resets += con
            if w in con:
                w_cmd_states.add(CS_STATE[it[1]])
    want_m = [(0, {bytes([it[1], ids[it[2]]])}) for it in pre if it[0] == "cmd"]
    # states every slave passes through while the schedule runs (a slave may report any of them truthfully)
    l_states = {T: {tok(before["l" + T])} for T in nodes}
    for it in pre:
        if it[0] in ("raw", "cmd") and it[1] in CS_STATE:
            for T in _concerned(rig, ids[it[2]]):
                l_states[T].add(CS_STATE[it[1]])

    def sim(boot):
        """views after the step; boot: the slaves answer reset commands with a boot-up message"""
        cur = {v: SAME for v in rig.views}

        def setv(v, s_):
            cur[v] = set(s_)

        def addv(v, s_):
            cur[v] = ({tok(before[v])} if cur[v] is SAME else cur[v]) | set(s_)

        for it in pre:
            if it[0] == "hb":
                if it[1] in nodes:
                    setv("r" + it[1], {decode_hb(it[2])})
            elif it[0] in ("raw", "cmd") and it[1] in CS_STATE:
                cs, to = it[1], it[2]
                new = CS_STATE[cs]
                for T in _concerned(rig, ids[to]):
                    setv("l" + T, {new})
                    if it[0] == "raw" or to == T:
                        setv("r" + T, {new})
                    else:                        # broadcast of network.nmt: its own RemoteNodes do not hear it
                        addv("r" + T, {new})
                    if boot and cs in (129, 130):
                        setv("l" + T, {INIT, PREOP})
                        setv("r" + T, {INIT, PREOP})
                if ids[to] == 0:
                    if it[0] == "raw":
                        addv("net", {new})       # a broadcast master may follow another master
                    else:
                        setv("net", {new})
        return cur

    tight = not pre_match
    exps = []
    # exps[0]: the waiter came back on a cyclic frame; exps[1]: it may have come back earlier (the slave
    # itself reported during the schedule), the cyclic part possibly never ran; exps[2]: ... with boot-ups
    for boot, early in ((False, False), (False, True), (True, True)):
        cur = sim(boot)
        for T in nodes:
            got = {decode_hb(b) for to, b in cyc if to == T}
            if got:
                if T == w and cyc_match and tight and not early:
                    cur["r" + T] = set(got)
                else:
                    cur["r" + T] = ({tok(before["r" + T])} if cur["r" + T] is SAME else cur["r" + T]) | got
        exps.append(cur)
    ret_tight = {decode_hb(b) for b in w_bytes}
    ret_loose = ret_tight | {decode_hb(b) for b in w_pre_bytes} | w_cmd_states
    pre_s = sum(it[1] for it in pre if it[0] == "sleep") / 1000.0
    return {"w": w, "what": what, "pre": pre, "cyc": cyc, "expect_return": cyc_match, "tight": tight,
            "w_bytes": w_bytes, "resets": resets, "want_m": want_m, "exp": exps[0], "exp_early": exps[1], "exp_boot": exps[2],
            "ret_tight": ret_tight, "ret_loose": ret_loose, "pre_s": pre_s, "l_states": l_states,
            # negative waits may name a longer time-out ("timeout_ms"): no gap of the 2 ms feeder comes near it
            "timeout": (6.0 + pre_s) if cyc_match else
            max(0.03 + pre_s + (0.04 if pre else 0.0), op.get("timeout_ms", 0) / 1000.0)}


def _run_wait(rig, plan):
    pre, cyc, w, what = plan["pre"], plan["cyc"], plan["w"], plan["what"]
    ids = rig.ids
    stop = threading.Event()
    feed_errors = []

    def one(it):
        if it[0] == "sleep":
            stop.wait(it[1] / 1000.0)        # cut short once the waiter is back; the frames still all go out
        elif it[0] == "hb":
            rig.put(0x700 + ids[it[1]], bytes([it[2]]))
        elif it[0] == "raw":
            rig.put(0, bytes([it[1], ids[it[2]]]))
        else:
            try:
                rig.master_obj(it[2]).send_command(it[1])
            except Exception as e:           # judged by the caller
                feed_errors.append((it, e))

    def feeder():
        for it in pre:
            one(it)
        i = 0
        while cyc and not stop.is_set():
            to, b = cyc[i % len(cyc)]
            i += 1
            rig.put(0x700 + ids[to], bytes([b]))
            stop.wait(0.002)

    th = threading.Thread(target=feeder, daemon=True) if (pre or cyc) else None
    nmt = rig.remote[w].nmt
    ret, exc = None, None
    if th:
        th.start()
    t_call = time.monotonic()
    try:
        if what == "hb":
            ret = nmt.wait_for_heartbeat(plan["timeout"])
        else:
            ret = nmt.wait_for_bootup(plan["timeout"])
    except Exception as e:  # judged below
        exc = e
    finally:
        elapsed = time.monotonic() - t_call
        stop.set()
        if th:
            th.join()
    return ret, exc, elapsed, feed_errors


def step(rig, model, op, D, tag, before):
    """Execute one step against canopen and the model; append discrepancies.
    ``before`` is the snapshot taken after the previous step; returns the new one."""
    kind = op["op"]
    ids = rig.ids
    m0, s0, e0 = len(rig.mport.sent), len(rig.sport.sent), len(rig.mport.notify_errors) + len(rig.sport.notify_errors)
    nodes = rig.nodes
    exp = {v: SAME for v in rig.views}      # default: nothing changes
    want_m, want_s = [], []              # frames the master / slave side must have sent
    opt_bootup = None                    # slave T may answer a reset command with a boot-up (real devices do)
    exp_boot = None                      # wait steps: the views when the slaves did answer that way
    passed = None                        # wait steps: the states each slave passes through during the step
    must_raise = False
    exc = None
    ticked = []

    def bad(sig, detail):
        D.append(Discrepancy(f"C11/{sig}", f"{tag}: {detail}"))

    # ---- known defect: excluded by construction (see EXCL_UNKNOWN_THEN_CMD) ------------
    if kind in ("raw", "cmd", "name"):
        cs_ = op["cs"] if "cs" in op else min(NAME_CS.get(op["name"], {0}))
        if cs_ in CS_STATE:
            hit = [T for T in nodes if tok(before["r" + T]) == UNK and
                   (op["to"] == T or (kind == "raw" and op["to"] == "all"))]
            # this class used to be excluded (KeyError in the library's log call); repaired in
            # /repo by commit 119b3e5, so it is executed and judged like every other step
            if hit and False:
                raise _Excluded(EXCL_UNKNOWN_THEN_CMD)

    # ---- act + model -------------------------------------------------------------
    if kind == "raw":
        cs, tid = op["cs"], ids[op["to"]]
        rig.put(0, bytes([cs, tid]))
        model.delivered(cs, tid, exp, to_slaves=True, to_masters=True)
        if tid == 0 and cs in CS_STATE:
            exp["net"] = {tok(before["net"]), CS_STATE[cs]}    # a broadcast master may follow another master
        if cs in (129, 130):
            opt_bootup = [T for T in nodes if tid in (ids[T], 0)]
    elif kind in ("cmd", "name"):
        to = op["to"]
        obj = rig.master_obj(to)
        tid = ids[to]
        if kind == "cmd":
            css = {op["cs"]}
        else:
            css = NAME_CS.get(op["name"])
        if css is None:
            must_raise = True
        try:
            if kind == "cmd":
                obj.send_command(op["cs"])
            else:
                obj.state = op["name"]
        except Exception as e:
            exc = e
        if css is not None:
            want_m = [(0, {bytes([c, tid]) for c in css})]
            cs = min(css)             # all alternatives of one name enter the same state
            model.delivered(cs, tid, exp, to_slaves=True, to_masters=False)
            if cs in CS_STATE:
                if to == "all":
                    exp["net"] = {CS_STATE[cs]}
                    for T in nodes:   # not heard by the sender's own RemoteNodes: stale or updated
                        exp["r" + T] = {tok(before["r" + T]), CS_STATE[cs]}
                else:
                    exp["r" + to] = {CS_STATE[cs]}
            if cs in (129, 130):
                opt_bootup = [T for T in nodes if tid in (ids[T], 0)]
    elif kind in ("lname", "lcmd"):
        T = op["to"]
        if kind == "lcmd":
            css = {op["cs"]}
        else:
            css = NAME_CS.get(op["name"])
        if css is None:
            must_raise = True
        try:
            if kind == "lcmd":
                rig.local[T].nmt.send_command(op["cs"])
            else:
                rig.local[T].nmt.state = op["name"]
        except Exception as e:
            exc = e
        if css is not None:
            new = CS_STATE[min(css)]
            exp["l" + T] = {new}
            if new == INIT:
                want_s = [(0x700 + ids[T], {b"\x00"})]
                exp["r" + T] = {PREOP}       # the master hears the boot-up
    elif kind == "hb":
        to = op["to"]
        rig.put(0x700 + ids[to], bytes([op["byte"]]))
        if to in nodes:
            exp["r" + to] = {decode_hb(op["byte"])}
    elif kind == "tick":
        T = op["to"]
        for t in rig.hb_tasks(T):
            f = Frame(t.msg.arbitration_id, bytes(t.msg.data), bool(t.msg.is_remote_frame),
                      bool(t.msg.is_extended_id), src=rig.sport)
            ticked.append(f)
            rig.hub.route(f)
        if ticked:
            code = STATE_CODE[model.slave[T]]
            for f in ticked:
                if f.data != bytes([code]) or f.remote or f.extended:
                    bad("heartbeat/content", f"slave {T} in {model.slave[T]} transmits heartbeat {f!r}, "
                                             f"want data {code:02x}")
                    return
            exp["r" + T] = {decode_hb(code)}
    elif kind == "wait":
        plan = _wait_plan(rig, op, before)
        ret, wexc, elapsed, feed_errors = _run_wait(rig, plan)
        what, w = plan["what"], plan["w"]
        expect_return, w_bytes = plan["expect_return"], plan["w_bytes"]
        sched = f"schedule pre={op.get('pre', [])} then {op['feed']} every 2 ms"
        if feed_errors:
            it, e = feed_errors[0]
            bad("cmd/raises", f"{type(e).__name__}: {e} from send_command{it[1:]} issued by another thread "
                              f"during wait_for_{what}")
            return
        # frames the slave side itself put on 0x700+id of the awaited node during the step (a slave may
        # report truthfully at any time, may answer a reset with a boot-up): they are messages too
        own = [f for f in rig.sport.sent[s0:] if f.can_id == 0x700 + ids[w]]
        if wexc is not None and not isinstance(wexc, rig.NmtError):
            bad(f"wait-{what}/raises", f"{type(wexc).__name__}: {wexc}")
            return
        if expect_return and wexc is not None:
            bad(f"wait-{what}/missed-message",
                f"NmtError({wexc}) after {elapsed:.2f} s of a {plan['timeout']:.2f} s time-out although matching "
                f"frames {[hex(b) for b in w_bytes]} for node {w} were repeated every 2 ms from "
                f"{plan['pre_s']:.2f} s after the call until it came back; {sched}")
            return
        if expect_return and elapsed > 3.0 + plan["pre_s"]:
            # "returns on the matching message": the frame is repeated every 2 ms, the caller's
            # own time-out is 6 s more than the schedule - coming back only when that runs out is not
            # returning on the message
            bad(f"wait-{what}/late", f"matching frames {[hex(b) for b in w_bytes]} were repeated every 2 ms from "
                                     f"{plan['pre_s']:.2f} s on but the call only returned after {elapsed:.1f} s "
                                     f"(its time-out was {plan['timeout']:.1f} s); {sched}")
            return
        if not expect_return and wexc is None and not own:
            bad(f"wait-{what}/no-error", f"returned {ret!r} although no matching message arrived; {sched}")
            return
        if expect_return and what == "hb":
            allowed = set(plan["ret_tight"] if plan["tight"] and not own else plan["ret_loose"])
            for f in own:
                if len(f.data) == 1:
                    allowed.add(decode_hb(f.data[0]))
            if not fits(ret, allowed):
                bad("wait-hb/value", f"returned {ret!r}; heartbeat bytes for node {w}: {[hex(b) for b in w_bytes]}; "
                                     f"{sched}")
                return
        want_m = plan["want_m"]
        exp.update(plan["exp_early"] if own else plan["exp"])
        opt_bootup = list(plan["resets"])
        exp_boot = plan["exp_boot"]
        passed = plan["l_states"]
    elif kind == "replace":
        # the slave object of node T is replaced by a fresh LocalNode with the same id (the old one is
        # removed from the network); the new one starts in INITIALISING, nobody else is concerned
        T = op["to"]
        if rig.hb_tasks(T):
            raise _Excluded("replace while the old node's heartbeat task is running (C17's subject)")
        import canopen
        od = build_od([{"kind": "var", "index": 0x1017, "name": "Producer heartbeat time",
                        "dt": rc.UNSIGNED16, "default": 0}])
        loc = canopen.LocalNode(ids[T], od)
        try:
            rig.snet.add_node(loc)
        except Exception as e:
            exc = e
        rig.local[T] = loc
        rig.app_last()
        exp["l" + T] = {INIT}
    elif kind == "rreplace":
        # the MASTER object of node T is replaced on the live network (network.add_node / network[id] = ...
        # for an id that is already present, as the Network documents): the new RemoteNode is the master of
        # that node from now on - every later step is judged on it.  What a master that has not heard or
        # commanded anything yet reports is not fixed by the property (any name); nobody else is concerned,
        # nothing is sent.
        T = op["to"]
        how = op.get("how", "add")
        if how not in RR_HOWS:
            raise ValueError(how)
        import canopen
        nid = ids[T]
        new = old = rig.remote[T]
        try:
            if how == "same":
                rig.mnet.add_node(old)
            elif how == "int":
                new = rig.mnet.add_node(nid, canopen.ObjectDictionary())
            else:
                fresh = rig.new_remote(T)
                if how == "del-add":
                    del rig.mnet[nid]
                    rig.mnet.add_node(fresh)
                elif how == "setitem":
                    rig.mnet[nid] = fresh
                else:
                    rig.mnet.add_node(fresh)
                new = fresh
        except Exception as e:
            exc = e
        rig.remote[T] = new
        exp["r" + T] = set(ANY_STATE)
    else:
        raise ValueError(kind)

    # ---- judge -------------------------------------------------------------------
    after = rig.snapshot()
    mf, sf = rig.mport.sent[m0:], rig.sport.sent[s0:]
    nerr = rig.mport.notify_errors + rig.sport.notify_errors
    if len(nerr) > e0:
        fr, e = nerr[-1]
        bad(f"{kind}/handler-raises", f"{type(e).__name__}: {e} while delivering {fr!r}")
        return
    if must_raise:
        if exc is None:
            bad(f"{kind}/invalid-name-accepted", f"state = {op['name']!r} did not raise; frames sent "
                                                  f"master {_fr(mf)} slave {_fr(sf)}; views {before} -> {after}")
            return
        if mf or sf:
            bad(f"{kind}/invalid-name-sent", f"state = {op['name']!r} raised but sent {_fr(mf + sf)}")
            return
    elif exc is not None:
        bad(f"{kind}/raises", f"{type(exc).__name__}: {exc}")
        return

    # frames
    if not _frames_match(mf, want_m):
        bad(f"{kind}/master-frames", f"master side sent {_fr(mf)}, want "
            f"{[(hex(c), sorted(d.hex() for d in ds)) for c, ds in want_m]}")
        return
    if kind in ("cmd", "name") and mf:
        msg = rig.mport.raw_messages[-1]
        if msg.dlc != 2 or msg.is_extended_id or msg.is_remote_frame or getattr(msg, "is_fd", False):
            bad(f"{kind}/master-frame-format", f"{msg}")
            return
    booted = []
    # a slave may put a truthful heartbeat (its id, its state as it is after this step) on the bus at
    # any time - the property pins what the master sends and what the states are, not when a producer
    # chooses to report; boot-up messages (state 0) are judged below
    def _truthful(f):
        return (not f.remote and not f.extended and len(f.data) == 1 and f.data[0] != 0 and
                any(f.can_id == 0x700 + ids[T] and (fits(after["l" + T], {decode_hb(f.data[0])}) or
                                                    (passed is not None and decode_hb(f.data[0]) in passed[T]))
                    for T in nodes)
                and not any(f.can_id == c for c, _d in want_s))
    for f in sf:
        if _truthful(f):
            # ... and the master that hears it follows
            for T in nodes:
                if f.can_id == 0x700 + ids[T]:
                    e = exp["r" + T]
                    exp["r" + T] = ({tok(before["r" + T])} if e is SAME else set(e)) | {decode_hb(f.data[0])}
    sf = [f for f in sf if not _truthful(f)]
    if not _frames_match(sf, want_s):
        ok = False
        if opt_bootup and not want_s:
            # a slave may announce the re-initialisation it was commanded to do
            cand = {0x700 + ids[T]: T for T in opt_bootup}
            if all(f.can_id in cand and f.data == b"\x00" and not f.remote and not f.extended for f in sf) \
                    and all(sum(1 for f in sf if f.can_id == c) <= opt_bootup.count(T) for c, T in cand.items()):
                booted = sorted({cand[f.can_id] for f in sf})
                ok = True
        if not ok:
            bad(f"{kind}/slave-frames", f"slave side sent {_fr(sf)}, want "
                f"{[(hex(c), sorted(d.hex() for d in ds)) for c, ds in want_s]}")
            return
    for T in booted:
        if exp_boot is not None:
            exp["l" + T], exp["r" + T] = exp_boot["l" + T], exp_boot["r" + T]
        else:
            exp["l" + T] = {INIT, PREOP}
            exp["r" + T] = {PREOP}

    # views
    for v in rig.views:
        e = exp[v]
        if e is SAME:
            if after[v] != before[v]:
                bad(f"{kind}/changed-{'master' if v[0] == 'r' else 'slave' if v[0] == 'l' else 'bcast'}-view",
                    f"{v} went {before[v]!r} -> {after[v]!r} although the step does not concern it")
                return
        elif not fits(after[v], e):
            who = 'master' if v[0] == 'r' else 'slave' if v[0] == 'l' else 'bcast'
            bad(f"{kind}/{who}-state", f"{v} reports {after[v]!r} (was {before[v]!r}), CiA 301 model: "
                                       f"{sorted(e)}; all views {after}")
            return
    for T in nodes:
        model.slave[T] = after["l" + T]
    return after


PREAMBLE = [{"op": "lname", "name": "RESET", "to": "A"}, {"op": "lname", "name": "RESET COMMUNICATION", "to": "B"},
            {"op": "lname", "name": "PRE-OPERATIONAL", "to": "A"}, {"op": "lcmd", "cs": 128, "to": "B"}]


def run_case(case) -> Outcome:
    a, b, x = case["ids"]
    if len({a, b, x, 0}) != 4 or not all(1 <= i <= 127 for i in (a, b, x)):
        return Outcome(excluded="node ids not distinct in 1..127")
    rig = Rig(case)
    model = RefNmt(rig.ids, rig.nodes)
    D = []
    first = rig.snapshot()
    for T in rig.nodes:
        if first["l" + T] != INIT:
            D.append(Discrepancy("C11/initial-state", f"fresh LocalNode {T} reports {first['l' + T]!r}, "
                                                      f"CiA 301 power-on state is INITIALISING"))
            return Outcome(True, "initial", D)
    ops = list(case["ops"])
    snap = first
    if any(op["op"] != "raw" and op["op"] != "hb" and op.get("to") == "B" for op in ops) and "B" not in rig.nodes:
        return Outcome(excluded="step needs node B but the case has only one node pair")
    if case["start"] == "preop":
        pre = [op for op in PREAMBLE if op["to"] in rig.nodes]
        ops = pre + ops
        npre = len(pre)
    else:
        npre = 0
    for k, op in enumerate(ops):
        tag = f"step {k - npre} {op} (ids {rig.ids}, start {case['start']})"
        try:
            snap = step(rig, model, op, D, tag, snap)
        except _Excluded as e:
            return Outcome(excluded=str(e))
        if D:
            break
    return Outcome(_nontrivial(case), _klass(case), D)


# ---- measurement ---------------------------------------------------------------------
def _is_reset(op):
    return op["op"] in ("raw", "cmd", "name") and \
        (op.get("cs") in (129, 130) or bool(NAME_CS.get(op.get("name"), set()) & {129, 130}))


def _nontrivial(case):
    eff = set()
    if case.get("app") and any(op["op"] in ("raw", "cmd", "name") for op in case["ops"]):
        return True          # a device that answers the commands: no repository test has one
    for op in case["ops"]:
        k = op["op"]
        if k in ("wait", "rreplace"):
            return True
        if k in ("name", "lname") and op["name"] not in NAME_CS:
            return True
        if k == "hb" and (op["byte"] not in TESTED_HB or op["to"] != "A"):
            return True
        if k in ("raw", "cmd", "lcmd"):
            if op["cs"] not in CS_STATE or op["to"] in ("B", "none"):
                return True
            eff.add(op["cs"])
        if k in ("name", "lname"):
            if op["to"] == "B":
                return True
            eff.add(min(NAME_CS[op["name"]]))
    return len(eff) >= 2


def _wait_class(op):
    w = op.get("on", "A")
    pre = op.get("pre", [])
    a = [b for to, b in op["feed"] if to == w]
    match = bool(a) if op["what"] == "hb" else any(b & 0x7F == 0 for b in a)
    if match:
        feed = "with-noise" if len(op["feed"]) > 1 else "only-match"
    else:
        feed = "silence" if not op["feed"] else "own-nonmatching" if a else "other-node"
    out = f"{op['what']}{'' if w == 'A' else '-on-' + w}/{'returns' if match else 'NmtError'}/{feed}"
    silence = sum(it[1] for it in pre if it[0] == "sleep")
    if silence >= 100:
        out += "/delayed"
    kinds = {it[0] for it in pre}
    if "raw" in kinds:
        out += "/cmd-frames-during"
    if "cmd" in kinds:
        out += "/send_command-during"
    if "hb" in kinds:
        out += "/hb-before-match"
    return out


def _klass(case):
    fam = case.get("fam", "hist")
    ops = case["ops"]
    if fam == "seq":
        undef = "undefined-cs" if any(op.get("cs", 1) not in CS_STATE for op in ops) else "defined-cs"
        foreign = "/foreign-target" if any(op["to"] == "B" for op in ops) else ""
        bcast = "/broadcast" if any(op["to"] == "all" for op in ops) else ""
        return f"seq/len{len(ops)}/{case['start']}/{undef}{foreign}{bcast}"
    if fam == "hb":
        op = [o for o in ops if o["op"] == "hb"][0]
        c = op["byte"] & 0x7F
        cls = "bootup" if c == 0 else "defined" if c in HB_STATE else "undefined"
        return f"hb/{'own' if op['to'] == 'A' else 'other-id'}/{cls}{'/toggle' if op['byte'] & 0x80 else ''}" \
               f"{'/in-history' if len(ops) > 1 else ''}"
    if fam == "name":
        op = ops[0] if len(ops) == 1 else ops[1]
        who = {"name": "network.nmt" if op["to"] == "all" else "remote.nmt", "lname": "local.nmt"}[op["op"]]
        return f"name/{who}/{'valid' if op['name'] in NAME_CS else 'invalid'}" \
               f"{'/in-history' if len(ops) > 1 else ''}"
    if fam == "local":
        return f"local/hb_ms={'0' if not case.get('hb_ms') else '>0'}/" \
               f"{'modify' if case.get('mod', True) else 'restart'}-tasks"
    if fam == "hbseq":
        hbs = [o for o in ops if o["op"] == "hb"]
        tg = sum(1 for o in hbs if o["byte"] & 0x80)
        return f"hbseq/len{len(hbs)}/{'one-node' if len({o['to'] for o in hbs}) == 1 else 'two-nodes'}/" \
               f"toggle-bits={tg}"
    if fam == "app":
        routes = "+".join(sorted({o["op"] for o in ops if o["op"] in ("raw", "cmd", "name")})) or "none"
        return f"app/{case.get('app')}/{'reset' if any(_is_reset(o) for o in ops) else 'no-reset'}/{routes}" \
               f"/len{len(ops)}{'/wait' if any(o['op'] == 'wait' for o in ops) else ''}"
    if fam == "rrep":
        hows = sorted({o.get("how", "add") for o in ops if o["op"] == "rreplace"})
        nrep = sum(1 for o in ops if o["op"] == "rreplace")
        w = [o for o in ops if o["op"] == "wait"]
        return f"rreplace/{'+'.join(hows)}/x{min(nrep, 3)}{'+' if nrep > 3 else ''}/" \
               f"{'wait-' + w[-1]['what'] if w else 'heartbeats+commands'}{'/app' if case.get('app') else ''}"
    if fam == "wait":
        wis = [i for i, o in enumerate(ops) if o["op"] == "wait"]
        wi = wis[-1]
        return "wait/" + _wait_class(ops[wi]) + \
               f"{'/stale-before' if wi and ops[wi - 1]['op'] == 'hb' else ''}" \
               f"{'/after-' + _wait_class(ops[wis[-2]]).split('/')[0] + '-wait' if len(wis) > 1 else ''}"
    kinds = {op["op"] for op in ops}
    n = len(ops)
    ln = "1-3" if n <= 3 else "4-7" if n <= 7 else "8-12"
    flags = []
    if "wait" in kinds:
        w = [o for o in ops if o["op"] == "wait"][0]
        flags.append("wait-" + w["what"] + ("-busy" if w.get("pre") else ""))
    if any(op["op"] in ("name", "lname") and op["name"] not in NAME_CS for op in ops):
        flags.append("badname")
    if any(op["op"] in ("raw", "cmd") and op["cs"] not in CS_STATE for op in ops):
        flags.append("undef-cs")
    if "rreplace" in kinds:
        flags.append("master-replaced")
    if case.get("app"):
        flags.append("app-" + case["app"] + ("-reset" if any(_is_reset(op) for op in ops) else ""))
    return f"hist/len{ln}/" + ("+".join(flags) or "plain")


# ---- generation ------------------------------------------------------------------------
IDS = [33, 69, 127]
TARGETS = ["A", "all", "B"]


def _base(fam, start, ops, hb_ms=100, mod=True, ids=IDS, pairs=2):
    return {"fam": fam, "ids": list(ids), "hb_ms": hb_ms, "mod": mod, "start": start, "ops": ops, "pairs": pairs}


def symbol_routes(cs, to):
    out = [{"op": "raw", "cs": cs, "to": to}, {"op": "cmd", "cs": cs, "to": to}]
    for nm in CS_NAMES.get(cs, []):
        out.append({"op": "name", "name": nm, "to": to})
    return out


ALL_CS = DEF_CS + UNDEF_CS
SYMBOLS = [(cs, to) for cs in ALL_CS for to in TARGETS]          # 33
SYMBOL_ROUTES = [symbol_routes(cs, to) for cs, to in SYMBOLS]
FLAT_ROUTES = [r for rs in SYMBOL_ROUTES for r in rs]


def enum_short():
    """every sequence of length 1 and 2, every issue route of every symbol, both starts"""
    for start in ("preop", "init"):
        for r in FLAT_ROUTES:
            yield _base("seq", start, [r])
            yield dict(_base("seq", start, [r]), ctor="od")     # node ids taken from the dictionaries
    for start in ("preop", "init"):
        for r1 in FLAT_ROUTES:
            for r2 in FLAT_ROUTES:
                yield _base("seq", start, [r1, r2])


def enum_long(ctx, n, starts):
    """every sequence of n symbols; the issue route of each position rotates with the index.  One node
    pair only (node construction dominates the cost): id B is a foreign id reached by raw frames."""
    i = 0
    nsym = len(SYMBOLS)
    idx = [0] * n
    total = nsym ** n
    for flat in range(total):
        v = flat
        for j in range(n):
            idx[j] = v % nsym
            v //= nsym
        for start in starts:
            if ctx.mine(i):
                h = (flat * 2654435761 + 40503 * (start == "init")) & 0xFFFFFFFF
                ops = []
                for j in range(n):
                    rs = SYMBOL_ROUTES[idx[j]]
                    ops.append(rs[0] if SYMBOLS[idx[j]][1] == "B" else rs[(h >> (5 * j)) % len(rs)])
                yield _base("seq", start, ops, hb_ms=100 if flat % 3 else 0, mod=bool(flat % 2), pairs=1)
            else:
                yield None
            i += 1


def enum_hb():
    for start in ("init", "preop"):
        for to in ("A", "B", "none"):
            for byte in range(256):
                yield _base("hb", start, [{"op": "hb", "byte": byte, "to": to}])
    # heartbeat after a command, command after a heartbeat, toggle pairs
    for byte in range(256):
        yield _base("hb", "preop", [{"op": "cmd", "cs": 1, "to": "A"}, {"op": "hb", "byte": byte, "to": "A"},
                                    {"op": "hb", "byte": byte ^ 0x80, "to": "A"}])
        yield _base("hb", "preop", [{"op": "hb", "byte": byte, "to": "A"}, {"op": "raw", "cs": 3, "to": "A"},
                                    {"op": "raw", "cs": 2, "to": "B"}, {"op": "cmd", "cs": 2, "to": "A"}])


def enum_names():
    for start in ("init", "preop"):
        for nm in list(NAME_CS) + INVALID_NAMES:
            for to in TARGETS:
                yield _base("name", start, [{"op": "name", "name": nm, "to": to}])
            for to in ("A", "B"):
                yield _base("name", start, [{"op": "lname", "name": nm, "to": to}])
    # an invalid name in the middle of a history must not disturb it
    for nm in INVALID_NAMES:
        yield _base("name", "preop", [{"op": "name", "name": "OPERATIONAL", "to": "A"},
                                      {"op": "name", "name": nm, "to": "A"},
                                      {"op": "lname", "name": nm, "to": "A"},
                                      {"op": "name", "name": nm, "to": "all"},
                                      {"op": "name", "name": "STOPPED", "to": "A"}])


def enum_local():
    names = list(NAME_CS)
    for hb_ms in (0, 100):
        for mod in (True, False):
            for start in ("init", "preop"):
                for n1 in names:
                    yield _base("local", start, [{"op": "lname", "name": n1, "to": "A"},
                                                 {"op": "tick", "to": "A"}], hb_ms, mod)
                    for n2 in names:
                        yield _base("local", start, [{"op": "lname", "name": n1, "to": "A"},
                                                     {"op": "tick", "to": "A"},
                                                     {"op": "lname", "name": n2, "to": "A"},
                                                     {"op": "tick", "to": "A"}, {"op": "tick", "to": "B"}],
                                    hb_ms, mod)
                for cs in DEF_CS:
                    for to in TARGETS:
                        # master command, then what the slave itself transmits
                        yield _base("local", start, [{"op": "raw", "cs": cs, "to": to}, {"op": "tick", "to": "A"},
                                                     {"op": "cmd", "cs": 1, "to": to}, {"op": "tick", "to": "A"},
                                                     {"op": "tick", "to": "B"}], hb_ms, mod)
                        yield _base("local", start, [{"op": "lcmd", "cs": cs, "to": "A"},
                                                     {"op": "cmd", "cs": cs, "to": to}, {"op": "tick", "to": "A"}],
                                    hb_ms, mod)


def enum_wait(thorough):
    W = lambda what, feed: {"op": "wait", "what": what, "feed": feed}   # noqa: E731
    hb_bytes = sorted({0, 4, 5, 127, 80, 96, 0x84, 0x85, 0xFF, 0x80, 1, 0x4B, 0xCB, 126} |
                      (set(range(256)) if thorough else set()))
    for b in hb_bytes:
        yield _base("wait", "init", [W("hb", [["A", b]])])
    for b in (5, 127, 0, 0x85):
        yield _base("wait", "preop", [W("hb", [["B", 4], ["A", b], ["none", 5]])])
        yield _base("wait", "preop", [{"op": "cmd", "cs": 2, "to": "A"}, W("hb", [["A", b]]),
                                      {"op": "cmd", "cs": 128, "to": "A"}])
    # no (matching) message -> NmtError
    yield _base("wait", "init", [W("hb", [])])
    yield _base("wait", "preop", [W("hb", [])])
    yield _base("wait", "preop", [W("hb", [["B", 5]])])
    yield _base("wait", "preop", [W("hb", [["none", 0], ["B", 127]])])
    for b in (5, 0, 127, 0xCB):
        # a heartbeat received BEFORE the wait is not one that "arrives"
        yield _base("wait", "init", [{"op": "hb", "byte": b, "to": "A"}, W("hb", [])])
        yield _base("wait", "preop", [{"op": "hb", "byte": b, "to": "A"}, W("hb", [["B", b]])])
    # boot-up
    yield _base("wait", "init", [W("boot", [["A", 0]])])
    yield _base("wait", "preop", [W("boot", [["A", 0]])])
    # the toggle bit is ignored: 0x80 is a boot-up message too
    yield _base("wait", "preop", [W("boot", [["A", 0x80]])])
    yield _base("wait", "init", [W("boot", [["A", 0x85], ["A", 0x80]])])
    yield _base("wait", "preop", [W("boot", [["B", 0], ["A", 5], ["A", 0x80]])])
    for others in ([5], [127], [4, 5, 127], [0x85, 0x7F], [1], [0xFF]):
        yield _base("wait", "preop", [W("boot", [["A", o] for o in others] + [["A", 0]])])
        yield _base("wait", "preop", [W("boot", [["B", 0]] + [["A", o] for o in others] + [["A", 0]])])
    yield _base("wait", "preop", [{"op": "cmd", "cs": 129, "to": "A"}, W("boot", [["A", 5], ["A", 0]]),
                                  {"op": "cmd", "cs": 1, "to": "A"}])
    # only non-boot-up heartbeats / boot-up of another node / silence / stale boot-up -> NmtError
    neg = [[["A", 5]], [["A", 127]], [["A", 4], ["A", 0x85], ["A", 0x7F]], [["B", 0]], [["none", 0], ["A", 1]]]
    if thorough:
        neg += [[["A", b]] for b in (1, 2, 3, 80, 96, 126, 0xFF, 0x81)]
    for feed in neg:
        yield _base("wait", "preop", [W("boot", feed)])
    yield _base("wait", "init", [W("boot", [])])
    for to in ("Ahi", "hi0", "hiF"):
        for cs in (1, 2, 128, 129, 130):
            yield _base("seq", "preop", [{"op": "raw", "cs": cs, "to": to}, {"op": "raw", "cs": 1, "to": "A"}])
    for who, other in (("A", "B"), ("B", "A")):
        for cs in (1, 2, 128):
            yield _base("seq", "preop", [{"op": "replace", "to": who}, {"op": "cmd", "cs": cs, "to": other},
                                         {"op": "raw", "cs": 1, "to": "all"}, {"op": "cmd", "cs": cs, "to": who}],
                        hb_ms=0)
    yield _base("wait", "init", [{"op": "hb", "byte": 0, "to": "A"}, W("boot", [])])
    yield _base("wait", "preop", [{"op": "hb", "byte": 0, "to": "A"}, W("boot", [["A", 5]])])


def _W(what, feed, pre=(), on="A", timeout_ms=None):
    op = {"op": "wait", "what": what, "feed": [list(x) for x in feed]}
    if timeout_ms:
        op["timeout_ms"] = timeout_ms
    if pre:
        op["pre"] = [list(x) for x in pre]
    if on != "A":
        op["on"] = on
    return op


MATCH = {"hb": 5, "boot": 0}
GAP = ("sleep", 12)       # lets the waiter get into its wait before the first one-shot frame goes out
NOISE_RAW_Q = [(cs, to) for cs in (1, 2, 128, 80, 129, 130, 3, 255) for to in ("A", "all", "B", "none")]
NOISE_CMD_Q = [(cs, to) for cs in (1, 2, 128, 129, 0) for to in ("A", "B", "all")]
NEG_NOISE_Q = [("raw", 1, "A"), ("raw", 128, "all"), ("raw", 2, "B"), ("raw", 3, "A"), ("raw", 129, "A"),
               ("raw", 130, "all"), ("raw", 1, "none"), ("cmd", 1, "A"), ("cmd", 2, "all"), ("cmd", 128, "B"),
               ("cmd", 129, "A")]


def enum_wait_busy(thorough):
    """The bus and the application are not idle while somebody waits: the matching message comes after
    a silence (longer than any polling slice an implementation might use), NMT command frames of another
    master / send_command calls of another thread / heartbeats of other nodes arrive first.  None of them
    is the awaited message: the wait returns on the match (positive) or ends in NmtError (negative)."""
    starts = ("preop", "init")
    n = 0

    def case(ops):
        nonlocal n
        n += 1
        return _base("wait", starts[n % 2], ops)

    # (A) silence first, then the match (time-out: 6 s more than the silence)
    delays = [150, 300, 700] + ([450, 1000, 1500, 2500] if thorough else [])
    for what in ("hb", "boot"):
        m = MATCH[what]
        for d in delays:
            yield case([_W(what, [["A", m]], [("sleep", d)])])
        # ... with other traffic in the silence
        yield case([_W(what, [["A", m]], [("sleep", 60), ("hb", "B", 5), ("sleep", 110), ("raw", 1, "B"),
                                          ("sleep", 110), ("hb", "none", 0), ("sleep", 60)])])
        yield case([_W(what, [["B", 4], ["A", m | 0x80]], [("sleep", 120), ("raw", 128, "all"), ("sleep", 120),
                                                         ("cmd", 1, "B"), ("sleep", 120)])])
    yield case([_W("boot", [["A", 0]], [("sleep", 50), ("hb", "A", 5), ("sleep", 120), ("hb", "A", 0x7F),
                                        ("sleep", 120), ("hb", "A", 0x85), ("sleep", 50)])])
    yield case([_W("boot", [["A", 4], ["A", 0x80]], [("sleep", 130), ("hb", "A", 4), ("sleep", 130)])])
    yield case([_W("hb", [["B", 5]], [("sleep", 250)], on="B")])
    yield case([_W("boot", [["A", 0], ["B", 0x80]], [("sleep", 250), ("hb", "A", 0), ("sleep", 5)], on="B")])

    # (B) one other event between the start of the wait and the match
    raws = [(cs, to) for cs in ALL_CS for to in ("A", "all", "B", "none", "Ahi", "hi0")] if thorough else NOISE_RAW_Q
    cmds = [(cs, to) for cs in ALL_CS for to in ("A", "B", "all")] if thorough else NOISE_CMD_Q
    for what in ("hb", "boot"):
        m = MATCH[what]
        noise = [("raw", cs, to) for cs, to in raws] + [("cmd", cs, to) for cs, to in cmds] + \
                [("hb", "B", 5), ("hb", "B", 0), ("hb", "none", 0), ("hb", "none", 0x85)]
        if what == "boot":
            noise += [("hb", "A", b) for b in (5, 0x7F, 0x85, 4, 1, 0xFF)]
        for k, it in enumerate(noise):
            yield case([_W(what, [["A", m | (0x80 if k % 2 else 0)]], [GAP, it, ("sleep", 4)])])
        # two and three events
        for k in range(0, len(noise) - 2, 5 if not thorough else 1):
            yield case([_W(what, [["B", 5], ["A", m]], [GAP, noise[k], ("sleep", 2), noise[k + 1], ("sleep", 2),
                                                        noise[k + 2], ("sleep", 2)])])
        # the other node is the awaited one
        for it in (("raw", 1, "A"), ("raw", 2, "all"), ("cmd", 1, "A"), ("cmd", 128, "B"), ("hb", "A", m)):
            yield case([_W(what, [["B", m]], [GAP, it, ("sleep", 4)], on="B")])
    # (C) ... and no match at all: NmtError (the time-out covers the schedule)
    negs = [("raw", cs, to) for cs, to in raws] + [("cmd", cs, to) for cs, to in cmds] if thorough else NEG_NOISE_Q
    for what in ("hb", "boot"):
        for it in (negs if thorough or what == "hb" else negs[::2]):
            yield case([_W(what, [], [GAP, it, ("sleep", 4)])])
        yield case([_W(what, [["B", MATCH[what]]], [GAP, ("raw", 1, "A"), ("sleep", 2), ("cmd", 2, "A"), ("sleep", 4)])])
        yield case([_W(what, [["A", MATCH[what]]], [GAP, ("raw", 1, "B"), ("sleep", 4)], on="B")])
    yield case([_W("boot", [["A", 5]], [GAP, ("raw", 128, "A"), ("sleep", 2), ("hb", "A", 0x7F), ("sleep", 4)])])
    # the time-out is one for the whole call, whatever keeps arriving meanwhile (time-out far above the 2 ms period)
    yield case([_W("boot", [["A", 5]], timeout_ms=400)])
    yield case([_W("boot", [["A", 0x7F], ["B", 0], ["A", 0x85]], [GAP, ("raw", 1, "A"), ("sleep", 2)], timeout_ms=400)])
    yield case([_W("hb", [["B", 5], ["none", 0]], [GAP, ("raw", 1, "A"), ("sleep", 2)], timeout_ms=400)])

    # (D) one object used for several waits: what arrived during an earlier wait is not a message of the next
    for m1, w1 in ((0, "boot"), (0, "hb"), (5, "hb"), (0x80, "boot")):
        for w2 in ("hb", "boot"):
            yield case([_W(w1, [["A", m1]]), _W(w2, [] if w1 == w2 else [["B", 0]])])
            yield case([_W(w1, [["A", m1]]), _W(w2, [["A", MATCH[w2]]], [("sleep", 120)])])
    for w1 in ("hb", "boot"):
        for w2 in ("hb", "boot"):
            # a wait that failed leaves the object usable
            yield case([_W(w1, []), _W(w2, [["A", MATCH[w2]]])])
            yield case([_W(w1, [["B", 0]]), {"op": "cmd", "cs": 1, "to": "A"}, _W(w2, [["A", MATCH[w2]]])])
    yield case([_W("hb", [["A", 5]]), _W("hb", [["B", 4]], on="B"), _W("hb", [["A", 4]])])
    yield case([_W("boot", [["B", 0]], on="B"), _W("boot", [["B", 0]]), _W("boot", [["A", 0]], on="B")])


def enum_app(thorough):
    """The devices answer: a node that is reset announces itself with the boot-up message (and enters
    PRE-OPERATIONAL), or every command is acknowledged with a heartbeat of the new state.  The answer is on
    the bus before the master's call has returned (inline delivery).  After command + boot-up the master
    reports PRE-OPERATIONAL, after command + heartbeat the state the heartbeat carries."""
    H = lambda b, to="A": {"op": "hb", "byte": b, "to": to}   # noqa: E731
    resets = [r for r in FLAT_ROUTES if _is_reset(r)]
    follow = [{"op": "cmd", "cs": 1, "to": "A"}, {"op": "raw", "cs": 2, "to": "all"},
              {"op": "name", "name": "RESET", "to": "B"}, H(0x85), {"op": "name", "name": "STOPPED", "to": "all"}]
    n = 0
    for app in APPS:
        for start in ("preop", "init"):
            if thorough:
                for r1 in FLAT_ROUTES:
                    for r2 in FLAT_ROUTES:
                        n += 1
                        yield dict(_base("app", start, [r1, r2], hb_ms=(0, 100)[n % 2], mod=bool(n % 3)), app=app)
            for r in FLAT_ROUTES:
                n += 1
                yield dict(_base("app", start, [r], hb_ms=(0, 100)[n % 2]), app=app)
                if n % 3 == 0:
                    yield dict(_base("app", start, [r], hb_ms=(0, 100)[n % 2]), app=app, ctor="od")
        for r in resets:
            for f in follow:
                n += 1
                # ... in the middle of a history, twice, and seen through the node's own heartbeat afterwards
                yield dict(_base("app", "preop", [f, r, {"op": "tick", "to": "A"}, f, r, H(5, "B")],
                                 hb_ms=(100, 0)[n % 2], mod=bool(n % 2)), app=app)
        # the usual application sequence: command, then wait for the node to report
        for what in ("hb", "boot"):
            for it in (("cmd", 129, "A"), ("raw", 130, "all"), ("cmd", 1, "A"), ("cmd", 130, "all")):
                n += 1
                yield dict(_base("app", ("preop", "init")[n % 2],
                                 [_W(what, [["A", MATCH[what]]], [GAP, it, ("sleep", 4)]),
                                  {"op": "cmd", "cs": 129, "to": "A"}, {"op": "cmd", "cs": 1, "to": "A"}]), app=app)


def enum_rreplace(thorough):
    """The master object of a node is replaced on the live network (once, twice, three times; every
    documented way): the new object is the node's master from then on - heartbeats, boot-up messages,
    commands and waits are judged on it, the other node's master and network.nmt are not concerned."""
    H = lambda b, to: {"op": "hb", "byte": b, "to": to}   # noqa: E731
    n = 0
    first = [0, 4, 5, 0x7F, 0x85, 0x80, 1, 80] + (list(range(256)) if thorough else [])
    for i, how in enumerate(RR_HOWS):
        how2 = RR_HOWS[(i + 1) % len(RR_HOWS)]
        how3 = RR_HOWS[(i + 3) % len(RR_HOWS)]
        for who, other in (("A", "B"), ("B", "A")):
            R = {"op": "rreplace", "to": who, "how": how}
            R2 = {"op": "rreplace", "to": who, "how": how2}
            R3 = {"op": "rreplace", "to": who, "how": how3}
            Ro = {"op": "rreplace", "to": other, "how": how2}
            for start in ("preop", "init"):
                n += 1
                c = lambda ops, **kw: dict(_base("rrep", start, ops, hb_ms=(0, 100)[n % 2]), **kw)   # noqa: E731
                yield c([{"op": "cmd", "cs": 1, "to": who}, R, H(4, who), H(0x85, who), H(0, who),
                         {"op": "cmd", "cs": 2, "to": who}, {"op": "raw", "cs": 1, "to": "all"}, H(5, other),
                         H(0x7F, who), {"op": "tick", "to": who}])
                yield c([H(5, who), H(4, other), R, H(0, other), H(5, who), R2, H(4, who),
                         {"op": "name", "name": "PRE-OPERATIONAL", "to": who}, R3, H(0x80, who),
                         {"op": "raw", "cs": 2, "to": who}, H(0x85, who), {"op": "lname", "name": "RESET", "to": who}])
                yield c([R, Ro, {"op": "name", "name": "OPERATIONAL", "to": "all"}, {"op": "tick", "to": who},
                         {"op": "tick", "to": other}, H(4, who), H(0, other)], ctor=("arg", "od")[n % 2])
                yield c([{"op": "cmd", "cs": 129, "to": who}, R, {"op": "cmd", "cs": 130, "to": who},
                         {"op": "raw", "cs": 129, "to": "all"}, R2, {"op": "name", "name": "RESET", "to": who}],
                        app=APPS[n % 3])
                # waits on the new object: the matching message comes / nothing (new) comes
                for what in ("hb", "boot"):
                    m = MATCH[what]
                    yield c([R, _W(what, [[who, m]], on=who), _W(what, [[other, m]], on=other)])
                    yield c([H(m, who), R, _W(what, [[other, m]], on=who), R2,
                             _W(what, [[other, 4], [who, m | 0x80]], [("sleep", 30)], on=who)])
            for b in first:
                n += 1
                yield _base("rrep", ("preop", "init")[n % 2], [H(b ^ 0x04, who), R, H(b, who), R2, R3, H(b ^ 0x80, who)])


HB_VALUES = [0, 4, 5, 127, 80, 96, 1]


def enum_hb_seq(thorough):
    """consecutive heartbeats: every one is decoded on its own (byte & 0x7F), whatever the previous one and
    whatever the toggle bits were"""
    H = lambda b, to="A": {"op": "hb", "byte": b, "to": to}   # noqa: E731
    bts = HB_VALUES + [v | 0x80 for v in HB_VALUES]
    for b1 in bts:
        for b2 in bts:
            yield _base("hbseq", "preop", [H(b1), H(b2)])
            yield _base("hbseq", "init", [H(b1), H(b2, "B"), H(b2), H(b1, "B")])
    t8 = [0x05, 0x85, 0x04, 0x84, 0x7F, 0xFF, 0x00, 0x80]
    for b1 in t8:
        for b2 in t8:
            for b3 in t8:
                yield _base("hbseq", "preop", [H(b1), H(b2), H(b3)])
    if thorough:
        for b1 in range(256):
            for b2 in range(256):
                yield _base("hbseq", "preop", [H(b1), H(b2)], pairs=1)


# ---- Hypothesis histories ------------------------------------------------------------------
def _cs():
    return st.one_of(st.sampled_from(DEF_CS), st.sampled_from(DEF_CS), st.sampled_from(UNDEF_CS + [4, 5, 126, 131]),
                     st.integers(0, 255))


_VALID = sorted(NAME_CS)


def _mangle(s, k):
    return [s.lower(), s.title(), s + " ", " " + s, s + "\x00", s.replace("-", "_"), s.replace(" ", "_"), s[:-1],
            s + "S", s.replace("O", "0"), s[1:], s + s][k]


def _bad_name():
    mangled = st.builds(_mangle, st.sampled_from(_VALID), st.integers(0, 11))
    return st.one_of(st.sampled_from(INVALID_NAMES), mangled, st.text(max_size=24)).filter(
        lambda s: s not in NAME_CS)


def _name():
    return st.one_of(st.sampled_from(_VALID), st.sampled_from(_VALID), st.sampled_from(_VALID), _bad_name())


def _op():
    t4 = st.sampled_from(["A", "A", "all", "B", "none", "A", "all", "B", "none", "Ahi", "hi0", "hiF"])
    t3 = st.sampled_from(["A", "A", "all", "B"])
    t2 = st.sampled_from(["A", "A", "B"])
    byte = st.one_of(st.sampled_from([0, 4, 5, 127, 80, 96, 0x80, 0x84, 0x85, 0xFF]), st.integers(0, 255))
    return st.one_of(
        st.builds(lambda c, t: {"op": "raw", "cs": c, "to": t}, _cs(), t4),
        st.builds(lambda c, t: {"op": "raw", "cs": c, "to": t}, _cs(), t4),
        st.builds(lambda c, t: {"op": "cmd", "cs": c, "to": t}, _cs(), t3),
        st.builds(lambda n, t: {"op": "name", "name": n, "to": t}, _name(), t3),
        st.builds(lambda n, t: {"op": "lname", "name": n, "to": t}, _name(), t2),
        st.builds(lambda c, t: {"op": "lcmd", "cs": c, "to": t}, st.sampled_from(DEF_CS), t2),
        st.builds(lambda b, t: {"op": "hb", "byte": b, "to": t}, byte, st.sampled_from(["A", "A", "B", "none"])),
        st.builds(lambda t: {"op": "tick", "to": t}, t2),
        st.builds(lambda t: {"op": "replace", "to": t}, t2),
        st.builds(lambda t, h: {"op": "rreplace", "to": t, "how": h}, t2, st.sampled_from(RR_HOWS)),
    )


_OP = _op()
_IDS = st.lists(st.one_of(st.sampled_from([1, 2, 3, 4, 5, 80, 96, 126, 127]), st.integers(1, 127)),
                min_size=3, max_size=3, unique=True)
_OPS_1_12 = st.lists(_OP, min_size=1, max_size=12)
_OPS_0_3 = st.lists(_OP, max_size=3)
_OPS_0_2 = st.lists(_OP, max_size=2)
_HB_MS = st.sampled_from([0, 1, 100, 65535])
_START = st.sampled_from(["init", "preop"])
_BOOL = st.booleans()
_WHAT = st.sampled_from(["hb", "hb", "hb", "boot"])
_FEED_ITEM = st.tuples(st.sampled_from(["A", "A", "B", "none"]), st.integers(0, 255)).map(list)
_FEED0 = st.lists(_FEED_ITEM, min_size=0, max_size=4)
_FEED1 = st.lists(_FEED_ITEM, min_size=1, max_size=4)
_INT03 = st.integers(0, 3)
_APP = st.sampled_from([None, None, None] + list(APPS))


@st.composite
def history(draw):
    return {"fam": "hist", "ids": draw(_IDS), "hb_ms": draw(_HB_MS), "mod": draw(_BOOL), "start": draw(_START),
            "ops": draw(_OPS_1_12), "pairs": 2, "ctor": "od" if draw(_INT03) == 0 else "arg", "app": draw(_APP)}


_T4 = st.sampled_from(["A", "all", "B", "none", "A", "all", "B", "none", "Ahi", "hi0", "hiF"])
_T3 = st.sampled_from(["A", "A", "all", "B"])
_PRE_ITEM = st.one_of(
    st.builds(lambda c, t: ["raw", c, t], _cs(), _T4),
    st.builds(lambda c, t: ["raw", c, t], _cs(), _T4),
    st.builds(lambda c, t: ["cmd", c, t], _cs(), _T3),
    st.builds(lambda t, b: ["hb", t, b], st.sampled_from(["B", "none", "B", "none", "A"]), st.integers(0, 255)),
)
_PRE_ITEMS = st.lists(_PRE_ITEM, min_size=1, max_size=4)
_SILENCE = st.sampled_from([0, 0, 0, 0, 120, 250])
_GAP_MS = st.integers(1, 5)


@st.composite
def _wait_op(draw, busy):
    what = draw(_WHAT)
    feed = draw(_FEED0 if what == "hb" else _FEED1)
    if what == "boot" and draw(_INT03) > 0:
        feed.append(["A", 0])
    if what == "hb":
        # a return value is only determined when all frames for the awaited node decode alike
        a = [f for f in feed if f[0] == "A"]
        for f in a[1:]:
            f[1] = a[0][1] ^ (0x80 if draw(_BOOL) else 0)
    op = {"op": "wait", "what": what, "feed": feed}
    pre = []
    if busy:
        pre = [["sleep", 12]]
        for it in draw(_PRE_ITEMS):
            if it[0] == "hb" and it[1] == "A":
                # heartbeats of the awaited node that do not match: boot-up waits only
                if what == "hb":
                    it[1] = "B"
                elif it[2] & 0x7F == 0:
                    it[2] |= 5
            pre += [it, ["sleep", draw(_GAP_MS)]]
        silence = draw(_SILENCE)
        if silence:
            pre.insert(2 * draw(st.integers(0, (len(pre) - 1) // 2)), ["sleep", silence])
        op["pre"] = pre
    if draw(_INT03) == 0:
        # the other RemoteNode is the one that waits: swap the roles of A and B in the schedule
        sw = {"A": "B", "B": "A"}
        op["on"] = "B"
        op["feed"] = [[sw.get(to, to), b] for to, b in feed]
        op["pre"] = [[it[0], sw.get(it[1], it[1]), it[2]] if it[0] == "hb" else
                     [it[0], it[1], sw.get(it[2], it[2])] if it[0] in ("raw", "cmd") else it for it in pre]
        if not pre:
            del op["pre"]
    return op


@st.composite
def wait_history(draw, busy=False):
    ids = draw(_IDS)
    pre = draw(_OPS_0_3)
    post = draw(_OPS_0_2)
    ops = pre + [draw(_wait_op(busy))] + post
    if draw(_INT03) == 0:
        ops.append(draw(_wait_op(False)))
    return {"fam": "hist", "ids": ids, "hb_ms": draw(_HB_MS), "mod": draw(_BOOL), "start": draw(_START),
            "ops": ops, "pairs": 2, "app": draw(_APP)}


def tour():
    """one representative per family first, so that the evidence samples show every kind of case"""
    import itertools
    yield next(x for x in enum_short() if len(x["ops"]) == 2 and x["ops"][0]["to"] != x["ops"][1]["to"])
    yield next(enum_hb())
    yield next(x for x in enum_names() if x["ops"][0]["name"] not in NAME_CS)
    yield next(x for x in enum_names() if len(x["ops"]) > 1)
    yield next(x for x in enum_local() if len(x["ops"]) > 2 and x["hb_ms"])
    for want in ("wait/hb/returns", "wait/hb/NmtError", "wait/boot/returns", "wait/boot/NmtError"):
        yield next(x for x in enum_wait(False) if _klass(x).startswith(want))
    for want in ("/delayed", "/cmd-frames-during"):
        yield next(x for x in enum_wait_busy(False) if _klass(x).endswith(want))
    yield next(x for x in enum_wait_busy(False) if any(op.get("timeout_ms") for op in x["ops"]))
    yield next(x for x in itertools.islice(enum_hb(), 1600, None) if len(x["ops"]) > 1)
    yield next(x for x in enum_app(False) if any(_is_reset(o) for o in x["ops"]))
    yield next(enum_rreplace(False))


def search(ctx):
    thorough = ctx.tier == "thorough"
    if ctx.shard == 0:
        for case in tour():
            ctx.check(case)
    # the (few, slow) wait cases first: a loaded machine that exhausts the cooperative budget then cuts the
    # big enumerations short, not the only cases that exercise the wait clause
    ctx.enumerate(enum_wait(thorough), "wait_for_heartbeat / wait_for_bootup matrix")
    ctx.enumerate(enum_wait_busy(thorough), "waits with a silence before the match, with NMT command frames / send_command "
                                            "calls / other heartbeats during the wait, several waits on one object")
    ctx.enumerate(enum_rreplace(thorough), "master object of a node replaced on the live network (5 ways, 1-3 times, A or B), "
                                           "then heartbeats / boot-ups / commands / waits on the new object")
    ctx.enumerate(enum_app(thorough), "devices that answer: reset -> boot-up message (-> PRE-OPERATIONAL) / every command "
                                      "acknowledged by a heartbeat, delivered while the command is being sent; every "
                                      "symbol x route" + (" pair" if thorough else "") + " x 3 applications x 2 starts")
    ctx.enumerate(enum_hb_seq(thorough), "heartbeat pairs over 7 state values x toggle bit on one and on two nodes, triples "
                                         "over 8 bytes" + (", all 65536 byte pairs" if thorough else ""))
    ctx.enumerate(enum_names(), "all documented names + invalid strings x {remote A/B, network, local A/B}")
    ctx.enumerate(enum_hb(), "all 256 heartbeat bytes x {A, B, unowned id} x 2 start states")
    ctx.enumerate(enum_local(), "local state assignments (pairs of names) with the slave's own heartbeat")
    ctx.enumerate(enum_short(), "all sequences of <=2 symbols (11 cs x {A,0,B}) x every issue route x 2 start states")
    # Hypothesis in chunks so that an exhausted budget stops it (the runner would otherwise keep generating)
    for k in range(8 if thorough else 2):
        if ctx.over_budget():
            break
        ctx.hypothesis(history(), 1000, salt=10 + k)
        ctx.hypothesis(wait_history(), 40 if thorough else 30, salt=30 + k)
        ctx.hypothesis(wait_history(busy=True), 15 if thorough else 20, salt=50 + k)
    if thorough:
        _enum_skipping(ctx, enum_long(ctx, 3, ("preop", "init")),
                       "all sequences of 3 symbols x 2 start states (route per position rotates)")
        _enum_skipping(ctx, enum_long(ctx, 4, ("preop", "init")),
                       "all sequences of 4 symbols x 2 start states (route per position rotates)")


def _enum_skipping(ctx, gen, label):
    """ctx.enumerate for big spaces: the generator already yields None for the
    items of other shards (building 2.4 M dicts 16 times would dominate)."""
    n = 0
    complete = True
    for case in gen:
        if case is None:
            continue
        if ctx.over_budget():
            complete = False
            break
        ctx.check(case)
        n += 1
    ctx.exhaustive_parts.append({"part": label, "cases": n, "complete": complete})
