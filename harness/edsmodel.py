"""Abstract object-dictionary model, Hypothesis strategies and an INDEPENDENT
EDS/DCF text writer (CiA 306), shared by C08 and C14.

Nothing in here imports canopen.  A *model* is a plain JSON-able dict:

model = {
  "doc": "eds" | "dcf",
  "sp": int,                       # spelling seed of the file layout
  "objects": [obj, ...],           # in file order (not sorted)
  "dummies": [i, ...] | None,      # [DummyUsage] flags set to 1; None = no section
  "devinfo": {key: value} | None,  # CiA 306 [DeviceInfo] keys actually present
  "baud": [kbit, ...],             # BaudRate_<kbit>=1
  "comments": [line, ...] | None,  # [Comments]; None = no section
  "commissioning": {"node_id": n|None, "baudrate": kbit|None, "baud_hex": bool} | None,
  "raw": {section: {key: text}},   # OPTIONAL: exact spelling of keys of the fixed sections
}
obj = {"kind": "var"|"domain"|"record"|"array"|"compact", "index": i, "name": s,
       "storage": s|None, "sp": int,
       # var/domain/compact: the variable description (for compact: the element)
       "var": var,
       # record/array: members
       "members": [var, ...],
       # compact: "n": N, "names": [s1..sN] | None, "n_hex": bool}
var = {"sub": k, "name": s, "dt": t, "access": a, "pdo": None|0|1,
       "default": spec|None, "value": spec|None, "low": spec|None, "high": spec|None,
       "storage": s|None, "factor": f|None, "unit": s|None, "description": s|None,
       "sp": int}
spec = {"k": "int", "v": n} | {"k": "rel", "x": n} | {"k": "real", "v": f}
     | {"k": "str", "v": s} | {"k": "hex", "v": "0a0b"} | {"k": "empty"}

Spelling choices (decimal / 0x / 0X, digit case, zero padding, sub/Sub, key order,
blank lines, comment lines, inline ';' comments, ObjectType present or absent,
two's-complement or negative-decimal limits, $NODEID forms) are all derived from
the "sp" seeds, which are Hypothesis draws; seed 0 is the canonical spelling, so a
shrunk counter-example is readable.
"""
import hashlib

from hypothesis import strategies as st

from harness import refcodec as rc

# ---------------------------------------------------------------------------
ACCESS = ["rw", "ro", "wo", "const", "rwr", "rww"]
STD_BAUD = [10, 20, 50, 125, 250, 500, 800, 1000]
ALL_TYPES = list(rc.ALL_TYPES)
ODD = (rc.INTEGER24, rc.INTEGER40, rc.INTEGER48, rc.INTEGER56,
       rc.UNSIGNED24, rc.UNSIGNED40, rc.UNSIGNED48, rc.UNSIGNED56)
BYTES_TYPES = (rc.OCTET_STRING, rc.DOMAIN)
TEXT_TYPES = (rc.VISIBLE_STRING, rc.UNICODE_STRING)

LETTERS = "abcdefghijklmnopqrstuvwxyzABCDEFGHIJKLMNOPQRSTUVWXYZ"
DIGITS = "0123456789"
# names: letters, digits, blank and _-%=()/: (DESIGN C08); '.' is added separately
NAME_ALPHABET = LETTERS + DIGITS + "    " + "_-%=()/:#"
# free text (string defaults, unit, description, comments, device info strings)
TEXT_ALPHABET = LETTERS + DIGITS + "   " + "_-%=()/:#.,!?+*<>@[]{}|~^&'\""
STORAGE = ["RAM", "ROM", "PERSIST_COMM", "PERSIST_APP", "PERSIST_MFR"]

DEVINFO_STR = ["VendorName", "ProductName", "OrderCode"]
DEVINFO_INT = ["VendorNumber", "ProductNumber", "RevisionNumber", "Granularity",
               "NrOfRXPDO", "NrOfTXPDO"]
DEVINFO_BOOL = ["SimpleBootUpMaster", "SimpleBootUpSlave", "DynamicChannelsSupported",
                "GroupMessaging", "LSS_Supported"]


# ---------------------------------------------------------------------------
class Sp:
    """Deterministic stream of small choices expanded from one drawn seed.
    Seed 0 always picks 0 (canonical spelling)."""

    def __init__(self, seed, tag=""):
        self.seed = seed
        self.tag = tag
        self.ctr = 0
        self.pool = b""

    def pick(self, k):
        if self.seed == 0 or k <= 1:
            return 0
        if len(self.pool) < 4:
            self.pool += hashlib.blake2b(f"{self.seed}/{self.tag}/{self.ctr}".encode()).digest()
            self.ctr += 1
        v = int.from_bytes(self.pool[:4], "little")
        self.pool = self.pool[4:]
        return v % k

    def chance(self, one_in):
        """True with probability 1/one_in (never for the canonical seed)."""
        return self.seed != 0 and self.pick(one_in) == 0

    def shuffle(self, items):
        items = list(items)
        for i in range(len(items) - 1, 0, -1):
            j = self.pick(i + 1)
            items[i], items[j] = items[j], items[i]
        return items


# ---- spelling of values ------------------------------------------------------
def uint_forms(v, pad=4):
    """Every spelling of a non-negative number the writer knows."""
    assert v >= 0
    return [str(v), "0x%X" % v, "0x%x" % v, "0X%X" % v, "0x" + ("%X" % v).rjust(pad, "0"), str(v)]


def sp_uint(v, sp, pad=4):
    return uint_forms(v, pad)[sp.pick(6)]


def sp_int_default(v, sp, dt):
    """Default / parameter value of an integer or BOOLEAN object."""
    if v < 0:
        return "-%d" % -v
    # TIME_OF_DAY (0x0C) / TIME_DIFFERENCE (0x0D): 48-bit structures, number spellings padded like UNSIGNED48
    return sp_uint(v, sp, pad=max(2, (48 if dt in (0x0C, 0x0D) else rc.width(dt)) // 4))


def limit_forms(v, dt):
    """LowLimit / HighLimit: negative values of signed types as negative decimal
    or as two's-complement hex of exactly the type's width."""
    if v >= 0:
        return uint_forms(v, pad=max(2, rc.width(dt) // 4))
    w = rc.SIGNED[dt]
    tc = v + (1 << w)                      # two's complement, by arithmetic
    digits = ("%X" % tc).rjust(w // 4, "0")
    assert len(digits) == w // 4
    return ["-%d" % -v, "0x" + digits, "0x" + digits.lower(), "0X" + digits]


def sp_limit(v, sp, dt):
    forms = limit_forms(v, dt)
    return forms[sp.pick(len(forms))]


def sp_real(v, sp):
    c = sp.pick(4)
    r = repr(float(v))
    if c == 1:
        return r.upper()                   # 1E-05
    if c == 2:
        return format(float(v), ".17g")
    if c == 3 and float(v).is_integer() and 0 < abs(v) < 1e15:
        return str(int(v))
    return r


REL_FORMS = ["$NODEID+%s", "%s+$NODEID", "$NODEID + %s", "%s + $NODEID", "$NODEID +%s"]


def sp_rel(x, sp):
    form = sp.pick(len(REL_FORMS))
    return REL_FORMS[form] % sp_uint(x, sp, pad=3)


def sp_hexbytes(h, sp):
    c = sp.pick(3)
    if c == 1:
        return h.upper()
    if c == 2:
        return " ".join(h[i:i + 2] for i in range(0, len(h), 2))
    return h


def spell_value(dt, spec, sp):
    k = spec["k"]
    if k == "empty":
        return ""
    if k == "int":
        return sp_int_default(spec["v"], sp, dt)
    if k == "rel":
        return sp_rel(spec["x"], sp)
    if k == "real":
        return sp_real(spec["v"], sp)
    if k == "str":
        return spec["v"]
    if k == "hex":
        return sp_hexbytes(spec["v"], sp)
    raise ValueError(k)


def spell_limit(dt, spec, sp):
    if spec["k"] == "real":
        return sp_real(spec["v"], sp)
    return sp_limit(spec["v"], sp, dt)


def spec_value(spec, node):
    """(known, value) the described value denotes, with the node id in force."""
    if spec is None:
        return True, None
    k = spec["k"]
    if k == "int":
        return True, spec["v"]
    if k == "rel":
        if node is None:
            return False, None
        return True, spec["x"] + node
    if k == "real":
        return True, float(spec["v"])
    if k == "str":
        return True, spec["v"]
    if k == "hex":
        return True, bytes.fromhex(spec["v"])
    return False, None                      # "empty": no statement


def sp_case(word, sp):
    c = sp.pick(4)
    if c == 1:
        return word.upper()
    if c == 2:
        return word.capitalize()
    if c == 3:
        return word[:1] + word[1:].upper()
    return word


# ---- the writer ----------------------------------------------------------------
class _Section:
    def __init__(self, header, items, seed, tag):
        self.header = header
        self.items = items          # list of (key, value)
        self.sp = Sp(seed, tag)


def _var_items(v, sp, doc, object_type, compact_n=None, n_hex=False):
    """Key/value lines describing one variable (or the element of a compact array)."""
    dt = v["dt"]
    items = [("ParameterName", v["name"])]
    if object_type == 7:
        if not sp.chance(3):                       # "missing ObjectType" = VAR
            items.append(("ObjectType", sp_uint(7, sp, pad=1)))
    else:
        items.append(("ObjectType", sp_uint(object_type, sp, pad=1)))
    if compact_n is not None:
        items.append(("CompactSubObj", ("0x%X" % compact_n) if n_hex else sp_uint(compact_n, sp, pad=2)))
    c = sp.pick(4)
    items.append(("DataType", ["0x%04X" % dt, "0x%X" % dt, str(dt), "0x%04x" % dt][c]))
    items.append(("AccessType", sp_case(v["access"], sp)))
    if v["default"] is not None:
        items.append(("DefaultValue", spell_value(dt, v["default"], sp)))
    if v["pdo"] is not None:
        items.append(("PDOMapping", str(v["pdo"])))
    if v["low"] is not None:
        items.append(("LowLimit", spell_limit(dt, v["low"], sp)))
    if v["high"] is not None:
        items.append(("HighLimit", spell_limit(dt, v["high"], sp)))
    if doc == "dcf" and v["value"] is not None:
        items.append(("ParameterValue", spell_value(dt, v["value"], sp)))
    if v["storage"] is not None:
        items.append(("StorageLocation", v["storage"]))
    if v["factor"] is not None:
        items.append(("Factor", sp_real(v["factor"], sp)))
    if v["unit"] is not None:
        items.append(("Unit", v["unit"]))
    if v["description"] is not None:
        items.append(("Description", v["description"]))
    if sp.chance(6):
        items.append(("ObjFlags", sp_uint(sp.pick(4), sp, pad=1)))
    if doc == "dcf" and sp.chance(6):
        items.append(("Denotation", "den %d" % sp.pick(100)))
    raw = v.get("raw")
    if raw:
        # enumerated families fix the exact spelling of some keys
        items = [(k, raw.get(k, val)) for k, val in items]
    return items


def _object_sections(o, doc):
    """-> (parent section, [child sections])"""
    sp = Sp(o["sp"], "obj")
    idx = ("%04X" if sp.pick(2) == 0 else "%04x") % o["index"]
    kind = o["kind"]
    children = []
    if kind in ("var", "domain"):
        v = top_var(o)
        parent = _Section(idx, _var_items(v, Sp(v["sp"], "var"), doc, 7 if kind == "var" else 2),
                          o["sp"], "lay")
        return parent, children
    if kind == "compact":
        v = top_var(o)
        parent = _Section(idx, _var_items(v, Sp(v["sp"], "var"), doc, 8, o["n"], o.get("n_hex", False)),
                          o["sp"], "lay")
        if o["names"] is not None:
            items = [("NrOfEntries", ("0x%X" % o["n"]) if o.get("n_hex") else str(o["n"]))]
            items += [(str(i + 1), nm) for i, nm in enumerate(o["names"])]
            children.append(_Section(idx + "Name", items, o["sp"], "names"))
        return parent, children
    items = [("ParameterName", o["name"]),
             ("ObjectType", sp_uint(9 if kind == "record" else 8, sp, pad=1)),
             ("SubNumber", sp_uint(len(o["members"]), sp, pad=1))]
    if o["storage"] is not None:
        items.append(("StorageLocation", o["storage"]))
    parent = _Section(idx, items, o["sp"], "lay")
    for m in o["members"]:
        msp = Sp(m["sp"], "sub")
        word = "sub" if msp.pick(2) == 0 else "Sub"
        digits = ("%X" if msp.pick(2) == 0 else "%x") % m["sub"]
        children.append(_Section(idx + word + digits, _var_items(m, Sp(m["sp"], "var"), doc, 7),
                                 m["sp"], "lay"))
    return parent, children


def _object_lists(model):
    man, opt, mfr = [], [], []
    for o in sorted(model["objects"], key=lambda o: o["index"]):
        i = o["index"]
        if i in (0x1000, 0x1001, 0x1018):
            man.append(i)
        elif 0x2000 <= i <= 0x5FFF:
            mfr.append(i)
        else:
            opt.append(i)
    out = []
    for header, lst in (("MandatoryObjects", man), ("OptionalObjects", opt), ("ManufacturerObjects", mfr)):
        items = [("SupportedObjects", str(len(lst)))]
        items += [(str(n + 1), "0x%04X" % i) for n, i in enumerate(lst)]
        out.append((header, items))
    return out


def _emit(sec, lines):
    sp = sec.sp
    lines.append("[%s]" % sec.header)
    items = sp.shuffle(sec.items) if sp.chance(2) else list(sec.items)
    for key, value in items:
        if sp.chance(12):
            lines.append(";" + ["note", " generated", "=x", "[1000]"][sp.pick(4)])
        if sp.chance(20):
            lines.append("")
        if sp.chance(30):
            lines.append("# hash comment")
        line = "%s=%s" % (key, value)
        if sp.chance(10):
            line += [" ;c", "\t; remark", "  ; 0x10", " ;[x]"][sp.pick(4)]
        elif sp.chance(15):
            line += "  "
        lines.append(line)
    if not sp.chance(4):
        lines.append("")


def render(model) -> str:
    """The EDS/DCF text of a model (LF line ends)."""
    doc = model["doc"]
    g = Sp(model["sp"], "file")
    seed = model["sp"]
    fixed = []
    fixed.append(_Section("FileInfo", [
        ("FileName", "gen." + doc), ("FileVersion", "1"), ("FileRevision", "2"),
        ("EDSVersion", "4.0"), ("Description", "generated"), ("CreationTime", "09:45AM"),
        ("CreationDate", "05-15-2003"), ("CreatedBy", "verif"), ("ModificationTime", "09:45AM"),
        ("ModificationDate", "05-15-2003"), ("ModifiedBy", "verif")], seed, "fi"))
    if model["devinfo"] is not None:
        dsp = Sp(seed, "di")
        items = []
        for key, val in model["devinfo"].items():
            if key in DEVINFO_INT:
                items.append((key, sp_uint(val, dsp, pad=8)))
            elif key in DEVINFO_BOOL:
                items.append((key, str(int(val))))
            else:
                items.append((key, val))
        for kb in STD_BAUD:
            if kb in model["baud"]:
                items.append(("BaudRate_%d" % kb, "1"))
            elif not dsp.chance(3):
                items.append(("BaudRate_%d" % kb, "0"))
        if dsp.chance(3):
            items.append(("CompactPDO", "0"))
        fixed.append(_Section("DeviceInfo", items, seed, "dil"))
    if model["dummies"] is not None:
        fixed.append(_Section("DummyUsage", [("Dummy%04d" % i, "1" if i in model["dummies"] else "0")
                                              for i in range(1, 8)], seed, "du"))
    if model["comments"] is not None:
        csp = Sp(seed, "co")
        items = [("Lines", sp_uint(len(model["comments"]), csp, pad=1))]
        items += [("Line%d" % (i + 1), ln) for i, ln in enumerate(model["comments"])]
        fixed.append(_Section("Comments", items, seed, "col"))
    com = model["commissioning"]
    if com is not None:
        csp = Sp(seed, "dc")
        items = []
        if com["node_id"] is not None:
            items.append(("NodeID", sp_uint(com["node_id"], csp, pad=2)))
        if com["baudrate"] is not None:
            items.append(("Baudrate", ("0x%X" % com["baudrate"]) if com.get("baud_hex") else str(com["baudrate"])))
        if csp.chance(2):
            items.append(("NodeName", "node name"))
        if csp.chance(3):
            items.append(("NetNumber", "1"))
            items.append(("NetworkName", "net"))
        if csp.chance(4):
            items.append(("CANopenManager", "0"))
        if csp.chance(4):
            items.append(("LSS_SerialNumber", "1234"))
        fixed.append(_Section("DeviceComissioning", items, seed, "dcl"))
    for header, items in _object_lists(model):
        fixed.append(_Section(header, items, seed, header))
    raw = model.get("raw")
    if raw:
        # optional: exact spelling of some keys of the fixed sections, {"DeviceInfo": {"BaudRate_250": "0x1"}}
        # (only keys the writer emits anyway are respelled; absent -> nothing changes)
        for sec in fixed:
            over = raw.get(sec.header)
            if over:
                sec.items = [(k, over.get(k, val)) for k, val in sec.items]

    objs = [_object_sections(o, doc) for o in model["objects"]]
    layout = g.pick(3)
    body = []
    if layout == 2:
        # all top-level sections first, all sub-objects afterwards (still parent first)
        body += [p for p, _ in objs]
        rest = [c for _, cs in objs for c in cs]
        body += g.shuffle(rest) if g.chance(2) else rest
    else:
        for p, cs in objs:
            body.append(p)
            body += (g.shuffle(cs) if layout == 1 else cs)
    if g.chance(2):
        fixed = g.shuffle(fixed)
    cut = g.pick(len(fixed) + 1) if g.chance(3) else len(fixed)
    sections = fixed[:cut] + body + fixed[cut:]
    lines = []
    if g.chance(4):
        lines.append("; generated by the independent EDS writer")
    for s in sections:
        _emit(s, lines)
    return "\n".join(lines) + "\n"


# ---- facts about a model ---------------------------------------------------------
def node_in_force(model, node_arg):
    if node_arg is not None:
        return node_arg
    com = model["commissioning"]
    if com is not None:
        return com["node_id"]
    return None


def top_var(o):
    """The variable description of a var/domain/compact object with the object's
    own name and storage location filled in."""
    return dict(o["var"], name=o["name"], storage=o["storage"])


def all_vars(model):
    """(obj, var) for every described variable (compact: the element once)."""
    for o in model["objects"]:
        if o["kind"] in ("var", "domain", "compact"):
            yield o, o["var"]
        else:
            for m in o["members"]:
                yield o, m


def features(model):
    f = set()
    for o, v in all_vars(model):
        if v["dt"] in rc.SIGNED and (v["low"] is not None or v["high"] is not None):
            f.add("slimit")
            for s in (v["low"], v["high"]):
                if s is not None and s["k"] == "int" and s["v"] < 0:
                    f.add("neglimit")
        if v["dt"] in ODD:
            f.add("odd")
        if v["default"] is not None and v["default"]["k"] == "rel":
            f.add("rel")
        for s in (v["default"], v["value"]):
            if s is not None and s["k"] == "int" and s["v"] < 0:
                f.add("negval")
    for o in model["objects"]:
        if o["kind"] == "compact":
            f.add("compact")
        elif o["kind"] in ("record", "array"):
            f.add(o["kind"])
        elif o["kind"] == "domain":
            f.add("domain")
    return f


def excluded_class(model):
    """Input classes on which the unchanged tree genuinely deviates (reported);
    excluded by construction so the search goes on behind them."""
    # F1..F4 were repaired in /repo (commits 4de7d60, 2490f33, b2fd9e3): nothing is kept
    # out of the domain any more, these classes are generated and judged like all others.
    return None
    com = model["commissioning"]
    if com is not None and com.get("baud_hex") and com["baudrate"] is not None:
        return "F1 hexadecimal Baudrate in [DeviceComissioning] (import raises ValueError)"
    for o in model["objects"]:
        if o["kind"] == "compact" and o.get("n_hex") and o["names"] is not None:
            return "F2 hexadecimal NrOfEntries in a compact name list (import raises ValueError)"
    for o in model["objects"]:
        if o["kind"] == "compact" and o["names"] is None and o["n"] >= 2 and o["var"]["pdo"] == 1:
            return "F4 PDOMapping=1 on a compact array without name list (elements >= 2 not mappable)"
    for o, v in all_vars(model):
        for s in (v["low"], v["high"]):
            if s is not None and s["k"] == "real":
                return "F3 LowLimit/HighLimit of a REAL32/REAL64 object (silently dropped)"
    return None


# ---- strategies ---------------------------------------------------------------------
# Leaf strategies are built once; the composite below calls plain functions taking
# `draw` (building a strategy object per draw costs more than the draw itself).
import functools

_BOUNDS = {}


def bounds(dt):
    b = _BOUNDS.get(dt)
    if b is None:
        lo, hi = rc.int_range(dt)
        s = {lo, lo + 1, lo + 2, hi, hi - 1, hi - 2, 0, 1, 2, 127, 128, 255, 256}
        if lo < 0:
            s |= {-1, -2, -127, -128, -129}
        w = rc.INTEGERS[dt]
        for k in range(7, w, 8):
            for d in (-1, 0, 1):
                s |= {(1 << k) + d, -(1 << k) + d}
        b = _BOUNDS[dt] = sorted(v for v in s if lo <= v <= hi)
    return b


@functools.lru_cache(maxsize=None)
def int_values(dt):
    lo, hi = rc.int_range(dt)
    return st.one_of(st.sampled_from(bounds(dt)), st.integers(lo, hi))


def _clean(s, fallback):
    s = s.strip()
    return s if s else fallback


def _mk_name(t):
    a, dot, b = t
    s = _clean(a, "n")
    if dot == 0:
        s = s + "." + _clean(b, "m")
    if s.startswith("Dummy"):
        s = "d" + s
    return s


_name_text = st.text(NAME_ALPHABET, min_size=1, max_size=9)
_free_text = st.text(TEXT_ALPHABET, min_size=0, max_size=10)
_plain_name = _name_text.map(lambda a: _mk_name((a, 1, "")))
_dotted_name = st.tuples(_name_text, st.just(0), st.text(NAME_ALPHABET, min_size=1, max_size=4)).map(_mk_name)
NAMES = st.one_of(_plain_name, _plain_name, _plain_name, _plain_name, _dotted_name)
FREE_TEXT = _free_text.map(lambda s: _clean(s, "t"))
FREE_TEXT_OR_EMPTY = _free_text.map(lambda s: _clean(s, ""))
names = lambda: NAMES                                   # noqa: E731  (kept for callers)


@functools.lru_cache(maxsize=None)
def value_spec(dt, allow_rel=False, allow_empty_text=False):
    if dt == rc.BOOLEAN:
        return st.builds(lambda v: {"k": "int", "v": v}, st.integers(0, 1))
    if dt in rc.INTEGERS:
        base = st.builds(lambda v: {"k": "int", "v": v}, int_values(dt))
        lo, hi = rc.int_range(dt)
        if allow_rel and hi - 127 >= 0:
            xs = st.one_of(st.sampled_from([x for x in (0, 1, 0x80, 0x180, 0x200, 0x580, 0x600, 0x700,
                                                        0x40000180, 0x80000200, hi - 127) if x <= hi - 127]),
                           st.integers(0, hi - 127))
            rel = st.builds(lambda x: {"k": "rel", "x": x}, xs)
            return st.one_of(base, base, rel)
        return base
    if dt in rc.REALS:
        return st.builds(lambda v: {"k": "real", "v": v},
                         st.floats(allow_nan=False, allow_infinity=False, width=rc.REALS[dt]))
    if dt in TEXT_TYPES:
        return st.builds(lambda s: {"k": "str", "v": s}, FREE_TEXT_OR_EMPTY if allow_empty_text else FREE_TEXT)
    return st.builds(lambda b: {"k": "hex", "v": b.hex()},
                     st.binary(min_size=0 if allow_empty_text else 1, max_size=8))


# type pool: every type, signed and odd widths over-represented
TYPE_POOL = ALL_TYPES + sorted(rc.SIGNED) * 2 + list(ODD) + [rc.UNSIGNED32, rc.UNSIGNED8, rc.UNSIGNED16]
ELEMENT_POOL = [t for t in TYPE_POOL if t != rc.DOMAIN]
_TYPES = st.sampled_from(TYPE_POOL)
_ELEMENTS = st.sampled_from(ELEMENT_POOL)
_ACCESS = st.sampled_from(ACCESS)
_FLAGS = st.integers(0, 0xFFFF)
_SEED = st.integers(0, 1 << 48)
_STORAGE = st.sampled_from(STORAGE)
_STORAGE_OPT = st.sampled_from([None, None, None] + STORAGE)
_FACTOR = st.sampled_from([0.1, 0.001, 10.0, 2.5, -1.0, 1e-06, 3.0, 0.5, 1000.0])
_KIND = st.sampled_from(["var", "var", "var", "domain", "array", "record", "record", "compact", "compact"])
_SMALL = {n: st.integers(0, n) for n in (1, 3, 7, 15)}
_BOOL = st.booleans()
_N_NAMED = st.one_of(st.integers(1, 9), st.integers(1, 20))
_N_UNNAMED = st.one_of(st.integers(1, 20), st.sampled_from([1, 2, 16, 127, 254]))
_SUBS = st.integers(1, 0xFE)


def _draw_var(draw, doc, sub=0, dt=None, for_export=False, allow_rel=True, name=None, real_limits=False):
    if dt is None:
        dt = draw(_TYPES)
    flags = draw(_FLAGS)
    v = {"sub": sub, "name": name if name is not None else draw(NAMES),
         "dt": dt, "access": draw(_ACCESS),
         "pdo": [None, 0, 1, 1][flags & 3],
         "default": None, "value": None, "low": None, "high": None,
         "storage": None, "factor": None, "unit": None, "description": None,
         "sp": draw(_SEED)}
    if for_export and v["pdo"] is None:
        v["pdo"] = 0
    if flags & 0x4:
        if not for_export and dt in rc.NUMERIC and (flags & 0xF000) == 0xF000:
            v["default"] = {"k": "empty"}
        else:
            v["default"] = draw(value_spec(dt, allow_rel, for_export))
    if doc == "dcf" and flags & 0x8:
        v["value"] = draw(value_spec(dt, False, for_export))
    if dt in rc.INTEGERS:
        if flags & 0x10:
            v["low"] = {"k": "int", "v": draw(int_values(dt))}
        if flags & 0x20:
            v["high"] = {"k": "int", "v": draw(int_values(dt))}
    elif dt in rc.REALS and real_limits and (flags & 0x30) == 0x30:
        v["low"] = {"k": "real", "v": -1.5}
        v["high"] = {"k": "real", "v": 2.5}
    if (flags & 0xC0) == 0xC0:
        v["storage"] = draw(_STORAGE)
    if (flags & 0x300) == 0x300:
        v["factor"] = draw(_FACTOR)
    if (flags & 0xC00) == 0xC00:
        v["unit"] = draw(FREE_TEXT)
        v["description"] = draw(FREE_TEXT) if flags & 0x1000 else None
    return v


def variables(doc, **kw):
    """A single variable description as a strategy (thin wrapper)."""
    return st.composite(lambda draw: _draw_var(draw, doc, **kw))()


def _uniq(name, used, k=0):
    cand = name
    while cand in used:
        k += 1
        cand = "%s_%d" % (name, k)
    used.add(cand)
    return cand


def fix_names(objects):
    """Make every lookup key unambiguous: top-level names unique, member names unique
    within their parent, and no 'Parent.Child' string equal to another key."""
    used = set()
    for o in objects:
        o["name"] = _uniq(o["name"], used)
    for o in objects:
        if o["kind"] in ("record", "array"):
            local = set()
            for m in o["members"]:
                nm = m["name"]
                while True:
                    nm = _uniq(nm, local)
                    q = o["name"] + "." + nm
                    if q not in used:
                        used.add(q)
                        break
                m["name"] = nm
        elif o["kind"] == "compact" and o["names"] is not None:
            local = {o["name"]}          # keep element names distinct from the array's own name
            out = []
            for nm in o["names"]:
                while True:
                    nm = _uniq(nm, local)
                    q = o["name"] + "." + nm
                    if q not in used:
                        used.add(q)
                        break
                out.append(nm)
            o["names"] = out
    return objects


_INDEX = st.one_of(
    st.sampled_from([0x1000, 0x1001, 0x1018, 0x1003, 0x1017, 0x1400, 0x1600, 0x1800, 0x1A00, 0x1A0B,
                     0x1FFF, 0x2000, 0x2ABC, 0x5FFF, 0x6000, 0x6040, 0x60FF, 0x9FFF, 0x1F80, 0x2FEA]),
    st.integers(0x1000, 0x9FFF))
_INDEX_LISTS = {n: st.lists(_INDEX, min_size=n, max_size=n, unique=True) for n in range(1, 9)}
_MEMBER_COUNTS = {}


def _draw_subs(draw, max_members=20):
    """Sub-indices of a record/array: sub 0 plus 0..19 more, contiguous or sparse."""
    mc = _MEMBER_COUNTS.get(max_members)
    if mc is None:
        few = st.integers(1, min(4, max_members))
        mc = _MEMBER_COUNTS[max_members] = st.one_of(few, few, st.integers(1, max_members))
    n = draw(mc)
    mode = draw(_SMALL[3])
    if mode <= 1 or n == 1:
        return list(range(0, n))
    if mode == 2:
        start = draw(st.integers(1, 0xFE - n + 2))
        return [0] + list(range(start, start + n - 1))
    subs = set()
    while len(subs) < n - 1:
        subs.add(draw(_SUBS))
    return [0] + sorted(subs)


def _draw_object(draw, doc, index, for_export=False, allow_rel=True, quirks=False, max_members=20):
    kind = draw(_KIND)
    o = {"kind": kind, "index": index, "name": draw(NAMES), "sp": draw(_SEED),
         "storage": draw(_STORAGE_OPT)}
    if kind == "var":
        o["var"] = _draw_var(draw, doc, for_export=for_export, allow_rel=allow_rel, name="",
                             real_limits=quirks)
        if o["var"]["dt"] == rc.DOMAIN and draw(_BOOL):
            o["kind"] = "domain"
    elif kind == "domain":
        o["var"] = _draw_var(draw, doc, dt=rc.DOMAIN, for_export=for_export, name="")
    elif kind == "compact":
        dt = draw(_ELEMENTS)
        o["var"] = _draw_var(draw, doc, sub=1, dt=dt, for_export=for_export, allow_rel=allow_rel, name="")
        named = draw(_BOOL)
        if named:
            o["n"] = draw(_N_NAMED)
            o["names"] = [draw(NAMES) for _ in range(o["n"])]
        else:
            o["n"] = draw(_N_UNNAMED)
            o["names"] = None
        o["n_hex"] = bool(quirks and named and draw(_SMALL[15]) == 0)
        o["var"]["value"] = None          # a compact section carries no ParameterValue
        if not named and o["n"] >= 2 and o["var"]["pdo"] == 1:
            # F4 (reported): synthesised elements >= 2 lose PDOMapping; keep the class rare
            if not (quirks and draw(_SMALL[7]) == 0):
                o["var"]["pdo"] = 0
    else:
        subs = _draw_subs(draw, max_members)
        same = draw(_ELEMENTS) if kind == "array" else None
        members = []
        for s in subs:
            if s == 0 and draw(_SMALL[3]) != 0:
                dt = rc.UNSIGNED8
            else:
                dt = same
            members.append(_draw_var(draw, doc, sub=s, dt=dt, for_export=for_export, allow_rel=allow_rel))
        o["members"] = members
    return o


_DOC = st.sampled_from(["eds", "dcf"])
_DUMMIES = st.sets(st.integers(1, 7), max_size=7)
_DEVKEYS = st.sets(st.sampled_from(DEVINFO_STR + DEVINFO_INT + DEVINFO_BOOL), max_size=14)
_GRAN = st.sampled_from([0, 1, 2, 7, 8, 16, 32, 64])
_NPDO = st.sampled_from([0, 1, 2, 4, 8, 64, 512])
_U32 = st.one_of(st.sampled_from([0, 1, 0xFFFFFFFF, 0x12345678]), st.integers(0, 0xFFFFFFFF))
_BAUDSET = st.sets(st.sampled_from(STD_BAUD), max_size=8)
_NLINES = st.integers(0, 4)
_NODE_OPT = st.one_of(st.none(), st.integers(1, 127))
_BAUD_OPT = st.one_of(st.none(), st.sampled_from(STD_BAUD))
_COUNTS = {}


@st.composite
def models(draw, doc=None, for_export=False, quirks=False, max_objects=5, allow_rel=True,
           max_members=20):
    """for_export: the model must also be buildable in code and survive the INI format
    (used by C14); quirks: generate the reported-and-excluded classes F1..F4 at a low rate."""
    if doc is None:
        doc = draw(_DOC)
    cnt = _COUNTS.get(max_objects)
    if cnt is None:
        cnt = _COUNTS[max_objects] = st.integers(1, max_objects)
    n = draw(cnt)
    idx = draw(_INDEX_LISTS[n])
    objs = [_draw_object(draw, doc, i, for_export=for_export, allow_rel=allow_rel, quirks=quirks,
                         max_members=max_members) for i in idx]
    fix_names(objs)
    flags = draw(_FLAGS)
    model = {"doc": doc, "sp": draw(_SEED), "objects": objs,
             "dummies": None, "devinfo": None, "baud": [], "comments": None, "commissioning": None}
    if not for_export and flags & 1:
        model["dummies"] = sorted(draw(_DUMMIES))
    if for_export or flags & 6:
        di = {}
        keys = draw(_DEVKEYS)
        for key in DEVINFO_STR + DEVINFO_INT + DEVINFO_BOOL:        # fixed order
            if key not in keys:
                continue
            if key in DEVINFO_STR:
                di[key] = draw(FREE_TEXT_OR_EMPTY if for_export else FREE_TEXT)
            elif key == "Granularity":
                di[key] = draw(_GRAN)
            elif key in ("NrOfRXPDO", "NrOfTXPDO"):
                di[key] = draw(_NPDO)
            elif key in DEVINFO_INT:
                di[key] = draw(_U32)
            else:
                di[key] = draw(_SMALL[1])
        model["devinfo"] = di
        model["baud"] = sorted(draw(_BAUDSET))
    if for_export or flags & 0x18:
        n_lines = draw(_NLINES)
        lines = [draw(FREE_TEXT_OR_EMPTY) for _ in range(n_lines)]
        while lines and lines[-1] == "" and for_export:
            lines.pop()                      # a trailing empty line is not representable
        model["comments"] = lines
    if doc == "dcf" and (flags & 0x60):
        com = {"node_id": draw(_NODE_OPT), "baudrate": draw(_BAUD_OPT),
               "baud_hex": bool(quirks and (flags & 0xF00) == 0xF00)}
        model["commissioning"] = com
    return model
