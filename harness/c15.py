"""C15 - a PDO value set by the producer is the value the consumer reads.

SUT: PdoMap.on_message/subscribe/transmit/remote_request/wait_for_reception,
PdoBase.__getitem__, PdoMap.__getitem__.  A producing LocalNode and a consuming
RemoteNode (its TPDO maps are what the master receives) on two networks of one
simulated bus, 1..4 maps each, configured directly, from the dictionary or through save(); a third node
takes the configuration from the device and reads every frame through its own mapping.  The sides may take
turns (a map that has received is written and transmitted by its own node).
"""
import os
import sys
import threading
import time

from hypothesis import strategies as st

from harness import c05
from harness import refcodec as rc
from harness.core import Discrepancy, Outcome
from harness.odutil import build_od
from harness.simbus import Frame, Hub

PROPERTY = "C15"
LEVEL = "exploration"
RULE = ("case = 1..4 PDO maps (layouts as in C05: 1..8 objects, any integer type / REAL / BOOLEAN / sub-byte fields at any "
        "offset, plain variables or record members mapped by numeric sub-index 1..254), COB-IDs distinct or colliding "
        "(11-bit up to 0x7FF, 29-bit from 0x800), per map enabled / rtr_allowed flags, the shared configuration applied "
        "directly (+ subscribe()), taken from the dictionary (read(from_od=True)), written to the device with save() after "
        "or INSTEAD of subscribe() and taken from the device by a third node with read(); and a history of ops: "
        "write a typed value on the producer (by position, index, name, through the node-level lookup), "
        "transmit, deliver a raw frame with a generated id, reconfigure a consumer map to another COB-ID "
        "and re-subscribe (subscribe() or save()), reconfigure the producer's COB-ID, add a callback, remote_request (from "
        "the consumer or from a third node that took "
        "the configuration from the device after the consumer's save()), wait_for_reception with a second thread "
        "delivering every 2 ms (or nothing delivered), wait_for_reception of 1..3 reader threads that are all parked when exactly "
        "ONE frame arrives (on a map that never received before, or that did), SCHEDULES of the delivering thread "
        "(op keys sched / sched_at: while it hands a frame to the library it gives up the CPU for 2..25 ms before every "
        "source line of canopen/pdo/* it executes, or before the k-th one, k = 0..23, so that a woken reader runs as "
        "early as the library lets it; sys.settrace in that thread only, the library is not changed), the woken "
        "reader reading map.timestamp and map.data at once, callbacks that block for 5..50 ms, "
        "re-mapping of a PDO (clear() + the same objects in another order "
        "on every node) between variable lookups through every route, and the two sides taking turns: the consumer "
        "writes variables of a map that has received and transmits it, the third node reads. Oracle: per-map reception "
        "model (data, timestamp, callback "
        "counts) + the C05 bit-field model for values, read on the consumer AND on the third node through their own "
        "mappings; transmit = exactly one data frame (COB-ID with the matching frame format, current data); RTR frame "
        "iff enabled and RTR allowed; a parked reader returns the frame's timestamp well before its own time-out "
        "and, once back, reads a timestamp and data of the frame(s) delivered during its wait - under every schedule. "
        "Non-trivial = >= 2 maps and a reception with a non-byte-aligned layout "
        "or a colliding / reconfigured id; distinct = canonical JSON.")
ASSUMPTIONS = [
    "in the threaded wait the feeder re-delivers the same frame every 2 ms until the waiter returns, so the "
    "outcome does not depend on when the waiter really starts to wait",
    "wait_for_reception with nothing delivered uses a 20 ms time-out",
    "single-frame wait: the frame is injected only after all reader threads are seen parked on PdoMap.receive_condition "
    "(len(Condition._waiters), read-only); if that cannot be observed the op falls back to re-delivery every 2 ms. "
    "'Woken' = returned within 2 s of the injection with a 4 s time-out, and the verdict must reproduce on a fresh rig",
    "'a waiting reader' is read as 'every reader that waits': with several reader threads each one must be woken",
    "schedules: a thread switch may happen before any source line of the delivering thread; the harness provokes it "
    "with a per-thread trace function that sleeps (lines of canopen/pdo/* only). What the woken reader returns and "
    "reads must be the delivered frame's timestamp / data whatever the schedule; the sleep length is not an oracle "
    "input (a reader that does not get to run during the sleep only makes the case weaker, never alarming)",
    "a sender does not hear its own frames (simulated bus = python-can default)",
    "excluded (counted): a write on a consumer map that received its current buffer together with another map of the "
    "same node (colliding COB-IDs) - the unchanged library lets both maps share one bytearray; and a frame on the "
    "COB-ID of a map that was subscribed under that id formerly but has been subscribed under another id since "
    "(whether the former registration survives is not stated)",
]
BUDGET = {"quick": 150, "thorough": 400}
NODE = 6


SINGLE_T = 4.0          # time-out of reader threads that are parked when exactly one frame arrives
SUBS = [1, 2, 127, 128, 254]


_PDO_DIR = os.sep + os.path.join("canopen", "pdo") + os.sep


class yielding:
    """Schedule of the delivering thread: while a frame is handed to the library by the thread that enters this
    context, that thread gives up the CPU for `ms` milliseconds before every source line of the library's PDO code
    (canopen/pdo/*) that it executes - or only before the `at`-th one.  Every other thread (a reader that has been
    woken, for instance) gets to run at each of these points, as it may under any scheduler.  Nothing is changed in
    the library; sys.settrace is per thread and restored on exit."""

    def __init__(self, ms, at=None):
        self.ms, self.at, self.n = ms, at, 0

    def _local(self, frame, event, arg):
        if event == "line":
            i, self.n = self.n, self.n + 1
            if self.at is None or self.at == i:
                time.sleep(self.ms / 1000.0)
        return self._local

    def _global(self, frame, event, arg):
        if event == "call" and _PDO_DIR in frame.f_code.co_filename:
            return self._local
        return None

    def __enter__(self):
        self.old = sys.gettrace()
        if self.ms:
            sys.settrace(self._global)
        return self

    def __exit__(self, *exc):
        if self.ms:
            sys.settrace(self.old)
        return False


def obj_index(m, j):
    return 0x2000 + 16 * m + j


def obj_name(m, j, e):
    """Name under which the mapped variable is found: a record member is 'record.member'."""
    return f"m{m}f{j}.x" if e.get("sub") else f"m{m}f{j}"


def od_spec(maps):
    spec = []
    for m, mp in enumerate(maps):
        raw_cob = mp["cob"] | (0 if mp.get("enabled", True) else 1 << 31) | (0 if mp.get("rtr", True) else 1 << 30)
        spec.append({"kind": "record", "index": 0x1800 + m, "name": f"TPDO {m} comm", "members": [
            {"sub": 0, "name": "n", "dt": rc.UNSIGNED8}, {"sub": 1, "name": "cob", "dt": rc.UNSIGNED32,
                                                        "default": raw_cob},
            {"sub": 2, "name": "type", "dt": rc.UNSIGNED8, "default": 1}]})
        spec.append({"kind": "array", "index": 0x1A00 + m, "name": f"TPDO {m} map", "members": [
            {"sub": 0, "name": "n", "dt": rc.UNSIGNED8, "default": len(mp["layout"])}] + [
            {"sub": j + 1, "name": f"e{j + 1}", "dt": rc.UNSIGNED32,
             "default": (obj_index(m, j) << 16) | (e.get("sub", 0) << 8) | e["len"]}
            for j, e in enumerate(mp["layout"])]})
        for j, e in enumerate(mp["layout"]):
            if e.get("sub"):
                # member `sub` of a record, mapped by its numeric sub-index (as in C05)
                spec.append({"kind": "record", "index": obj_index(m, j), "name": f"m{m}f{j}", "members": [
                    {"sub": 0, "name": "n", "dt": rc.UNSIGNED8},
                    {"sub": e["sub"], "name": "x", "dt": e["dt"], "pdo": True}]})
            else:
                spec.append({"kind": "var", "index": obj_index(m, j), "name": f"m{m}f{j}", "dt": e["dt"], "pdo": True})
    return spec


def add_entry(pm, m, j, e):
    return pm.add_variable(obj_index(m, j), e.get("sub", 0), None if e["len"] == rc.width(e["dt"]) else e["len"])


def setup_maps(node, maps, consumer, from_od=False):
    out = []
    for m, mp in enumerate(maps):
        pm = node.tpdo[m + 1]
        if from_od:
            # the shared configuration is taken from the dictionary (this also subscribes)
            pm.read(from_od=True)
            out.append(pm)
            continue
        pm.cob_id = mp["cob"]
        pm.enabled = mp.get("enabled", True)
        pm.rtr_allowed = mp.get("rtr", True)
        for j, e in enumerate(mp["layout"]):
            add_entry(pm, m, j, e)
        if consumer:
            pm.subscribe()
        out.append(pm)
    return out


def lookup(node, pm, m, j, via, pos=None, e=None):
    """Variable of object j of map m; `pos` is its current position in the mapping (j unless re-mapped)."""
    index = obj_index(m, j)
    pos = j if pos is None else pos
    if via == "pos":
        return pm[pos]
    if via == "index":
        return pm[index]
    if via == "name":
        return pm[obj_name(m, j, e or {})]
    if via == "node_name":
        return node.tpdo[obj_name(m, j, e or {})]
    return node.tpdo[m + 1][pos]


FORMER_ID_EXCLUDED = ("frame on the COB-ID of a map that was subscribed under that id formerly and under another id since "
                      "(not stated whether the former registration survives)")
TIMING_ONLY = ("C15/wait/not-woken-in-time",)


def run_case(case) -> Outcome:
    out = _run_case(case)
    if out.discrepancies and out.discrepancies[0].signature in TIMING_ONLY:
        # the only evidence is elapsed time: it has to reproduce on a fresh rig
        out = _run_case(case)
    return out


def _run_case(case) -> Outcome:
    import canopen
    maps = case["maps"]
    config = case.get("config", "direct")
    for mp in maps:
        if not 1 <= len(mp["layout"]) <= 8 or sum(e["len"] for e in mp["layout"]) > 64:
            raise ValueError("generator error: a mapping has 1..8 objects and at most 64 bits")
    hub = Hub()
    net_p, port_p = hub.attach("producer")
    net_c, port_c = hub.attach("consumer")
    spec = od_spec(maps)
    prod = canopen.LocalNode(NODE, build_od(spec))
    net_p.add_node(prod)
    cons = canopen.RemoteNode(NODE, build_od(spec))
    net_c.add_node(cons)
    pmaps = setup_maps(prod, maps, consumer=False)
    # config "save": the consumer never calls subscribe() itself - save() below is documented to register the map
    cmaps = setup_maps(cons, maps, consumer=config != "save", from_od=config == "from_od")
    # a third, passive node with the same configuration on its own network: it hears everything the
    # other two put on the bus (data frames and remote requests) through the library's own listener
    net_m, port_m = hub.attach("monitor")
    mon = canopen.RemoteNode(NODE, build_od(spec))
    net_m.add_node(mon)
    if config in ("sdo", "save"):
        # the consumer writes its configuration to the device with save(); the third node takes it
        # from the device with read() - the usual way two masters come to share a configuration
        for cm in cmaps:
            cm.save()
        mmaps = []
        for m in range(len(maps)):
            mm = mon.tpdo[m + 1]
            mm.read()
            mmaps.append(mm)
    else:
        mmaps = setup_maps(mon, maps, consumer=True)
    for prt in (port_p, port_c, port_m):
        prt.via_listener = True
    D = []
    EX = []

    def bad(kind, detail):
        D.append(Discrepancy(f"C15/{kind}", detail))

    # model
    nbytes = [(sum(e["len"] for e in mp["layout"]) + 7) // 8 for mp in maps]
    pF = [0] * len(maps)                       # producer frames as integers
    offs = []
    for mp in maps:
        o, lst = 0, []
        for e in mp["layout"]:
            lst.append(o)
            o += e["len"]
        offs.append(lst)
    order = [list(range(len(mp["layout"]))) for mp in maps]      # object ids in mapping order (remap op)
    p_cob = [mp["cob"] for mp in maps]
    c_cob = [mp["cob"] for mp in maps]
    c_subscribed = [({mp["cob"]} if mp.get("enabled", True) else set()) for mp in maps]
    c_last = [(mp["cob"] if mp.get("enabled", True) else None) for mp in maps]   # id of the latest subscription
    c_data = [None] * len(maps)                # None: content not stated by the property (never received / after save())
    c_ts = [None] * len(maps)
    c_buf = [None] * len(maps)                 # number of the reception that filled the buffer
    rx_no = [0]
    m_data = [None] * len(maps)
    m_ts = [None] * len(maps)
    cb_log = []
    cb_expected = []
    callbacks = [[] for _ in maps]
    feats = set()
    if any(e.get("sub") for mp in maps for e in mp["layout"]):
        feats.add("members")
    if config == "save":
        feats.add("save-subscribes")

    def mk_cb(m, k, slow=0):
        def cb(pm):
            cb_log.append((m, k, pm is cmaps[m]))
            if slow:
                # user code that blocks for a moment (I/O, logging): the receiving thread gives up the CPU here
                time.sleep(slow / 1000.0)
        return cb

    def former_id(m):
        """Map m sits on an id it was subscribed under earlier, but its latest subscription was for another id."""
        return c_cob[m] in c_subscribed[m] and c_last[m] != c_cob[m]

    def expect_receive(can_id, data, ts, src=None):
        for m in range(len(maps)):
            if can_id == maps[m]["cob"] and maps[m].get("enabled", True):
                m_data[m] = bytes(data)
                m_ts[m] = ts
        if src == "cons":
            return                             # a sender does not hear itself
        rx_no[0] += 1
        for m in range(len(maps)):
            if can_id == c_cob[m] and can_id in c_subscribed[m]:
                if former_id(m):
                    EX.append(FORMER_ID_EXCLUDED)
                c_data[m] = bytes(data)
                c_ts[m] = ts
                c_buf[m] = rx_no[0]
                for k in callbacks[m]:
                    cb_expected.append((m, k, True))
                if sum(1 for x in range(len(maps)) if c_cob[x] == can_id and can_id in c_subscribed[x]) > 1:
                    feats.add("colliding")
                if any(e["len"] % 8 or o % 8 for e, o in zip(maps[m]["layout"], offs[m])):
                    feats.add("bitfield-reception")

    def compare(tag):
        if EX:
            return
        for m in range(len(maps)):
            got = bytes(cmaps[m].data) if c_data[m] is not None else None
            if c_data[m] is not None and got != c_data[m]:
                bad("consumer-data", f"{tag}: consumer map {m} (cob {c_cob[m]:#x}) holds {got.hex()} model "
                                     f"{c_data[m].hex()}")
                return
            if c_ts[m] is None and cmaps[m].timestamp is not None:
                bad("unsubscribed-map-updated", f"{tag}: consumer map {m} (cob {c_cob[m]:#x}) received "
                                                f"{bytes(cmaps[m].data).hex()} although no frame was for it")
                return
            if cmaps[m].timestamp != c_ts[m]:
                bad("timestamp", f"{tag}: consumer map {m} timestamp {cmaps[m].timestamp} model {c_ts[m]}")
                return
        for m in range(len(maps)):
            got = bytes(mmaps[m].data) if m_data[m] is not None else None
            if (m_data[m] is not None and got != m_data[m]) or mmaps[m].timestamp != m_ts[m]:
                bad("monitor-node", f"{tag}: passive node, map {m} (cob {maps[m]['cob']:#x}) holds "
                                    f"{bytes(mmaps[m].data).hex()} @ {mmaps[m].timestamp}, model "
                                    f"{m_data[m].hex() if m_data[m] is not None else None} @ {m_ts[m]}")
                return
        # per map: every callback once per reception (neither the order in which different maps that share a
        # COB-ID are served nor the order of one map's callbacks is part of the property)
        for m in range(len(maps)):
            got_m = sorted(e for e in cb_log if e[0] == m)
            want_m = sorted(e for e in cb_expected if e[0] == m)
            if got_m != want_m:
                bad("callbacks", f"{tag}: callbacks of map {m}: log {got_m[-6:]} model {want_m[-6:]}")
                return

    def check_values(side, node, nmaps, data, src_m, want, via, tag):
        """Typed values on a receiving node, through its own mapping and lookup path: every map that holds the
        frame and has the sender's layout reads what the frame holds."""
        if D or EX:
            return
        F = int.from_bytes(want, "little")
        src_layout = [maps[src_m]["layout"][x] for x in order[src_m]]
        for cm in range(len(maps)):
            if data[cm] is None or data[cm] != want or len(want) != nbytes[cm] or \
                    [maps[cm]["layout"][x] for x in order[cm]] != src_layout:
                continue
            for j, e in enumerate(maps[cm]["layout"]):
                wantv = c05.field_value(e["dt"], e["len"], F, offs[cm][j])
                what = (f"{tag}: {side} map {cm} object {j} ({rc.NAMES[e['dt']]} len {e['len']} at bit {offs[cm][j]}"
                        f"{', member %d' % e['sub'] if e.get('sub') else ''}) via {via}")
                try:
                    gotv = lookup(node, nmaps[cm], cm, j, via, order[cm].index(j), e).raw
                except Exception as ex:
                    bad(f"{side}-value/raises", f"{what}: {type(ex).__name__}: {ex}")
                    return
                if not c05.same(e["dt"], gotv, wantv):
                    bad(f"{side}-value", f"{what} reads {gotv!r}, the frame {want.hex()} holds {wantv!r}")
                    return

    def data_frame_ok(new, cob, want):
        return (len(new) == 1 and new[0].can_id == cob and new[0].data == want and not new[0].remote
                and new[0].extended == (cob > 0x7FF))

    for n, op in enumerate(case["ops"]):
        kind = op["op"]
        m = op.get("m", 0) % len(maps)
        tag = f"step {n} {kind} map {m}"
        try:
            if kind == "write":
                j = op["j"] % len(maps[m]["layout"])
                e = maps[m]["layout"][j]
                var = lookup(prod, pmaps[m], m, j, op.get("via", "pos"), order[m].index(j), e)
                var.raw = op["v"]
                mask = (1 << e["len"]) - 1
                pF[m] = (pF[m] & ~(mask << offs[m][j])) | (c05.enc_bits(e["dt"], e["len"], op["v"]) << offs[m][j])
                want = pF[m].to_bytes(nbytes[m], "little")
                if bytes(pmaps[m].data) != want:
                    bad("producer-data", f"{tag}: producer frame {bytes(pmaps[m].data).hex()} model {want.hex()}")
            elif kind == "transmit":
                mark = len(port_p.sent)
                pmaps[m].transmit()
                new = port_p.sent[mark:]
                want = pF[m].to_bytes(nbytes[m], "little")
                if not new and not maps[m].get("enabled", True):
                    # a PDO that is not valid does not exist on the bus (CiA 301): sending nothing is accepted too
                    feats.add("disabled-not-sent")
                    compare(tag)
                elif not data_frame_ok(new, p_cob[m], want):
                    bad("transmit-frame", f"{tag}: sent {new} want {p_cob[m]:X}#{want.hex()}"
                                          f"{'x' if p_cob[m] > 0x7FF else ''}")
                else:
                    expect_receive(p_cob[m], want, new[0].ts)
                    compare(tag)
                    # typed values on the consumer side and on the third node, through their own lookup paths
                    check_values("consumer", cons, cmaps, c_data, m, want, op.get("via", "pos"), tag)
                    check_values("monitor", mon, mmaps, m_data, m, want, op.get("via", "pos"), tag)
            elif kind == "cwrite":
                # the two sides take turns: the consuming node writes a variable of its own map object
                j = op["j"] % len(maps[m]["layout"])
                e = maps[m]["layout"][j]
                if True:
                    # maps sharing a COB-ID each hold their own copy of a received frame (F32): a write on
                    # one of them leaves the other maps' values alone - compare() below looks at all maps
                    if c_buf[m] is not None and any(c_buf[x] == c_buf[m] for x in range(len(maps)) if x != m):
                        feats.add("cwrite-on-colliding-map")
                    base = c_data[m] if c_data[m] is not None else bytes(cmaps[m].data)
                    if len(base) != nbytes[m]:
                        # the buffer holds a frame of another map's layout (colliding ids, different mappings):
                        # not a frame of this mapping, nothing to write into
                        feats.add("cwrite-skipped")
                    else:
                        var = lookup(cons, cmaps[m], m, j, op.get("via", "pos"), order[m].index(j), e)
                        var.raw = op["v"]
                        mask = (1 << e["len"]) - 1
                        F = (int.from_bytes(base, "little") & ~(mask << offs[m][j])) | \
                            (c05.enc_bits(e["dt"], e["len"], op["v"]) << offs[m][j])
                        c_data[m] = F.to_bytes(nbytes[m], "little")
                        feats.add("turn-taking" if c_ts[m] is not None else "consumer-writes")
                        compare(tag)
            elif kind == "ctransmit":
                cur = c_data[m] if c_data[m] is not None else bytes(cmaps[m].data)
                mark = len(port_c.sent)
                cmaps[m].transmit()
                new = port_c.sent[mark:]
                if not new and not maps[m].get("enabled", True):
                    feats.add("disabled-not-sent")
                    compare(tag)
                elif not data_frame_ok(new, c_cob[m], cur):
                    bad("transmit-frame", f"{tag}: consumer node sent {new} want {c_cob[m]:X}#{cur.hex()}"
                                          f"{'x' if c_cob[m] > 0x7FF else ''}")
                else:
                    expect_receive(c_cob[m], cur, new[0].ts, src="cons")
                    compare(tag)
                    check_values("monitor", mon, mmaps, m_data, m, cur, op.get("via", "pos"), tag)
            elif kind == "raw":
                fr = Frame(op["id"], bytes(op["data"]), ts=hub.now())
                hub.inject(fr)
                expect_receive(op["id"], bytes(op["data"]), fr.ts)
                compare(tag)
            elif kind == "reconfigure":
                c_cob[m] = op["cob"]
                cmaps[m].cob_id = op["cob"]
                how = op.get("how", "subscribe") if op.get("resubscribe", True) else "none"
                if how == "save":
                    # the new COB-ID is written to the device; save() is documented to register the map
                    cmaps[m].save()
                    c_data[m] = None           # what the frame buffer holds after save() is not stated
                    feats.add("reconfigured-by-save")
                elif how == "subscribe":
                    cmaps[m].subscribe()
                if how != "none" and cmaps[m].enabled:
                    c_subscribed[m].add(op["cob"])
                    c_last[m] = op["cob"]
                feats.add("reconfigured")
                compare(tag)
            elif kind == "pcob":
                # the producer's map moves to another COB-ID
                p_cob[m] = op["cob"]
                pmaps[m].cob_id = op["cob"]
                feats.add("producer-reconfigured")
            elif kind == "remap":
                # the application re-maps the PDO on every node that shares the configuration: clear(), then
                # the same objects in another order (doc/pdo: "tpdo[n].clear(); add_variable(...)")
                k = op.get("rot", 1) % len(order[m])
                order[m] = order[m][k:] + order[m][:k]
                for pm in (pmaps[m], cmaps[m], mmaps[m]):
                    pm.clear()
                    for j in order[m]:
                        add_entry(pm, m, j, maps[m]["layout"][j])
                o = 0
                for j in order[m]:
                    offs[m][j] = o
                    o += maps[m]["layout"][j]["len"]
                # add_variable() sizes the frame anew and zeroes it
                pF[m] = 0
                if c_data[m] is not None:
                    c_data[m] = bytes(nbytes[m])
                c_buf[m] = None
                if m_data[m] is not None:
                    m_data[m] = bytes(nbytes[m])
                feats.add("remapped")
                compare(tag)
            elif kind == "startstop":
                # a map that was transmitting periodically for a while and has been stopped again
                # receives like any other
                cmaps[m].start(op.get("p", 0.5))
                cmaps[m].stop()
                feats.add("restarted")
            elif kind == "callback":
                k = len(callbacks[m])
                callbacks[m].append(k)
                cmaps[m].add_callback(mk_cb(m, k, op.get("slow", 0)))
                if op.get("slow"):
                    feats.add("slow-callback")
            elif kind == "rtr":
                by_mon = op.get("who") == "mon"
                rport, rmap = (port_m, mmaps[m]) if by_mon else (port_c, cmaps[m])
                rcob = maps[m]["cob"] if by_mon else c_cob[m]
                mark = len(rport.sent)
                rmap.remote_request()
                new = rport.sent[mark:]
                should = (maps[m].get("enabled", True) if by_mon else cmaps[m].enabled) and maps[m].get("rtr", True)
                if should:
                    if len(new) != 1 or not new[0].remote or new[0].data != b"" or new[0].can_id != rcob or \
                            new[0].extended != (rcob > 0x7FF):
                        bad("rtr/frame", f"{tag}: enabled and RTR allowed, COB-ID {rcob:#x}, frames sent: {new}")
                elif new:
                    bad("rtr/sent-although-not-allowed", f"{tag}: enabled={cmaps[m].enabled} "
                        f"rtr_allowed={maps[m].get('rtr', True)} but sent {new}")
                feats.add("rtr")
                compare(tag)
            elif kind == "wait" and former_id(m):
                EX.append(FORMER_ID_EXCLUDED)
            elif kind == "wait" and op.get("mode") == "single":
                # 1..3 reader threads are parked in wait_for_reception when exactly ONE frame arrives
                nw = max(1, min(3, op.get("waiters", 1)))
                feats.add("wait-single" if c_ts[m] is not None else "wait-single-first-frame")
                if nw > 1:
                    feats.add("several-readers")
                data = bytes(op["data"])[:8]
                ids_ok = c_cob[m] in c_subscribed[m]
                tmo = SINGLE_T if ids_ok else 0.05
                cond = getattr(cmaps[m], "receive_condition", None)
                res = [None] * nw

                sched = yielding(op.get("sched", 0), op.get("sched_at"))
                if sched.ms:
                    feats.add("wait-yielding-delivery")
                seen = [None] * nw

                def reader(i):
                    try:
                        r = cmaps[m].wait_for_reception(tmo)
                        t_ret = time.monotonic()
                        # what the woken reader finds on the map at once
                        seen[i] = (cmaps[m].timestamp, bytes(cmaps[m].data))
                        res[i] = (True, r, t_ret)
                    except Exception as ex:          # judged below
                        res[i] = (False, ex, time.monotonic())

                def parked():
                    w = getattr(cond, "_waiters", None)
                    return w is not None and len(w) >= nw

                ths = [threading.Thread(target=reader, args=(i,), daemon=True) for i in range(nw)]
                for th in ths:
                    th.start()
                limit = time.monotonic() + (5.0 if ids_ok else 0.03)
                while not parked() and time.monotonic() < limit and all(th.is_alive() for th in ths):
                    time.sleep(0.0005)
                sure = parked()
                stamps = []
                fr = Frame(c_cob[m], data, ts=hub.now())
                stamps.append(fr.ts)
                with sched:
                    hub.inject(fr)
                t_inj = time.monotonic()
                while ids_ok and not sure and any(th.is_alive() for th in ths):
                    # the readers could not be seen parked: re-deliver until they are through (as in the other mode)
                    time.sleep(0.002)
                    fr = Frame(c_cob[m], data, ts=hub.now())
                    stamps.append(fr.ts)
                    with sched:
                        hub.inject(fr)
                for th in ths:
                    th.join(tmo + 10)
                if any(th.is_alive() for th in ths):
                    bad("wait/never-returned", f"{tag}: wait_for_reception({tmo}) still blocks {tmo + 10} s later")
                    break
                for i, (ok, r, t_ret) in enumerate(res):
                    who = f"reader {i + 1} of {nw}"
                    if not ok:
                        bad("wait/raises", f"{tag}: {who}: {type(r).__name__}: {r}")
                    elif not ids_ok:
                        if r is not None:
                            bad("wait/woken-by-foreign-frame", f"{tag}: {who} returned {r!r}")
                    elif (r is None or r not in stamps) and seen[i] and seen[i][1] == data and c_data[m] != data and \
                            bytes(nbytes[m]) != data:
                        # the reader did come back holding this frame's data (which the map did not hold before),
                        # but not with this frame's timestamp
                        bad("wait/woken-without-frame-timestamp",
                            f"{tag}: {who} was parked when the frame {data.hex()} @ {stamps[0]} arrived and finds that "
                            f"data on the map, but wait_for_reception returned {r!r} and map.timestamp read "
                            f"{seen[i][0]!r} (the map's previous timestamp: {c_ts[m]!r})")
                    elif r is None or r not in stamps:
                        bad("wait/not-woken", f"{tag}: {who} was parked when the frame @ {stamps[0]} arrived, "
                                              f"returned {r!r}")
                    elif seen[i][0] not in stamps or seen[i][1] != data:
                        # "read identically ... together with the frame's timestamp": the only frames that reached
                        # this map since the reader went to wait are `stamps`, all carrying `data`
                        bad("wait/woken-reader-reads-stale", f"{tag}: {who} returned {r!r} and then read map.timestamp "
                            f"{seen[i][0]!r}, data {seen[i][1].hex()}; the frame is {data.hex()} @ {stamps}")
                    elif sure and t_ret - t_inj > SINGLE_T / 2:
                        bad("wait/not-woken-in-time", f"{tag}: {who} was parked when the only frame arrived but returned "
                            f"{t_ret - t_inj:.1f} s later (its own time-out is {SINGLE_T} s): not woken by the frame")
                    if D:
                        break
                for ts in stamps:
                    expect_receive(c_cob[m], data, ts)
                if not D:
                    compare(tag)
            elif kind == "wait":
                feats.add("wait")
                if op.get("deliver"):
                    data = bytes(op["data"])[:8]
                    ids_ok = c_cob[m] in c_subscribed[m]
                    started = threading.Event()
                    done = threading.Event()
                    stamps = []

                    sched = yielding(op.get("sched", 0), op.get("sched_at"))
                    if sched.ms:
                        feats.add("wait-yielding-delivery")

                    def feeder():
                        started.wait(5)
                        while not done.is_set():
                            fr = Frame(c_cob[m], data, ts=hub.now())
                            stamps.append(fr.ts)
                            with sched:
                                hub.inject(fr)
                            time.sleep(0.002)

                    th = threading.Thread(target=feeder, daemon=True)
                    th.start()
                    started.set()
                    t0 = time.monotonic()
                    r = cmaps[m].wait_for_reception(6.0 if ids_ok else 0.02)
                    took = time.monotonic() - t0
                    if ids_ok and took > 3.0:
                        # frames arrive every 2 ms; give a starved machine one more chance
                        t0 = time.monotonic()
                        r = cmaps[m].wait_for_reception(6.0)
                        took = min(took, time.monotonic() - t0)
                    done.set()
                    th.join(5)
                    if ids_ok:
                        if r is not None and r not in stamps and r == c_ts[m]:
                            bad("wait/woken-without-frame-timestamp",
                                f"{tag}: frames {data.hex()} @ {stamps[:3]}.. were delivered during the wait; "
                                f"wait_for_reception returned {r!r}, the timestamp of the frame BEFORE the wait")
                        elif r is None or r not in stamps:
                            bad("wait/not-woken", f"{tag}: frames were delivered during the wait, returned {r!r}")
                        elif took > 3.0:
                            bad("wait/not-woken", f"{tag}: frames arrived every 2 ms but the waiter only "
                                                  f"returned after {took:.1f} s (its own time-out)")
                        # every delivery went through on_message: replay them in the model
                    elif r is not None:
                        bad("wait/woken-by-foreign-frame", f"{tag}: returned {r!r}")
                    for ts in stamps:
                        expect_receive(c_cob[m], data, ts)
                    if not D:
                        compare(tag)
                else:
                    r = cmaps[m].wait_for_reception(0.02)
                    if r is not None:
                        bad("wait/returned-without-frame", f"{tag}: returned {r!r} although nothing was delivered")
            else:
                raise ValueError(kind)
        except ValueError as ex:
            if str(ex) == kind:
                raise
            bad(f"{kind}/raises", f"{tag}: {type(ex).__name__}: {ex}")
        except Exception as ex:
            bad(f"{kind}/raises", f"{tag}: {type(ex).__name__}: {ex}")
        if D:
            break
        if EX:
            return Outcome(excluded=EX[0])
    for (fr, e) in port_c.notify_errors + port_p.notify_errors:
        if not D:
            bad("notify-raises", f"Network.notify raised {type(e).__name__}: {e} for {fr}")
    nontrivial = len(maps) >= 2 and bool(feats & {"bitfield-reception", "colliding", "reconfigured", "remapped"})
    return Outcome(nontrivial, f"maps{len(maps)}/" + "+".join(sorted(feats)) if feats else f"maps{len(maps)}/plain", D)


# ---- generation ----------------------------------------------------------------
@st.composite
def layout_strategy(draw):
    layout = []
    remaining = 64
    for _ in range(draw(st.sampled_from([1, 2, 3, 4, 5, 6, 7, 8, 8]))):
        opts = [(dt, rc.width(dt)) for dt in c05.FULL if rc.width(dt) <= remaining]
        if remaining >= 1:
            opts += [(rc.BOOLEAN, 1), (rc.INTEGER8, None), (rc.UNSIGNED8, None)]
        if remaining >= 8:
            opts.append((rc.BOOLEAN, 8))
        if not opts:
            break
        dt, ln = draw(st.sampled_from(opts))
        if ln is None:
            ln = draw(st.integers(1, min(8, remaining)))
        layout.append({"dt": dt, "len": ln})
        if draw(st.integers(0, 3)) == 0:
            # member of a record, mapped by its numeric sub-index (C05's domain)
            layout[-1]["sub"] = draw(st.sampled_from(SUBS))
        remaining -= ln
    return layout


def value_for(draw, e):
    dt, ln = e["dt"], e["len"]
    if dt == rc.BOOLEAN:
        return draw(st.booleans())
    if dt in rc.SIGNED:
        lo, hi = -(1 << (ln - 1)), (1 << (ln - 1)) - 1
        return draw(st.one_of(st.sampled_from([lo, -1, 0, hi]), st.integers(lo, hi)))
    if dt in rc.UNSIGNED:
        return draw(st.one_of(st.sampled_from([0, (1 << ln) - 1]), st.integers(0, (1 << ln) - 1)))
    if dt == rc.REAL32:
        return draw(st.floats(width=32, allow_nan=False))
    return draw(st.floats(allow_nan=False))


COBS = [0x180 + NODE, 0x280 + NODE, 0x380 + NODE, 0x185, 0x7FF, 0x1FF, 0x12345678, 0x800]
VIAS = ["pos", "index", "name", "node_name", "node_map"]


@st.composite
def case_strategy(draw):
    nmaps = draw(st.integers(1, 4))
    share_layout = draw(st.booleans())
    base = draw(layout_strategy())
    maps = []
    for m in range(nmaps):
        maps.append({"cob": draw(st.sampled_from(COBS)), "layout": base if share_layout else draw(layout_strategy()),
                     "enabled": draw(st.integers(0, 5)) != 0, "rtr": draw(st.booleans())})
    ops = []
    for _ in range(draw(st.integers(1, 16))):
        kind = draw(st.sampled_from(["write", "write", "transmit", "transmit", "raw", "reconfigure", "callback",
                                     "rtr", "wait", "startstop", "remap", "cwrite", "ctransmit", "pcob"]))
        m = draw(st.integers(0, nmaps - 1))
        if kind in ("write", "cwrite"):
            j = draw(st.integers(0, len(maps[m]["layout"]) - 1))
            ops.append({"op": kind, "m": m, "j": j, "v": value_for(draw, maps[m]["layout"][j]),
                        "via": draw(st.sampled_from(VIAS))})
        elif kind in ("transmit", "ctransmit"):
            ops.append({"op": kind, "m": m, "via": draw(st.sampled_from(VIAS))})
        elif kind == "raw":
            ops.append({"op": "raw", "id": draw(st.sampled_from(COBS + [0x80 + NODE, 0x700 + NODE, 0x181])),
                        "data": draw(st.binary(min_size=8, max_size=8))})
        elif kind == "reconfigure":
            ops.append({"op": "reconfigure", "m": m, "cob": draw(st.sampled_from(COBS)),
                        "resubscribe": draw(st.integers(0, 4)) != 0,
                        "how": draw(st.sampled_from(["subscribe", "subscribe", "save"]))})
        elif kind == "pcob":
            ops.append({"op": "pcob", "m": m, "cob": draw(st.sampled_from(COBS))})
        elif kind == "wait":
            if draw(st.integers(0, 2)) == 0:
                ops.append({"op": "wait", "m": m, "mode": "single", "waiters": draw(st.sampled_from([1, 1, 2, 3])),
                            "data": draw(st.binary(min_size=8, max_size=8))})
            else:
                ops.append({"op": "wait", "m": m, "deliver": draw(st.booleans()),
                            "data": draw(st.binary(min_size=8, max_size=8))})
            if ops[-1].get("deliver", True) and draw(st.integers(0, 3)) == 0:
                # schedule: the delivering thread gives up the CPU inside the library's reception code
                ops[-1]["sched"] = draw(st.sampled_from([2, 5]))
                if draw(st.booleans()):
                    ops[-1]["sched_at"] = draw(st.integers(0, 23))
        elif kind == "remap":
            ops.append({"op": "remap", "m": m, "rot": draw(st.integers(0, 7))})
        elif kind == "rtr":
            ops.append({"op": "rtr", "m": m, "who": draw(st.sampled_from(["cons", "cons", "mon"]))})
        elif kind == "callback" and draw(st.integers(0, 3)) == 0:
            ops.append({"op": "callback", "m": m, "slow": draw(st.sampled_from([5, 10, 20]))})
        else:
            ops.append({"op": kind, "m": m})
    return {"maps": maps, "ops": ops, "config": draw(st.sampled_from(["direct", "direct", "from_od", "sdo", "save"]))}


CONFIGS = ("direct", "from_od", "sdo", "save")


def enum_cases(thorough=False):
    """The four (enabled, rtr_allowed) combinations, and the swap of two maps' COB-IDs."""
    lay = [{"dt": rc.UNSIGNED8, "len": 3}, {"dt": rc.INTEGER8, "len": 5}, {"dt": rc.INTEGER16, "len": 16},
           {"dt": rc.BOOLEAN, "len": 1}, {"dt": rc.REAL32, "len": 32}]
    for en in (True, False):
        for rtr in (True, False):
          for config in CONFIGS:
            yield {"maps": [{"cob": 0x186, "layout": lay, "enabled": en, "rtr": rtr},
                            {"cob": 0x286, "layout": lay, "enabled": True, "rtr": True}],
                   "config": config,
                   "ops": [{"op": "rtr", "m": 0}, {"op": "rtr", "m": 1},
                           {"op": "rtr", "m": 0, "who": "mon"}, {"op": "rtr", "m": 1, "who": "mon"},
                           {"op": "write", "m": 0, "j": 1, "v": -16, "via": "name"}, {"op": "transmit", "m": 0},
                           {"op": "rtr", "m": 0}]}
    yield {"maps": [{"cob": 0x186, "layout": lay}, {"cob": 0x286, "layout": lay}],
           "ops": [{"op": "startstop", "m": 0},
                   {"op": "callback", "m": 0}, {"op": "callback", "m": 1}, {"op": "callback", "m": 0},
                   {"op": "write", "m": 0, "j": 2, "v": -32768}, {"op": "transmit", "m": 0},
                   {"op": "reconfigure", "m": 0, "cob": 0x286}, {"op": "reconfigure", "m": 1, "cob": 0x186},
                   {"op": "write", "m": 1, "j": 0, "v": 5}, {"op": "transmit", "m": 0}, {"op": "transmit", "m": 1},
                   {"op": "raw", "id": 0x186, "data": b"\x11\x22\x33\x44\x55\x66\x77\x88"},
                   {"op": "wait", "m": 0, "deliver": True, "data": b"\x01\x02\x03\x04\x05\x06\x07\x08"},
                   {"op": "wait", "m": 1, "deliver": False, "data": b""}]}
    # the same objects re-mapped in another order on all three nodes, variables looked up through every route
    # before and after
    for via in VIAS:
        for rot in (1, 2, 4):
            w = [{"op": "write", "m": 0, "j": j, "v": v, "via": via} for j, v in ((0, 5), (1, -16), (2, -32768), (3, True))]
            yield {"maps": [{"cob": 0x186, "layout": lay}, {"cob": 0x286, "layout": lay}],
                   "ops": w + [{"op": "transmit", "m": 0, "via": via}, {"op": "remap", "m": 0, "rot": rot}] + w +
                          [{"op": "transmit", "m": 0, "via": via}, {"op": "remap", "m": 0, "rot": 1}] + w[::-1] +
                          [{"op": "transmit", "m": 0, "via": via}]}
    # a waiting reader and a callback that blocks for a moment
    for slow in (5, 20, 50):
        for ncb in (1, 2):
            yield {"maps": [{"cob": 0x186, "layout": lay}, {"cob": 0x286, "layout": lay}],
                   "ops": [{"op": "callback", "m": 0, "slow": slow}] * ncb +
                          [{"op": "wait", "m": 0, "deliver": True, "data": b"\x01\x02\x03\x04\x05\x06\x07\x08"},
                           {"op": "write", "m": 0, "j": 2, "v": 77}, {"op": "transmit", "m": 0},
                           {"op": "wait", "m": 0, "deliver": True, "data": b"\xff" * 8},
                           {"op": "wait", "m": 1, "deliver": False, "data": b""}]}
    two = [{"cob": 0x186, "layout": lay}, {"cob": 0x286, "layout": lay}]
    # "Transmission sends exactly the map's COB-ID": the largest 11-bit id, the smallest and a large 29-bit id,
    # as data frame and as remote request (from the consumer and from the third node)
    for cob in (0x7FF, 0x800, 0x7FE, 0x1FFFFFFF, 0x12345678):
        yield {"maps": [{"cob": cob, "layout": lay}, {"cob": 0x286, "layout": lay}], "config": "direct",
               "ops": [{"op": "write", "m": 0, "j": 2, "v": 1234}, {"op": "transmit", "m": 0}, {"op": "rtr", "m": 0},
                       {"op": "rtr", "m": 0, "who": "mon"}, {"op": "pcob", "m": 1, "cob": cob},
                       {"op": "transmit", "m": 1}, {"op": "reconfigure", "m": 1, "cob": cob}, {"op": "rtr", "m": 1},
                       {"op": "cwrite", "m": 1, "j": 0, "v": 3}, {"op": "ctransmit", "m": 1}]}
    # "wakes a waiting reader": the readers are parked, exactly one frame arrives - the first one the map ever
    # receives, or a later one; one, two or three readers; with and without a callback that blocks
    d1, d2 = b"\x01\x02\x03\x04\x05\x06\x07\x08", b"\xa5" * 8
    for first in (True, False):
        for nw in (1, 2, 3):
            for slow in ((0, 10) if thorough or nw == 1 else (0,)):
                pre = [] if first else [{"op": "write", "m": 0, "j": 2, "v": -2}, {"op": "transmit", "m": 0}]
                cb = [{"op": "callback", "m": 0, "slow": slow}] if slow else []
                yield {"maps": two, "config": ("direct", "save", "from_od")[nw - 1],
                       "ops": pre + cb + [{"op": "wait", "m": 0, "mode": "single", "waiters": nw, "data": d1},
                                          {"op": "wait", "m": 0, "mode": "single", "waiters": nw, "data": d2},
                                          {"op": "wait", "m": 1, "mode": "single", "waiters": 1, "data": d1},
                                          {"op": "reconfigure", "m": 1, "cob": 0x386, "resubscribe": False},
                                          {"op": "wait", "m": 1, "mode": "single", "waiters": nw, "data": d2}]}
    # schedules: "reception delivered ... from a second thread while another thread waits": the delivering thread
    # gives up the CPU before every line of the library's PDO reception code (or before one of them) - a woken
    # reader gets to run as early as the library lets it, and must come back with THIS frame's timestamp and data.
    # First frame of the map and later frames; parked readers and a re-delivering feeder; with a callback
    points = [(5, None), (12, None)] + ([(25, k) for k in range(24)] if thorough else [])
    for ms, at in points:
        for first in (True, False):
            for nw in ((1, 2, 3) if thorough else (1, 2)):
                if at is not None and nw == 3:
                    continue
                y = {"sched": ms} if at is None else {"sched": ms, "sched_at": at}
                pre = [] if first else [{"op": "write", "m": 0, "j": 2, "v": -2}, {"op": "transmit", "m": 0}]
                cb = [{"op": "callback", "m": 0}] if nw == 2 else []
                yield {"maps": two, "config": ("direct", "save", "from_od")[nw - 1],
                       "ops": pre + cb + [dict(y, op="wait", m=0, mode="single", waiters=nw, data=d1),
                                          dict(y, op="wait", m=0, mode="single", waiters=nw, data=d2),
                                          dict(y, op="wait", m=1, deliver=True, data=d1),
                                          dict(y, op="wait", m=1, deliver=True, data=d2),
                                          {"op": "write", "m": 0, "j": 2, "v": 77}, {"op": "transmit", "m": 0},
                                          dict(y, op="wait", m=0, deliver=True, data=d2)]}
    # the configuration is shared through save() alone (no subscribe() by hand), also after a change of the COB-ID
    for how in ("save", "subscribe"):
        for config in CONFIGS:
            yield {"maps": two, "config": config,
                   "ops": [{"op": "callback", "m": 0}, {"op": "write", "m": 0, "j": 2, "v": -1234},
                           {"op": "transmit", "m": 0, "via": "name"},
                           {"op": "reconfigure", "m": 0, "cob": 0x386, "how": how}, {"op": "transmit", "m": 0},
                           {"op": "pcob", "m": 0, "cob": 0x386}, {"op": "write", "m": 0, "j": 0, "v": 7},
                           {"op": "transmit", "m": 0, "via": "index"},
                           {"op": "reconfigure", "m": 1, "cob": 0x386, "how": how},
                           {"op": "write", "m": 0, "j": 1, "v": -3}, {"op": "transmit", "m": 0, "via": "node_name"},
                           {"op": "raw", "id": 0x286, "data": b"\x11\x22\x33\x44\x55\x66\x77\x88"}]}
    # record members mapped by numeric sub-index (1, 2, 127, 128, 254), 8 objects (positions 0..7), through every
    # configuration path and lookup route; values on the consumer and on the third node
    mlay = [{"dt": rc.UNSIGNED8, "len": 3, "sub": 2}, {"dt": rc.INTEGER8, "len": 5, "sub": 254},
            {"dt": rc.INTEGER16, "len": 16, "sub": 128}, {"dt": rc.BOOLEAN, "len": 1, "sub": 1},
            {"dt": rc.UNSIGNED8, "len": 7}, {"dt": rc.INTEGER16, "len": 16, "sub": 127},
            {"dt": rc.UNSIGNED8, "len": 8, "sub": 254}, {"dt": rc.INTEGER8, "len": 8}]
    vals = (5, -16, -2, True, 100, -32768, 255, -128)
    for config in CONFIGS:
        for via in VIAS:
            w = [{"op": "write", "m": 0, "j": j, "v": v, "via": via} for j, v in enumerate(vals)]
            yield {"maps": [{"cob": 0x186, "layout": mlay}, {"cob": 0x286, "layout": lay}], "config": config,
                   "ops": w + [{"op": "transmit", "m": 0, "via": via}, {"op": "write", "m": 1, "j": 1, "v": -16},
                               {"op": "transmit", "m": 1, "via": via}, {"op": "remap", "m": 0, "rot": 3}] + w[::-1] +
                          [{"op": "transmit", "m": 0, "via": via}]}
    # the two sides take turns on the shared configuration: a map that has received is written and transmitted
    # by its own node, the third node reads; then the first producer again
    for config in CONFIGS:
        for via in (VIAS if thorough else VIAS[:1] + VIAS[2:4]):
            yield {"maps": two, "config": config,
                   "ops": [{"op": "write", "m": 0, "j": 2, "v": -3, "via": via}, {"op": "write", "m": 0, "j": 1, "v": 7},
                           {"op": "transmit", "m": 0, "via": via},
                           {"op": "cwrite", "m": 0, "j": 2, "v": 1000, "via": via},
                           {"op": "cwrite", "m": 0, "j": 0, "v": 1, "via": via}, {"op": "ctransmit", "m": 0, "via": via},
                           {"op": "write", "m": 0, "j": 2, "v": -32768, "via": via}, {"op": "transmit", "m": 0, "via": via},
                           {"op": "cwrite", "m": 0, "j": 4, "v": 1.5, "via": via}, {"op": "ctransmit", "m": 0, "via": via},
                           {"op": "raw", "id": 0x286, "data": b"\x11\x22\x33\x44\x55\x66\x77\x88"},
                           {"op": "cwrite", "m": 1, "j": 3, "v": False, "via": via},
                           {"op": "ctransmit", "m": 1, "via": via},
                           {"op": "wait", "m": 1, "deliver": True, "data": d2},
                           {"op": "cwrite", "m": 1, "j": 1, "v": -1, "via": via},
                           {"op": "ctransmit", "m": 1, "via": via}]}


def search(ctx):
    thorough = ctx.tier == "thorough"
    ctx.enumerate(enum_cases(thorough), "enabled x rtr_allowed combinations x configuration path; COB-ID swap of two maps; "
                  "11/29-bit boundary ids; parked readers x first/later frame; save() as the subscribing step; record "
                  "members x configuration path x lookup route; the two sides taking turns")
    ctx.hypothesis(case_strategy(), 8000 if thorough else 1200)
