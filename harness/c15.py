"""C15 - a PDO value set by the producer is the value the consumer reads.

SUT: PdoMap.on_message/subscribe/transmit/remote_request/wait_for_reception,
PdoBase.__getitem__, PdoMap.__getitem__.  A producing LocalNode and a consuming
RemoteNode (its TPDO maps are what the master receives) on two networks of one
simulated bus, 1..4 maps each, configured directly.
"""
import threading
import time

from hypothesis import strategies as st

from harness import c05
from harness import refcodec as rc
from harness.core import Discrepancy, Outcome
from harness.odutil import build_od
from harness.simbus import Frame, Hub

PROPERTY = "C15"
LEVEL = "exploration"
RULE = ("case = 1..4 PDO maps (layouts as in C05: any integer type / REAL / BOOLEAN / sub-byte fields at any "
        "offset), COB-IDs distinct or colliding, per map enabled / rtr_allowed flags, and a history of ops: "
        "write a typed value on the producer (by position, index, name, through the node-level lookup), "
        "transmit, deliver a raw frame with a generated id, reconfigure a consumer map to another COB-ID "
        "and re-subscribe, add a callback, remote_request (from the consumer or from a third node that took "
        "the configuration from the device after the consumer's save()), wait_for_reception with a second thread "
        "delivering (or nothing delivered), callbacks that block for 5..50 ms, and re-mapping of a PDO (clear() + the same objects in another order "
        "on every node) between variable lookups through every route. Oracle: per-map reception model (data, timestamp, callback "
        "counts) + the C05 bit-field model for values; transmit = exactly (COB-ID, current data); RTR frame "
        "iff enabled and RTR allowed. Non-trivial = >= 2 maps and a reception with a non-byte-aligned layout "
        "or a colliding / reconfigured id; distinct = canonical JSON.")
ASSUMPTIONS = [
    "in the threaded wait the feeder re-delivers the same frame every 2 ms until the waiter returns, so the "
    "outcome does not depend on when the waiter really starts to wait",
    "wait_for_reception with nothing delivered uses a 20 ms time-out",
]
BUDGET = {"quick": 150, "thorough": 400}
NODE = 6


def od_spec(maps):
    spec = []
    for m, mp in enumerate(maps):
        raw_cob = mp["cob"] | (0 if mp.get("enabled", True) else 1 << 31) | (0 if mp.get("rtr", True) else 1 << 30)
        spec.append({"kind": "record", "index": 0x1800 + m, "name": f"TPDO {m} comm", "members": [
            {"sub": 0, "name": "n", "dt": rc.UNSIGNED8}, {"sub": 1, "name": "cob", "dt": rc.UNSIGNED32,
                                                        "default": raw_cob},
            {"sub": 2, "name": "type", "dt": rc.UNSIGNED8, "default": 1}]})
        spec.append({"kind": "array", "index": 0x1A00 + m, "name": f"TPDO {m} map", "members": [
            {"sub": 0, "name": "n", "dt": rc.UNSIGNED8, "default": len(mp["layout"])}] + [
            {"sub": j + 1, "name": f"e{j + 1}", "dt": rc.UNSIGNED32,
             "default": ((0x2000 + 16 * m + j) << 16) | e["len"]} for j, e in enumerate(mp["layout"])]})
        for j, e in enumerate(mp["layout"]):
            spec.append({"kind": "var", "index": 0x2000 + 16 * m + j, "name": f"m{m}f{j}", "dt": e["dt"], "pdo": True})
    return spec


def setup_maps(node, maps, consumer, from_od=False):
    out = []
    for m, mp in enumerate(maps):
        pm = node.tpdo[m + 1]
        if from_od:
            # the shared configuration is taken from the dictionary (this also subscribes)
            pm.read(from_od=True)
            out.append(pm)
            continue
        pm.cob_id = mp["cob"]
        pm.enabled = mp.get("enabled", True)
        pm.rtr_allowed = mp.get("rtr", True)
        for j, e in enumerate(mp["layout"]):
            full = rc.width(e["dt"])
            pm.add_variable(0x2000 + 16 * m + j, 0, None if e["len"] == full else e["len"])
        if consumer:
            pm.subscribe()
        out.append(pm)
    return out


def lookup(node, pm, m, j, via, pos=None):
    """Variable of object j of map m; `pos` is its current position in the mapping (j unless re-mapped)."""
    index = 0x2000 + 16 * m + j
    pos = j if pos is None else pos
    if via == "pos":
        return pm[pos]
    if via == "index":
        return pm[index]
    if via == "name":
        return pm[f"m{m}f{j}"]
    if via == "node_name":
        return node.tpdo[f"m{m}f{j}"]
    return node.tpdo[m + 1][pos]


def run_case(case) -> Outcome:
    import canopen
    maps = case["maps"]
    hub = Hub()
    net_p, port_p = hub.attach("producer")
    net_c, port_c = hub.attach("consumer")
    spec = od_spec(maps)
    prod = canopen.LocalNode(NODE, build_od(spec))
    net_p.add_node(prod)
    cons = canopen.RemoteNode(NODE, build_od(spec))
    net_c.add_node(cons)
    pmaps = setup_maps(prod, maps, consumer=False)
    cmaps = setup_maps(cons, maps, consumer=True, from_od=case.get("config") == "from_od")
    # a third, passive node with the same configuration on its own network: it hears everything the
    # other two put on the bus (data frames and remote requests) through the library's own listener
    net_m, port_m = hub.attach("monitor")
    mon = canopen.RemoteNode(NODE, build_od(spec))
    net_m.add_node(mon)
    if case.get("config") == "sdo":
        # the consumer writes its configuration to the device with save(); the third node takes it
        # from the device with read() - the usual way two masters come to share a configuration
        for cm in cmaps:
            cm.save()
        mmaps = []
        for m in range(len(maps)):
            mm = mon.tpdo[m + 1]
            mm.read()
            mmaps.append(mm)
    else:
        mmaps = setup_maps(mon, maps, consumer=True)
    for prt in (port_p, port_c, port_m):
        prt.via_listener = True
    D = []

    def bad(kind, detail):
        D.append(Discrepancy(f"C15/{kind}", detail))

    # model
    nbytes = [(sum(e["len"] for e in mp["layout"]) + 7) // 8 for mp in maps]
    pF = [0] * len(maps)                       # producer frames as integers
    offs = []
    for mp in maps:
        o, lst = 0, []
        for e in mp["layout"]:
            lst.append(o)
            o += e["len"]
        offs.append(lst)
    order = [list(range(len(mp["layout"]))) for mp in maps]      # object ids in mapping order (remap op)
    c_cob = [mp["cob"] for mp in maps]
    c_subscribed = [({mp["cob"]} if mp.get("enabled", True) else set()) for mp in maps]
    c_data = [None] * len(maps)
    c_ts = [None] * len(maps)
    m_data = [None] * len(maps)
    m_ts = [None] * len(maps)
    cb_log = []
    cb_expected = []
    callbacks = [[] for _ in maps]
    feats = set()

    def mk_cb(m, k, slow=0):
        def cb(pm):
            cb_log.append((m, k, pm is cmaps[m]))
            if slow:
                # user code that blocks for a moment (I/O, logging): the receiving thread gives up the CPU here
                time.sleep(slow / 1000.0)
        return cb

    def expect_receive(can_id, data, ts):
        for m in range(len(maps)):
            if can_id == maps[m]["cob"] and maps[m].get("enabled", True):
                m_data[m] = bytes(data)
                m_ts[m] = ts
        for m in range(len(maps)):
            if can_id == c_cob[m] and can_id in c_subscribed[m]:
                c_data[m] = bytes(data)
                c_ts[m] = ts
                for k in callbacks[m]:
                    cb_expected.append((m, k, True))
                if sum(1 for x in range(len(maps)) if c_cob[x] == can_id and can_id in c_subscribed[x]) > 1:
                    feats.add("colliding")
                if any(e["len"] % 8 or o % 8 for e, o in zip(maps[m]["layout"], offs[m])):
                    feats.add("bitfield-reception")

    def compare(tag):
        for m in range(len(maps)):
            got = bytes(cmaps[m].data) if c_data[m] is not None else None
            if c_data[m] is not None and got != c_data[m]:
                bad("consumer-data", f"{tag}: consumer map {m} (cob {c_cob[m]:#x}) holds {got.hex()} model "
                                     f"{c_data[m].hex()}")
                return
            if c_data[m] is None and cmaps[m].timestamp is not None:
                bad("unsubscribed-map-updated", f"{tag}: consumer map {m} (cob {c_cob[m]:#x}) received "
                                                f"{bytes(cmaps[m].data).hex()} although no frame was for it")
                return
            if cmaps[m].timestamp != c_ts[m]:
                bad("timestamp", f"{tag}: consumer map {m} timestamp {cmaps[m].timestamp} model {c_ts[m]}")
                return
        for m in range(len(maps)):
            got = bytes(mmaps[m].data) if m_data[m] is not None else None
            if (m_data[m] is not None and got != m_data[m]) or mmaps[m].timestamp != m_ts[m]:
                bad("monitor-node", f"{tag}: passive node, map {m} (cob {maps[m]['cob']:#x}) holds "
                                    f"{bytes(mmaps[m].data).hex()} @ {mmaps[m].timestamp}, model "
                                    f"{m_data[m].hex() if m_data[m] is not None else None} @ {m_ts[m]}")
                return
        # per map: every callback once per reception, in registration order (the order in which
        # different maps that share a COB-ID are served is not part of the property)
        for m in range(len(maps)):
            got_m = [e for e in cb_log if e[0] == m]
            want_m = [e for e in cb_expected if e[0] == m]
            if got_m != want_m:
                bad("callbacks", f"{tag}: callbacks of map {m}: log {got_m[-6:]} model {want_m[-6:]}")
                return

    for n, op in enumerate(case["ops"]):
        kind = op["op"]
        m = op.get("m", 0) % len(maps)
        tag = f"step {n} {kind} map {m}"
        try:
            if kind == "write":
                j = op["j"] % len(maps[m]["layout"])
                e = maps[m]["layout"][j]
                var = lookup(prod, pmaps[m], m, j, op.get("via", "pos"), order[m].index(j))
                var.raw = op["v"]
                mask = (1 << e["len"]) - 1
                pF[m] = (pF[m] & ~(mask << offs[m][j])) | (c05.enc_bits(e["dt"], e["len"], op["v"]) << offs[m][j])
                want = pF[m].to_bytes(nbytes[m], "little")
                if bytes(pmaps[m].data) != want:
                    bad("producer-data", f"{tag}: producer frame {bytes(pmaps[m].data).hex()} model {want.hex()}")
            elif kind == "transmit":
                mark = len(port_p.sent)
                pmaps[m].transmit()
                new = port_p.sent[mark:]
                want = pF[m].to_bytes(nbytes[m], "little")
                if len(new) != 1 or new[0].can_id != maps[m]["cob"] or new[0].data != want or new[0].remote:
                    bad("transmit-frame", f"{tag}: sent {new} want {maps[m]['cob']:X}#{want.hex()}")
                    break
                expect_receive(maps[m]["cob"], want, new[0].ts)
                compare(tag)
                if D:
                    break
                # typed values on the consumer side, through its own lookup path
                for cm in range(len(maps)):
                    if c_data[cm] is None or c_data[cm] != want or \
                            [maps[cm]["layout"][x] for x in order[cm]] != [maps[m]["layout"][x] for x in order[m]]:
                        continue
                    F = int.from_bytes(want, "little")
                    for j, e in enumerate(maps[cm]["layout"]):
                        wantv = c05.field_value(e["dt"], e["len"], F, offs[cm][j])
                        gotv = lookup(cons, cmaps[cm], cm, j, op.get("via", "pos"), order[cm].index(j)).raw
                        if not c05.same(e["dt"], gotv, wantv):
                            bad("consumer-value", f"{tag}: consumer map {cm} field {j} "
                                                  f"({rc.NAMES[e['dt']]} len {e['len']} at bit {offs[cm][j]}) reads "
                                                  f"{gotv!r}, producer frame {want.hex()} holds {wantv!r}")
                            break
            elif kind == "raw":
                fr = Frame(op["id"], bytes(op["data"]), ts=hub.now())
                hub.inject(fr)
                expect_receive(op["id"], bytes(op["data"]), fr.ts)
                compare(tag)
            elif kind == "reconfigure":
                c_cob[m] = op["cob"]
                cmaps[m].cob_id = op["cob"]
                if op.get("resubscribe", True):
                    cmaps[m].subscribe()
                    if cmaps[m].enabled:
                        c_subscribed[m].add(op["cob"])
                feats.add("reconfigured")
            elif kind == "remap":
                # the application re-maps the PDO on every node that shares the configuration: clear(), then
                # the same objects in another order (doc/pdo: "tpdo[n].clear(); add_variable(...)")
                k = op.get("rot", 1) % len(order[m])
                order[m] = order[m][k:] + order[m][:k]
                for pm in (pmaps[m], cmaps[m], mmaps[m]):
                    pm.clear()
                    for j in order[m]:
                        e = maps[m]["layout"][j]
                        pm.add_variable(0x2000 + 16 * m + j, 0, None if e["len"] == rc.width(e["dt"]) else e["len"])
                o = 0
                for j in order[m]:
                    offs[m][j] = o
                    o += maps[m]["layout"][j]["len"]
                # add_variable() sizes the frame anew and zeroes it
                pF[m] = 0
                if c_data[m] is not None:
                    c_data[m] = bytes(nbytes[m])
                if m_data[m] is not None:
                    m_data[m] = bytes(nbytes[m])
                feats.add("remapped")
                compare(tag)
            elif kind == "startstop":
                # a map that was transmitting periodically for a while and has been stopped again
                # receives like any other
                cmaps[m].start(op.get("p", 0.5))
                cmaps[m].stop()
                feats.add("restarted")
            elif kind == "callback":
                k = len(callbacks[m])
                callbacks[m].append(k)
                cmaps[m].add_callback(mk_cb(m, k, op.get("slow", 0)))
                if op.get("slow"):
                    feats.add("slow-callback")
            elif kind == "rtr":
                by_mon = op.get("who") == "mon"
                rport, rmap = (port_m, mmaps[m]) if by_mon else (port_c, cmaps[m])
                rcob = maps[m]["cob"] if by_mon else c_cob[m]
                mark = len(rport.sent)
                rmap.remote_request()
                new = rport.sent[mark:]
                should = (maps[m].get("enabled", True) if by_mon else cmaps[m].enabled) and maps[m].get("rtr", True)
                if should:
                    if len(new) != 1 or not new[0].remote or new[0].data != b"" or new[0].can_id != rcob:
                        bad("rtr/frame", f"{tag}: enabled and RTR allowed, frames sent: {new}")
                elif new:
                    bad("rtr/sent-although-not-allowed", f"{tag}: enabled={cmaps[m].enabled} "
                        f"rtr_allowed={maps[m].get('rtr', True)} but sent {new}")
                feats.add("rtr")
                compare(tag)
            elif kind == "wait":
                feats.add("wait")
                if op.get("deliver"):
                    data = bytes(op["data"])[:8]
                    ids_ok = c_cob[m] in c_subscribed[m]
                    started = threading.Event()
                    done = threading.Event()
                    stamps = []

                    def feeder():
                        started.wait(5)
                        while not done.is_set():
                            fr = Frame(c_cob[m], data, ts=hub.now())
                            stamps.append(fr.ts)
                            hub.inject(fr)
                            time.sleep(0.002)

                    th = threading.Thread(target=feeder, daemon=True)
                    th.start()
                    started.set()
                    t0 = time.monotonic()
                    r = cmaps[m].wait_for_reception(6.0 if ids_ok else 0.02)
                    took = time.monotonic() - t0
                    if ids_ok and took > 3.0:
                        # frames arrive every 2 ms; give a starved machine one more chance
                        t0 = time.monotonic()
                        r = cmaps[m].wait_for_reception(6.0)
                        took = min(took, time.monotonic() - t0)
                    done.set()
                    th.join(5)
                    if ids_ok:
                        if r is None or r not in stamps:
                            bad("wait/not-woken", f"{tag}: frames were delivered during the wait, returned {r!r}")
                        elif took > 3.0:
                            bad("wait/not-woken", f"{tag}: frames arrived every 2 ms but the waiter only "
                                                  f"returned after {took:.1f} s (its own time-out)")
                        # every delivery went through on_message: replay them in the model
                    elif r is not None:
                        bad("wait/woken-by-foreign-frame", f"{tag}: returned {r!r}")
                    for ts in stamps:
                        expect_receive(c_cob[m], data, ts)
                    compare(tag)
                else:
                    r = cmaps[m].wait_for_reception(0.02)
                    if r is not None:
                        bad("wait/returned-without-frame", f"{tag}: returned {r!r} although nothing was delivered")
            else:
                raise ValueError(kind)
        except Exception as ex:
            bad(f"{kind}/raises", f"{tag}: {type(ex).__name__}: {ex}")
        if D:
            break
    for (fr, e) in port_c.notify_errors + port_p.notify_errors:
        if not D:
            bad("notify-raises", f"Network.notify raised {type(e).__name__}: {e} for {fr}")
    nontrivial = len(maps) >= 2 and bool(feats & {"bitfield-reception", "colliding", "reconfigured", "remapped"})
    return Outcome(nontrivial, f"maps{len(maps)}/" + "+".join(sorted(feats)) if feats else f"maps{len(maps)}/plain", D)


# ---- generation ----------------------------------------------------------------
@st.composite
def layout_strategy(draw):
    layout = []
    remaining = 64
    for _ in range(draw(st.integers(1, 6))):
        opts = [(dt, rc.width(dt)) for dt in c05.FULL if rc.width(dt) <= remaining]
        if remaining >= 1:
            opts += [(rc.BOOLEAN, 1), (rc.INTEGER8, None), (rc.UNSIGNED8, None)]
        if not opts:
            break
        dt, ln = draw(st.sampled_from(opts))
        if ln is None:
            ln = draw(st.integers(1, min(8, remaining)))
        layout.append({"dt": dt, "len": ln})
        remaining -= ln
    return layout


def value_for(draw, e):
    dt, ln = e["dt"], e["len"]
    if dt == rc.BOOLEAN:
        return draw(st.booleans())
    if dt in rc.SIGNED:
        lo, hi = -(1 << (ln - 1)), (1 << (ln - 1)) - 1
        return draw(st.one_of(st.sampled_from([lo, -1, 0, hi]), st.integers(lo, hi)))
    if dt in rc.UNSIGNED:
        return draw(st.one_of(st.sampled_from([0, (1 << ln) - 1]), st.integers(0, (1 << ln) - 1)))
    if dt == rc.REAL32:
        return draw(st.floats(width=32, allow_nan=False))
    return draw(st.floats(allow_nan=False))


COBS = [0x180 + NODE, 0x280 + NODE, 0x380 + NODE, 0x185, 0x7FF, 0x1FF, 0x12345678]


@st.composite
def case_strategy(draw):
    nmaps = draw(st.integers(1, 4))
    share_layout = draw(st.booleans())
    base = draw(layout_strategy())
    maps = []
    for m in range(nmaps):
        maps.append({"cob": draw(st.sampled_from(COBS)), "layout": base if share_layout else draw(layout_strategy()),
                     "enabled": draw(st.integers(0, 5)) != 0, "rtr": draw(st.booleans())})
    ops = []
    for _ in range(draw(st.integers(1, 16))):
        kind = draw(st.sampled_from(["write", "write", "transmit", "transmit", "raw", "reconfigure", "callback",
                                     "rtr", "wait", "startstop", "remap"]))
        m = draw(st.integers(0, nmaps - 1))
        if kind == "write":
            j = draw(st.integers(0, len(maps[m]["layout"]) - 1))
            ops.append({"op": "write", "m": m, "j": j, "v": value_for(draw, maps[m]["layout"][j]),
                        "via": draw(st.sampled_from(["pos", "index", "name", "node_name", "node_map"]))})
        elif kind == "transmit":
            ops.append({"op": "transmit", "m": m,
                        "via": draw(st.sampled_from(["pos", "index", "name", "node_name", "node_map"]))})
        elif kind == "raw":
            ops.append({"op": "raw", "id": draw(st.sampled_from(COBS + [0x80 + NODE, 0x700 + NODE, 0x181])),
                        "data": draw(st.binary(min_size=8, max_size=8))})
        elif kind == "reconfigure":
            ops.append({"op": "reconfigure", "m": m, "cob": draw(st.sampled_from(COBS)),
                        "resubscribe": draw(st.integers(0, 4)) != 0})
        elif kind == "wait":
            ops.append({"op": "wait", "m": m, "deliver": draw(st.booleans()),
                        "data": draw(st.binary(min_size=8, max_size=8))})
        elif kind == "remap":
            ops.append({"op": "remap", "m": m, "rot": draw(st.integers(0, 7))})
        elif kind == "rtr":
            ops.append({"op": "rtr", "m": m, "who": draw(st.sampled_from(["cons", "cons", "mon"]))})
        elif kind == "callback" and draw(st.integers(0, 3)) == 0:
            ops.append({"op": "callback", "m": m, "slow": draw(st.sampled_from([5, 10, 20]))})
        else:
            ops.append({"op": kind, "m": m})
    return {"maps": maps, "ops": ops, "config": draw(st.sampled_from(["direct", "direct", "from_od", "sdo"]))}


def enum_cases():
    """The four (enabled, rtr_allowed) combinations, and the swap of two maps' COB-IDs."""
    lay = [{"dt": rc.UNSIGNED8, "len": 3}, {"dt": rc.INTEGER8, "len": 5}, {"dt": rc.INTEGER16, "len": 16},
           {"dt": rc.BOOLEAN, "len": 1}, {"dt": rc.REAL32, "len": 32}]
    for en in (True, False):
        for rtr in (True, False):
          for config in ("direct", "from_od", "sdo"):
            yield {"maps": [{"cob": 0x186, "layout": lay, "enabled": en, "rtr": rtr},
                            {"cob": 0x286, "layout": lay, "enabled": True, "rtr": True}],
                   "config": config,
                   "ops": [{"op": "rtr", "m": 0}, {"op": "rtr", "m": 1},
                           {"op": "rtr", "m": 0, "who": "mon"}, {"op": "rtr", "m": 1, "who": "mon"},
                           {"op": "write", "m": 0, "j": 1, "v": -16, "via": "name"}, {"op": "transmit", "m": 0},
                           {"op": "rtr", "m": 0}]}
    yield {"maps": [{"cob": 0x186, "layout": lay}, {"cob": 0x286, "layout": lay}],
           "ops": [{"op": "startstop", "m": 0},
                   {"op": "callback", "m": 0}, {"op": "callback", "m": 1}, {"op": "callback", "m": 0},
                   {"op": "write", "m": 0, "j": 2, "v": -32768}, {"op": "transmit", "m": 0},
                   {"op": "reconfigure", "m": 0, "cob": 0x286}, {"op": "reconfigure", "m": 1, "cob": 0x186},
                   {"op": "write", "m": 1, "j": 0, "v": 5}, {"op": "transmit", "m": 0}, {"op": "transmit", "m": 1},
                   {"op": "raw", "id": 0x186, "data": b"\x11\x22\x33\x44\x55\x66\x77\x88"},
                   {"op": "wait", "m": 0, "deliver": True, "data": b"\x01\x02\x03\x04\x05\x06\x07\x08"},
                   {"op": "wait", "m": 1, "deliver": False, "data": b""}]}
    # the same objects re-mapped in another order on all three nodes, variables looked up through every route
    # before and after
    for via in ("pos", "index", "name", "node_name", "node_map"):
        for rot in (1, 2, 4):
            w = [{"op": "write", "m": 0, "j": j, "v": v, "via": via} for j, v in ((0, 5), (1, -16), (2, -32768), (3, True))]
            yield {"maps": [{"cob": 0x186, "layout": lay}, {"cob": 0x286, "layout": lay}],
                   "ops": w + [{"op": "transmit", "m": 0, "via": via}, {"op": "remap", "m": 0, "rot": rot}] + w +
                          [{"op": "transmit", "m": 0, "via": via}, {"op": "remap", "m": 0, "rot": 1}] + w[::-1] +
                          [{"op": "transmit", "m": 0, "via": via}]}
    # a waiting reader and a callback that blocks for a moment
    for slow in (5, 20, 50):
        for ncb in (1, 2):
            yield {"maps": [{"cob": 0x186, "layout": lay}, {"cob": 0x286, "layout": lay}],
                   "ops": [{"op": "callback", "m": 0, "slow": slow}] * ncb +
                          [{"op": "wait", "m": 0, "deliver": True, "data": b"\x01\x02\x03\x04\x05\x06\x07\x08"},
                           {"op": "write", "m": 0, "j": 2, "v": 77}, {"op": "transmit", "m": 0},
                           {"op": "wait", "m": 0, "deliver": True, "data": b"\xff" * 8},
                           {"op": "wait", "m": 1, "deliver": False, "data": b""}]}


def search(ctx):
    thorough = ctx.tier == "thorough"
    ctx.enumerate(enum_cases(), "enabled x rtr_allowed combinations; COB-ID swap of two maps")
    ctx.hypothesis(case_strategy(), 8000 if thorough else 1200)
