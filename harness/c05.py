"""C05 - PDO variables occupy exactly their mapped bits.

SUT: PdoMap.add_variable/_update_data_size, PdoVariable.get_data/set_data via
PdoVariable.raw (no bus needed).  Oracle: the frame as one little-endian big
integer F; field = (F >> off) & mask, sign-extended / bool / IEEE.
"""
import math

from hypothesis import strategies as st

from harness import refcodec as rc
from harness.core import Discrepancy, Outcome
from harness.odutil import build_od

PROPERTY = "C05"
LEVEL = "exploration"
RULE = ("case = layout (1..8 entries: any integer type / REAL32 / REAL64 with its full length, BOOLEAN with 1 "
        "or 8 bits, 8-bit types with 1..8 bits; offsets are whatever results, total <= 64) + initial frame "
        "content + list of (variable, value) writes. Enumerated: every data type at every bit offset 0..63 "
        "(filler fields in front), with boundary values, and all 2^len values of every sub-byte field "
        "length at several offsets; Hypothesis draws layouts, frames and values. Oracle: big-integer "
        "bit-field model (read = field of F, write changes exactly the field's bits, length = ceil(total/8)). Entries may be "
        "record members mapped by numeric sub-index, and may declare LowLimit/HighLimit (advisory) with values "
        "written on both sides of them; the same objects may have been mapped with other lengths before clear(). "
        "'Every frame content': inside one history the same map object gets further contents - map.data = bytearray, "
        "map.data[:] = .. and map.data[i] = b in place, or a frame delivered from the bus (Network.notify -> "
        "on_message of the subscribed map) - interleaved with reads and writes (every enumerated type/offset case "
        "ends with such a replacement; Hypothesis mixes them in). 'Every PDO mapping' (family kind=multi): one "
        "RemoteNode or LocalNode with up to 4 objects (variables, records with members of different types, arrays "
        "with declared and derived elements, CiA 301 dummy entries 0x0001..0x0007; access type any of "
        "rw/ro/wo/rwr/rww/const) and 1..3 of the maps RPDO1/RPDO2/TPDO1/TPDO2, each with its own entry list (objects "
        "shared between maps, in other orders and lengths; the same object several times in one map; several members "
        "of one record/array incl. sub 0), built by add_variable (one map after the other or interleaved) or "
        "read(from_od=True), variables taken as returned / by position / by iteration; each map has its own frame "
        "(model: one integer per map); ops = write / read one variable / replace frame / change a byte on any map, "
        "after each op every map's buffer is compared with the model (a write to one map leaves the others alone) "
        "and, as drawn, none / that map's / all variables are read; all variables are read at the end. Directed "
        "enumerations of that family per clause + Hypothesis. "
        "Non-trivial = layout has a field with offset % 8 != 0 or length % 8 != 0; distinct = canonical JSON.")
ASSUMPTIONS = [
    "only values inside the field's range are written (the quantifier says 'all 2^len field values')",
    "NaN payloads are read (compared as NaN) but not written",
    "a frame content always has the frame length ceil(total/8) of its mapping and is a mutable buffer (bytearray) "
    "when the harness assigns it; a frame from the bus is handed to Network.notify as bytearray (its documented type)",
    "what a map's buffer holds before the application or the bus filled it is not examined (only its length)",
    "the statement does not condition on the access type of the mapped object (it describes access over the bus, "
    "e.g. a TPDO producer writes 'ro' objects into its frame), so writes are checked for objects of every access type",
    "a mapping may name the same object more than once (CiA 301 allows it, dummy entries are the usual case); every "
    "entry is a mapped variable with its own bit field",
    "in the multi-map family variables are addressed as returned by add_variable, by position or by iteration only "
    "(look-up by name/index is ambiguous there); offset/length attributes are not asserted in that family",
]
BUDGET = {"quick": 150, "thorough": 400}

SUB8 = (rc.INTEGER8, rc.UNSIGNED8)


def make_map(layout, pre=None, via="add", pre_same=None, own_clear=True, reread=0, pre_len=None):
    """Build RPDO 1 of a fresh RemoteNode with `layout`.
    via='add'      add_variable() per entry
    via='from_od'  the mapping is described by the dictionary (defaults of 0x1400/0x1600) and
                   taken over with read(from_od=True)
    pre            another layout (other objects) the same map object held before clear()
    own_clear      False (with via='from_od'): the earlier mapping is not cleared by the caller -
                   read() itself replaces whatever the map held
    reread         read(from_od=True) is repeated that many times on the same map object
    pre_same       a permutation of range(len(layout)): the SAME objects were mapped in that order
                   before (and looked up through the node), then clear() and the real order
    pre_len        with pre_same: the bit lengths the objects were mapped with in that earlier mapping
                   (8-bit objects / BOOLEAN may have been mapped wider or narrower before)
    A layout entry may carry "sub" (1..254): the mapped object is then member `sub` of a record, mapped by
    its numeric sub-index; "lim" [lo, hi]: the object declares these limits (LowLimit/HighLimit)."""
    import canopen
    mapping = [{"sub": 0, "name": "n", "dt": rc.UNSIGNED8},
               {"sub": 1, "name": "e", "dt": rc.UNSIGNED32}]
    com = [{"sub": 0, "name": "n", "dt": rc.UNSIGNED8},
           {"sub": 1, "name": "cob", "dt": rc.UNSIGNED32},
           {"sub": 2, "name": "type", "dt": rc.UNSIGNED8}]
    if via == "from_od":
        com[1]["default"] = 0x203
        com[2]["default"] = 255
        mapping = [{"sub": 0, "name": "n", "dt": rc.UNSIGNED8, "default": len(layout)}] + [
            {"sub": k + 1, "name": f"e{k + 1}", "dt": rc.UNSIGNED32,
             "default": ((0x2000 + k) << 16) | (e.get("sub", 0) << 8) | e["len"]} for k, e in enumerate(layout)]
    spec = [
        {"kind": "record", "index": 0x1400, "name": "RPDO 1 comm", "members": com},
        {"kind": "array", "index": 0x1600, "name": "RPDO 1 map", "members": mapping},
    ]
    for k, e in enumerate(layout):
        lim = e.get("lim") or (None, None)
        if e.get("sub"):
            spec.append({"kind": "record", "index": 0x2000 + k, "name": f"fld{k}", "members": [
                {"sub": 0, "name": "n", "dt": rc.UNSIGNED8},
                {"sub": e["sub"], "name": "m", "dt": e["dt"], "pdo": True, "min": lim[0], "max": lim[1]}]})
        else:
            spec.append({"kind": "var", "index": 0x2000 + k, "name": f"fld{k}", "dt": e["dt"], "pdo": True,
                         "min": lim[0], "max": lim[1]})
    for k, e in enumerate(pre or []):
        spec.append({"kind": "var", "index": 0x2100 + k, "name": f"p{k}", "dt": e["dt"], "pdo": True})
    node = canopen.RemoteNode(3, build_od(spec))
    canopen.Network().add_node(node)        # read(from_od=True) subscribes the enabled map
    pmap = node.rpdo[1]

    def add(index, e):
        full = rc.width(e["dt"])
        return pmap.add_variable(index, e.get("sub", 0), None if e["len"] == full else e["len"])

    if pre:
        # the same map object held another (typically longer) mapping before: re-mapped after clear()
        for k, e in enumerate(pre):
            add(0x2100 + k, e)
        pmap.data[:] = b"\xde" * len(pmap.data)
        if own_clear or via != "from_od":
            pmap.clear()
    if pre_same:
        for k in pre_same:
            add(0x2000 + k, dict(layout[k], len=pre_len[k]) if pre_len else layout[k])
        for k in pre_same:                       # the application looks its variables up ...
            _ = node.rpdo[f"fld{k}.m" if layout[k].get("sub") else f"fld{k}"].offset
            _ = node.pdo[0x2000 + k].offset
        pmap.clear()                             # ... and then re-maps them in another order
    if via == "from_od":
        pmap.read(from_od=True)
        for _ in range(reread):
            pmap.read(from_od=True)
        vars_ = list(pmap.map)
    else:
        vars_ = [add(0x2000 + k, e) for k, e in enumerate(layout)]
    return node, pmap, vars_


def resolve(node, pmap, vars_, k, lookup, member=False):
    name = f"fld{k}.m" if member else f"fld{k}"
    if lookup == "node_name":
        return node.rpdo[name]
    if lookup == "node_index":
        return node.pdo[0x2000 + k]
    if lookup == "map_name":
        return pmap[name]
    if lookup == "map_pos":
        return pmap[k]
    return vars_[k]


def field_value(dt, ln, F, off):
    raw = (F >> off) & ((1 << ln) - 1)
    if dt == rc.BOOLEAN:
        return raw != 0
    if dt in rc.SIGNED:
        if raw & (1 << (ln - 1)):
            raw -= 1 << ln
        return raw
    if dt in rc.UNSIGNED:
        return raw
    return rc.dec_real(dt, raw.to_bytes(ln // 8, "little"))


def enc_bits(dt, ln, v):
    if dt == rc.BOOLEAN:
        return 1 if v else 0
    if dt in rc.INTEGERS:
        return v & ((1 << ln) - 1)
    return int.from_bytes(rc.enc_real(dt, v), "little")


def same(dt, a, b):
    if dt in rc.REALS:
        return isinstance(a, float) and rc.float_bits_equal(a, b)
    if dt == rc.BOOLEAN:
        return a is b
    return a == b and not isinstance(a, bool)


def frame_op_text(op):
    if "poke" in op:
        return f"map.data[{op['poke'][0]}] = 0x{op['poke'][1]:02x} (in place)"
    return {"assign": "map.data = bytearray(..)", "slice": "map.data[:] = .. (in place)",
            "rx": "frame received (Network.notify)"}[op.get("how", "assign")] + f" {bytes(op['frame']).hex()}"


def put_frame(net, pmap, cob, op, F, nbytes, ts):
    """Give the map another frame content; returns the model's frame integer.
    {"frame": bytes, "how": "assign"}  map.data = bytearray(frame)
    {"frame": bytes, "how": "slice"}   map.data[:] = frame           (same buffer object, changed in place)
    {"frame": bytes, "how": "rx"}      the frame arrives from the bus: Network.notify(cob_id, bytearray, ts) ->
                                       PdoMap.on_message (the map is subscribed the documented way first)
    {"poke": [i, b]}                   map.data[i] = b               (one byte changed in place)
    The content always has the frame length ceil(total/8) of the mapping."""
    if "poke" in op:
        i, b = op["poke"][0] % nbytes, op["poke"][1] & 0xFF
        pmap.data[i] = b
        return (F & ~(0xFF << (8 * i))) | (b << (8 * i))
    frame = bytes(op["frame"])[:nbytes].ljust(nbytes, b"\0")
    how = op.get("how", "assign")
    if how == "assign":
        pmap.data = bytearray(frame)
    elif how == "slice":
        pmap.data[:] = frame
    elif how == "rx":
        if not pmap.enabled or pmap.cob_id != cob:
            pmap.cob_id = cob
            pmap.enabled = True
        pmap.subscribe()
        net.notify(cob, bytearray(frame), ts)
    else:
        raise ValueError(f"generator error: how={how}")
    return int.from_bytes(frame, "little")


def run_case(case) -> Outcome:
    if case.get("kind") == "multi":
        return run_multi(case)
    layout = case["layout"]
    D = []

    def bad(kind, detail):
        D.append(Discrepancy(f"C05/{kind}", detail))

    total = sum(e["len"] for e in layout)
    if total > 64 or (case.get("pre_len") and sum(case["pre_len"]) > 64):
        raise ValueError("generator error: layout of more than 64 bits is outside the property's domain")
    nontrivial = any(e["len"] % 8 for e in layout)
    off = 0
    offs = []
    for e in layout:
        offs.append(off)
        if off % 8:
            nontrivial = True
        off += e["len"]
    klass = "aligned" if not nontrivial else "bitfield"
    if any(e["dt"] in rc.REALS and o % 8 for e, o in zip(layout, offs)):
        klass = "real-at-bit-offset"
    elif any(e["len"] > 8 and o % 8 for e, o in zip(layout, offs)):
        klass = "multibyte-at-bit-offset"
    elif any(e["len"] < 8 and e["dt"] in rc.SIGNED for e in layout):
        klass = "signed-subbyte"
    try:
        node, pmap, vars_ = make_map(layout, case.get("pre"), case.get("via", "add"), case.get("pre_same"),
                                         case.get("own_clear", True), case.get("reread", 0), case.get("pre_len"))
        if len(vars_) != len(layout):
            bad("map-size", f"{layout}: {len(vars_)} variables mapped (via {case.get('via', 'add')})")
            return Outcome(nontrivial, klass, D)
        lookup = case.get("lookup", "direct")
        if lookup != "direct":
            vars_ = [resolve(node, pmap, vars_, k, lookup, bool(layout[k].get("sub"))) for k in range(len(layout))]
    except Exception as e:
        bad("add_variable-raises", f"{layout}: {type(e).__name__}: {e}")
        return Outcome(nontrivial, klass, D)
    nbytes = (total + 7) // 8
    if len(pmap.data) != nbytes:
        bad("frame-length", f"layout totals {total} bits, len(map.data) = {len(pmap.data)} want {nbytes}")
        return Outcome(nontrivial, klass, D)
    for k, (v, o) in enumerate(zip(vars_, offs)):
        if v is None or v.offset != o or v.length != layout[k]["len"]:
            bad("offset", f"variable {k}: offset/length {getattr(v, 'offset', None)}/"
                          f"{getattr(v, 'length', None)} want {o}/{layout[k]['len']}")
            return Outcome(nontrivial, klass, D)
    frame = bytes(case["frame"])[:nbytes].ljust(nbytes, b"\0")
    pmap.data = bytearray(frame)
    F = int.from_bytes(frame, "little")
    net = node.network

    def read_all(tag):
        for k, (v, o) in enumerate(zip(vars_, offs)):
            e = layout[k]
            want = field_value(e["dt"], e["len"], F, o)
            try:
                got = v.raw
            except Exception as ex:
                bad("read-raises", f"{tag}: variable {k} ({rc.NAMES[e['dt']]} len {e['len']} at bit {o}) "
                                   f"frame {F:0{nbytes * 2}x}: {type(ex).__name__}: {ex}")
                return False
            if not same(e["dt"], got, want):
                bad("read-value", f"{tag}: variable {k} ({rc.NAMES[e['dt']]} len {e['len']} at bit {o}) "
                                  f"frame {bytes(pmap.data).hex()}: read {got!r} want {want!r}")
                return False
        return True

    if not read_all("initial"):
        return Outcome(nontrivial, klass, D)
    for n, op in enumerate(case["ops"]):
        if "frame" in op or "poke" in op:
            # the frame content is replaced / changed on the same map object, in the middle of the history
            try:
                F = put_frame(net, pmap, 0x203, op, F, nbytes, float(n + 1))
            except Exception as ex:
                bad("frame-set-raises", f"op {n} {op}: {type(ex).__name__}: {ex}")
                break
            if len(pmap.data) != nbytes or int.from_bytes(bytes(pmap.data), "little") != F:
                bad("frame-set", f"op {n} {op}: map.data is {bytes(pmap.data).hex()} want "
                                 f"{F.to_bytes(nbytes, 'little').hex()}")
                break
            if not read_all(f"after op {n} {frame_op_text(op)}"):
                break
            continue
        k = op["var"] % len(layout)
        e, o, v = layout[k], offs[k], vars_[k]
        val = op["v"]
        mask = (1 << e["len"]) - 1
        want_F = (F & ~(mask << o)) | (enc_bits(e["dt"], e["len"], val) << o)
        tag = (f"write {n}: variable {k} ({rc.NAMES[e['dt']]} len {e['len']} at bit {o}) = {val!r} "
               f"on frame {bytes(pmap.data).hex()}")
        try:
            v.raw = val
        except Exception as ex:
            bad("write-raises", f"{tag}: {type(ex).__name__}: {ex}")
            break
        got_F = int.from_bytes(bytes(pmap.data), "little")
        if len(pmap.data) != nbytes:
            bad("write-changed-length", f"{tag}: frame length became {len(pmap.data)}")
            break
        if got_F != want_F:
            diff = got_F ^ want_F
            where = "field" if diff & (mask << o) and not diff & ~(mask << o) else \
                "neighbour" if not diff & (mask << o) else "field+neighbour"
            bad(f"write-bits/{where}", f"{tag}: frame became {bytes(pmap.data).hex()} want "
                                       f"{want_F.to_bytes(nbytes, 'little').hex()}")
            break
        F = want_F
        if not read_all(f"after {tag}"):
            break
    return Outcome(nontrivial, klass, D)


# ---- several maps on one node, objects shared / repeated / members of one record or array ----------------
ACCESS = ("rw", "ro", "wo", "rwr", "rww", "const")
#            communication, mapping parameter, COB-ID of node 3 (pre-defined connection set)
MAPS = {"rpdo1": (0x1400, 0x1600, 0x203), "rpdo2": (0x1401, 0x1601, 0x303),
        "tpdo1": (0x1800, 0x1A00, 0x183), "tpdo2": (0x1801, 0x1A01, 0x283)}
DUMMY_TYPES = (rc.BOOLEAN, rc.INTEGER8, rc.INTEGER16, rc.INTEGER32, rc.UNSIGNED8, rc.UNSIGNED16, rc.UNSIGNED32)


def obj_index(objs, k):
    return objs[k]["dt"] if objs[k]["kind"] == "dummy" else 0x2000 + k


def ent_dt(objs, ent):
    """Data type of the object a mapping entry [object number, sub-index, bit length] refers to."""
    o, sub = objs[ent[0]], ent[1]
    if o["kind"] in ("var", "dummy"):
        if sub:
            raise ValueError("generator error: sub-index of a simple variable")
        return o["dt"]
    if sub == 0:
        return rc.UNSIGNED8                      # "number of entries"
    if o["kind"] == "array":
        return o["dt"]
    for s, dt, _acc in o["mem"]:
        if s == sub:
            return dt
    raise ValueError("generator error: record member not declared")


def ent_acc(objs, k, sub):
    o = objs[k]
    if o["kind"] == "dummy":
        return "const"
    if o["kind"] == "var":
        return o.get("acc", "rw")
    if sub == 0:
        return "ro"
    if o["kind"] == "array":
        return o.get("acc", "rw")
    return [a for s_, _dt, a in o["mem"] if s_ == sub][0]


def make_multi(case):
    """One node (RemoteNode or LocalNode) whose dictionary holds the objects `objs`:
      {"kind": "var", "dt", "acc"}                  0x2000+k
      {"kind": "record", "mem": [[sub, dt, acc]..]}  0x2000+k, members of different types (sub 0 = UNSIGNED8)
      {"kind": "array", "dt", "acc", "decl": n}     0x2000+k, sub 1..n declared, every other sub-index 1..254 is
                                                    an element too (the dictionary derives it from the first one)
      {"kind": "dummy", "dt"}                       index = data type (CiA 301 dummy entry 0x0001..0x0007), const
    and several PDO maps ("rpdo1", "rpdo2", "tpdo1", "tpdo2"), each with its own list of entries
    [object number, sub-index, bit length] - objects may be shared between maps and repeated inside one -
    built with add_variable() or taken from the dictionary with read(from_od=True)."""
    import canopen
    objs, maps = case["objs"], case["maps"]
    spec = []
    for m in maps:
        com_i, map_i, cob = MAPS[m["which"]]
        from_od = m.get("via", "add") == "from_od"
        ents = m["ent"]
        spec.append({"kind": "record", "index": com_i, "name": f"{m['which']} comm", "members": [
            {"sub": 0, "name": "n", "dt": rc.UNSIGNED8},
            {"sub": 1, "name": "cob", "dt": rc.UNSIGNED32, "default": cob if from_od else None},
            {"sub": 2, "name": "type", "dt": rc.UNSIGNED8, "default": 255 if from_od else None}]})
        spec.append({"kind": "array", "index": map_i, "name": f"{m['which']} map", "members": [
            {"sub": 0, "name": "n", "dt": rc.UNSIGNED8, "default": len(ents) if from_od else None}] + [
            {"sub": j + 1, "name": f"e{j + 1}", "dt": rc.UNSIGNED32,
             "default": (obj_index(objs, e[0]) << 16) | (e[1] << 8) | e[2]} for j, e in enumerate(ents)]})
    for k, o in enumerate(objs):
        idx = obj_index(objs, k)
        if o["kind"] == "var":
            spec.append({"kind": "var", "index": idx, "name": f"o{k}", "dt": o["dt"], "access": o.get("acc", "rw"),
                         "pdo": True})
        elif o["kind"] == "dummy":
            spec.append({"kind": "var", "index": idx, "name": f"Dummy{idx:04d}", "dt": o["dt"], "access": "const"})
        elif o["kind"] == "record":
            spec.append({"kind": "record", "index": idx, "name": f"o{k}", "members": [
                {"sub": 0, "name": "n", "dt": rc.UNSIGNED8, "access": "ro"}] + [
                {"sub": s_, "name": f"m{s_}", "dt": dt, "access": acc, "pdo": True} for s_, dt, acc in o["mem"]]})
        else:
            spec.append({"kind": "array", "index": idx, "name": f"o{k}", "members": [
                {"sub": 0, "name": "n", "dt": rc.UNSIGNED8, "access": "ro"}] + [
                {"sub": s_, "name": f"e{s_}", "dt": o["dt"], "access": o.get("acc", "rw"), "pdo": True}
                for s_ in range(1, o.get("decl", 1) + 1)]})
    od = build_od(spec)
    node = canopen.LocalNode(3, od) if case.get("node") == "local" else canopen.RemoteNode(3, od)
    net = canopen.Network()
    net.add_node(node)
    pmaps = []
    for m in maps:
        w = m["which"]
        pmaps.append((node.rpdo if w.startswith("r") else node.tpdo)[int(w[-1])])
    vars_ = [[] for _ in maps]

    def add(mi, e):
        dt = ent_dt(objs, e)
        full = rc.width(dt)
        vars_[mi].append(pmaps[mi].add_variable(obj_index(objs, e[0]), e[1], None if e[2] == full else e[2]))

    adders = [mi for mi, m in enumerate(maps) if m.get("via", "add") != "from_od"]
    if case.get("interleave"):
        # the application builds its maps side by side: one entry of each in turn
        for j in range(max([len(maps[mi]["ent"]) for mi in adders] or [0])):
            for mi in adders:
                if j < len(maps[mi]["ent"]):
                    add(mi, maps[mi]["ent"][j])
    for mi, m in enumerate(maps):
        if m.get("via", "add") == "from_od":
            pmaps[mi].read(from_od=True)
        elif not case.get("interleave"):
            for e in m["ent"]:
                add(mi, e)
    for mi, m in enumerate(maps):
        lookup = m.get("lookup", "direct")
        if m.get("via", "add") == "from_od" and lookup == "direct":
            lookup = "iter"
        if lookup == "iter":
            vars_[mi] = list(pmaps[mi])
        elif lookup == "pos":
            vars_[mi] = [pmaps[mi][j] for j in range(len(pmaps[mi].map))]
    return node, net, pmaps, vars_


def multi_features(case):
    objs, maps = case["objs"], case["maps"]
    feats = [f"{len(maps)}map"]
    used = [[(e[0], e[1]) for e in m["ent"]] for m in maps]
    if any(set(a) & set(b) for i, a in enumerate(used) for b in used[i + 1:]):
        feats.append("shared")
    if any(len(set(u)) < len(u) for u in used):
        feats.append("repeat")
    if any(len({s for (o, s) in u if o == k}) > 1 for u in used for k in {o for o, _ in u}):
        feats.append("members")
    if {ent_acc(objs, o, s) for u in used for o, s in u} - {"rw"}:
        feats.append("non-rw")
    if any(m.get("how") == "rx" for m in maps) or any(op.get("how") == "rx" for op in case["ops"]):
        feats.append("rx")
    return feats


def run_multi(case) -> Outcome:
    objs, maps = case["objs"], case["maps"]
    D = []

    def bad(kind, detail):
        D.append(Discrepancy(f"C05/{kind}", detail))

    lay = []                 # per map: list of (dt, length, offset)
    nontrivial = False
    for m in maps:
        off, fields = 0, []
        if not 1 <= len(m["ent"]) <= 8:
            raise ValueError("generator error: a map has 1..8 entries")
        for e in m["ent"]:
            dt = ent_dt(objs, e)
            if e[2] != rc.width(dt) and not ((dt in SUB8 and 1 <= e[2] <= 8) or (dt == rc.BOOLEAN and e[2] == 1)):
                raise ValueError("generator error: length outside the property's domain")
            fields.append((dt, e[2], off))
            if off % 8 or e[2] % 8:
                nontrivial = True
            off += e[2]
        if off > 64:
            raise ValueError("generator error: layout of more than 64 bits is outside the property's domain")
        lay.append(fields)
    klass = "multi/" + "+".join(multi_features(case))
    desc = [f"{m['which']}[" + " | ".join(f"{obj_index(objs, e[0]):04X}:{e[1]:02X} {rc.NAMES[f[0]]}:{f[1]}@{f[2]}"
                                          for e, f in zip(m["ent"], fl)) + "]" for m, fl in zip(maps, lay)]
    try:
        node, net, pmaps, vars_ = make_multi(case)
    except Exception as e:
        bad("add_variable-raises", f"{desc}: {type(e).__name__}: {e}")
        return Outcome(nontrivial, klass, D)
    nb = [(sum(f[1] for f in fl) + 7) // 8 for fl in lay]
    for mi, m in enumerate(maps):
        if len(vars_[mi]) != len(m["ent"]) or any(v is None for v in vars_[mi]) or \
                len(pmaps[mi].map) != len(m["ent"]):
            bad("map-size", f"{desc}: map {mi} has {len(pmaps[mi].map)} variables, "
                            f"{sum(v is not None for v in vars_[mi])} handed out")
            return Outcome(nontrivial, klass, D)
        if len(pmaps[mi].data) != nb[mi]:
            bad("frame-length", f"{desc}: len(data) of map {mi} = {len(pmaps[mi].data)} want {nb[mi]}")
            return Outcome(nontrivial, klass, D)
    F = [0] * len(maps)

    def frames_ok(tag):
        """None: every map holds the model's frame; -1: a length is wrong (reported); else the number of a map
        whose content differs."""
        for mi in range(len(maps)):
            got = bytes(pmaps[mi].data)
            if len(got) != nb[mi]:
                bad("write-changed-length" if tag.startswith("write") else "frame-set",
                    f"{desc}: {tag}: frame of map {mi} has {len(got)} bytes, want {nb[mi]}")
                return -1
            if int.from_bytes(got, "little") != F[mi]:
                return mi
        return None

    def read_vars(tag, which):
        for mi in which:
            for k, (dt, ln, o) in enumerate(lay[mi]):
                want = field_value(dt, ln, F[mi], o)
                try:
                    got = vars_[mi][k].raw
                except Exception as ex:
                    bad("read-raises", f"{desc}: {tag}: map {mi} variable {k}: {type(ex).__name__}: {ex}")
                    return False
                if not same(dt, got, want):
                    bad("read-value", f"{desc}: {tag}: map {mi} variable {k} ({rc.NAMES[dt]} len {ln} at bit {o}) "
                                      f"frame {bytes(pmaps[mi].data).hex()}: read {got!r} want {want!r}")
                    return False
        return True

    def after(tag, mi, rd):
        return read_vars(f"after {tag}", [] if rd == 0 else [mi] if rd == 1 else range(len(maps)))

    ts = 0.0
    # every map gets its own initial frame content
    for mi, m in enumerate(maps):
        ts += 1.0
        op = {"frame": m["frame"], "how": m.get("how", "assign")}
        tag = f"map {mi}: {frame_op_text(op)}"
        try:
            F[mi] = put_frame(net, pmaps[mi], MAPS[m["which"]][2], op, F[mi], nb[mi], ts)
        except Exception as ex:
            bad("frame-set-raises", f"{desc}: {tag}: {type(ex).__name__}: {ex}")
            return Outcome(nontrivial, klass, D)
        # (the other maps' buffers are not looked at before they got their content: what a buffer holds
        #  before the application or the bus filled it is not part of the property)
        got = bytes(pmaps[mi].data)
        if len(got) != nb[mi] or int.from_bytes(got, "little") != F[mi]:
            bad("frame-set", f"{desc}: {tag}: map.data is {got.hex()}")
            return Outcome(nontrivial, klass, D)
    ok = frames_ok("initial frames")
    if ok is not None:
        if ok >= 0:
            bad("frame-set/other-map", f"{desc}: after every map got its content, map {ok} holds "
                                       f"{bytes(pmaps[ok].data).hex()} want {F[ok].to_bytes(nb[ok], 'little').hex()}")
        return Outcome(nontrivial, klass, D)
    if case.get("rd0", 2) and not read_vars("initial", range(len(maps))):
        return Outcome(nontrivial, klass, D)
    for n, op in enumerate(case["ops"]):
        mi = op["map"] % len(maps)
        ts += 1.0
        if op["op"] in ("set", "poke"):
            fop = {"poke": op["poke"]} if op["op"] == "poke" else {"frame": op["frame"], "how": op.get("how", "assign")}
            tag = f"op {n} map {mi}: {frame_op_text(fop)}"
            try:
                F[mi] = put_frame(net, pmaps[mi], MAPS[maps[mi]["which"]][2], fop, F[mi], nb[mi], ts)
            except Exception as ex:
                bad("frame-set-raises", f"{desc}: {tag}: {type(ex).__name__}: {ex}")
                break
            ok = frames_ok(tag)
            if ok is not None:
                if ok >= 0:
                    bad("frame-set" if ok == mi else "frame-set/other-map",
                        f"{desc}: {tag}: frame of map {ok} is {bytes(pmaps[ok].data).hex()} want "
                        f"{F[ok].to_bytes(nb[ok], 'little').hex()}")
                break
            if not after(tag, mi, op.get("rd", 2)):
                break
        elif op["op"] == "r":
            k = op["var"] % len(lay[mi])
            dt, ln, o = lay[mi][k]
            want = field_value(dt, ln, F[mi], o)
            try:
                got = vars_[mi][k].raw
            except Exception as ex:
                bad("read-raises", f"{desc}: op {n}: map {mi} variable {k}: {type(ex).__name__}: {ex}")
                break
            if not same(dt, got, want):
                bad("read-value", f"{desc}: op {n}: map {mi} variable {k} ({rc.NAMES[dt]} len {ln} at bit {o}) "
                                  f"frame {bytes(pmaps[mi].data).hex()}: read {got!r} want {want!r}")
                break
            if frames_ok(f"op {n} read") is not None:
                if not D:
                    bad("read-changed-frame", f"{desc}: op {n}: reading map {mi} variable {k} changed a frame")
                break
        else:
            k = op["var"] % len(lay[mi])
            dt, ln, o = lay[mi][k]
            mask = (1 << ln) - 1
            tag = (f"write op {n}: map {mi} variable {k} ({rc.NAMES[dt]} len {ln} at bit {o}) = {op['v']!r} "
                   f"on frame {bytes(pmaps[mi].data).hex()}")
            F[mi] = (F[mi] & ~(mask << o)) | (enc_bits(dt, ln, op["v"]) << o)
            try:
                vars_[mi][k].raw = op["v"]
            except Exception as ex:
                bad("write-raises", f"{desc}: {tag}: {type(ex).__name__}: {ex}")
                break
            ok = frames_ok(tag)
            if ok is not None:
                if ok >= 0 and ok != mi:
                    bad("write-bits/other-map", f"{desc}: {tag}: frame of map {ok} became "
                                                f"{bytes(pmaps[ok].data).hex()} want "
                                                f"{F[ok].to_bytes(nb[ok], 'little').hex()}")
                elif ok >= 0:
                    diff = int.from_bytes(bytes(pmaps[mi].data), "little") ^ F[mi]
                    where = "field" if diff & (mask << o) and not diff & ~(mask << o) else \
                        "neighbour" if not diff & (mask << o) else "field+neighbour"
                    bad(f"write-bits/{where}", f"{desc}: {tag}: frame became {bytes(pmaps[mi].data).hex()} want "
                                               f"{F[mi].to_bytes(nb[mi], 'little').hex()}")
                break
            if not after(tag, mi, op.get("rd", 2)):
                break
    if not D:
        read_vars("end of history", range(len(maps)))
    return Outcome(nontrivial, klass, D)


# ---- generation ------------------------------------------------------------
FULL = sorted(rc.INTEGERS) + sorted(rc.REALS)


def values_for(dt, ln):
    if dt == rc.BOOLEAN:
        return [False, True]
    if dt in rc.SIGNED:
        lo, hi = -(1 << (ln - 1)), (1 << (ln - 1)) - 1
        return sorted({lo, lo + 1, -1, 0, 1, hi - 1, hi} & set(range(lo, hi + 1)) if ln <= 16 else
                      {lo, lo + 1, -1, 0, 1, hi - 1, hi, -(1 << (ln // 2)), (1 << (ln // 2)) + 1})
    if dt in rc.UNSIGNED:
        hi = (1 << ln) - 1
        return sorted({0, 1, hi, hi - 1, hi >> 1, (hi >> 1) + 1} & set(range(0, hi + 1)) if ln <= 16 else
                      {0, 1, hi, hi - 1, hi >> 1, (hi >> 1) + 1, 0x5555555555555555 & hi})
    if dt == rc.REAL32:
        return [0.0, -0.0, 1.5, -2.75, float("inf"), float("-inf"), 1.401298464324817e-45,
                3.4028234663852886e38, -1.1754943508222875e-38]
    return [0.0, -0.0, 1.5, -2.75, float("inf"), float("-inf"), 5e-324, 1.7976931348623157e308,
            -2.2250738585072014e-308, 0.1]


def fillers(bits):
    """Fields that use exactly `bits` bits, as sub-byte / byte fields."""
    out = []
    k = 0
    while bits > 0:
        ln = min(8, bits) if k % 2 == 0 else min(bits, 1 + (bits % 7))
        dt = [rc.UNSIGNED8, rc.INTEGER8, rc.BOOLEAN][k % 3]
        if dt == rc.BOOLEAN and ln not in (1, 8):
            dt = rc.UNSIGNED8
        out.append({"dt": dt, "len": ln})
        bits -= ln
        k += 1
    return out[:7] if len(out) <= 7 else None


def enum_cases():
    frames = [bytes(8), b"\xff" * 8, bytes([0xA5, 0x5A, 0x3C, 0xC3, 0x0F, 0xF0, 0x69, 0x96])]
    for off in range(0, 64):
        pre = fillers(off)
        if pre is None:
            pre = []
            rest = off
            while rest > 0:
                ln = min(8, rest)
                pre.append({"dt": rc.UNSIGNED8, "len": ln})
                rest -= ln
        if len(pre) > 7:
            continue
        for dt in FULL + [rc.BOOLEAN]:
            lens = [rc.width(dt)] if dt != rc.BOOLEAN else [1, 8]
            if dt in SUB8:
                lens = list(range(1, 9))
            for ln in lens:
                if off + ln > 64:
                    continue
                layout = pre + [{"dt": dt, "len": ln}]
                tail = 64 - off - ln
                if tail and len(layout) < 8:
                    layout.append({"dt": rc.UNSIGNED8 if tail % 2 else rc.INTEGER8, "len": min(8, tail)})
                k = len(pre)
                vals = values_for(dt, ln)
                if ln <= 8 and dt != rc.BOOLEAN:
                    lo = -(1 << (ln - 1)) if dt in rc.SIGNED else 0
                    vals = list(range(lo, lo + (1 << ln)))      # all 2^len field values
                for fi, fr in enumerate(frames):
                    ops = [{"var": k, "v": v} for v in (vals if fi < 2 or len(vals) <= 16 else vals[::5])]
                    if len(layout) > k + 1:
                        nb = layout[k + 1]
                        ops.insert(1, {"var": k + 1, "v": values_for(nb["dt"], nb["len"])[0]})
                    # "every frame content": the same map object then gets another content (by assignment, in
                    # place, or from the bus), is read and written again, and one byte is changed in place
                    ops += [{"frame": frames[(fi + 1) % 3], "how": ("assign", "slice", "rx")[(off + ln + fi) % 3]},
                            {"var": k, "v": vals[len(vals) // 2]},
                            {"poke": [off // 8, (0x5A, 0xA5, 0xFF)[fi]]}]
                    yield {"layout": layout, "frame": fr, "ops": ops}


def value_st(dt, ln):
    """Values inside the field's range."""
    if dt == rc.BOOLEAN:
        return st.booleans()
    if dt in rc.SIGNED:
        lo, hi = -(1 << (ln - 1)), (1 << (ln - 1)) - 1
        return st.one_of(st.sampled_from([lo, -1, 0, hi]), st.integers(lo, hi))
    if dt in rc.UNSIGNED:
        hi = (1 << ln) - 1
        return st.one_of(st.sampled_from([0, hi]), st.integers(0, hi))
    if dt == rc.REAL32:
        return st.floats(width=32, allow_nan=False)
    return st.floats(allow_nan=False)


@st.composite
def layout_case(draw):
    layout = []
    remaining = 64
    n = draw(st.integers(1, 8))
    for _ in range(n):
        opts = []
        for dt in FULL:
            if rc.width(dt) <= remaining:
                opts.append((dt, rc.width(dt)))
        if remaining >= 1:
            opts.append((rc.BOOLEAN, 1))
            opts.append((rc.INTEGER8, None))
            opts.append((rc.UNSIGNED8, None))
            opts.append((rc.BOOLEAN, 1))
        if remaining >= 8:
            opts.append((rc.BOOLEAN, 8))
        if not opts:
            break
        dt, ln = draw(st.sampled_from(opts))
        if ln is None:
            ln = draw(st.integers(1, min(8, remaining)))
        layout.append({"dt": dt, "len": ln})
        if draw(st.integers(0, 3)) == 0:
            layout[-1]["sub"] = draw(st.sampled_from([1, 2, 7, 254]))
        if dt in rc.INTEGERS and draw(st.integers(0, 4)) == 0:
            # declared limits (they are advisory: the library logs a warning, nothing else)
            lo_t, hi_t = rc.int_range(dt)
            a, b = sorted((draw(st.integers(lo_t, hi_t)), draw(st.integers(lo_t, hi_t))))
            layout[-1]["lim"] = [a, b]
        remaining -= ln
    frame = draw(st.one_of(st.just(bytes(8)), st.just(b"\xff" * 8), st.binary(min_size=8, max_size=8)))
    ops = []
    for _ in range(draw(st.integers(1, 10))):
        if draw(st.integers(0, 5)) == 0:
            # another frame content on the same map object, in the middle of the history
            if draw(st.integers(0, 2)) == 0:
                ops.append({"poke": [draw(st.integers(0, 7)), draw(st.integers(0, 255))]})
            else:
                ops.append({"frame": draw(st.binary(min_size=8, max_size=8)),
                            "how": draw(st.sampled_from(["assign", "slice", "rx"]))})
            continue
        k = draw(st.integers(0, len(layout) - 1))
        e = layout[k]
        ops.append({"var": k, "v": draw(value_st(e["dt"], e["len"]))})
    case = {"layout": layout, "frame": frame, "ops": ops,
            "via": draw(st.sampled_from(["add", "add", "from_od"])),
            "lookup": draw(st.sampled_from(["direct", "direct", "node_name", "node_index", "map_name", "map_pos"]))}
    if len(layout) >= 2 and draw(st.integers(0, 3)) == 0:
        case["pre_same"] = draw(st.permutations(list(range(len(layout)))))
        case["via"] = "add"
        if draw(st.booleans()):
            # ... and some of them with another length then (total stays <= 64: only shrinking or equal)
            case["pre_len"] = [draw(st.integers(1, e["len"])) if (e["dt"] in SUB8 or e["dt"] == rc.BOOLEAN) and
                               e["len"] <= 8 else e["len"] for e in layout]
            case["pre_len"] = [1 if (e["dt"] == rc.BOOLEAN and ln not in (1, 8)) else ln
                               for e, ln in zip(layout, case["pre_len"])]
    elif draw(st.integers(0, 2)) == 0:
        pre = []
        rem = 64
        for _ in range(draw(st.integers(1, 4))):
            opts = [(dt, rc.width(dt)) for dt in FULL if rc.width(dt) <= rem] + ([(rc.UNSIGNED8, 3)] if rem >= 3 else [])
            if not opts:
                break
            dt, ln = draw(st.sampled_from(opts))
            pre.append({"dt": dt, "len": ln})
            rem -= ln
        case["pre"] = pre
    if case["via"] == "from_od":
        if case.get("pre") and draw(st.booleans()):
            case["own_clear"] = False
        if draw(st.integers(0, 3)) == 0:
            case["reread"] = draw(st.integers(1, 2))
    return case


def remap_cases():
    """A map that held a longer / shorter / equally long mapping before clear()."""
    long_ = [{"dt": rc.UNSIGNED64, "len": 64}]
    mid = [{"dt": rc.UNSIGNED8, "len": 8}, {"dt": rc.INTEGER16, "len": 16}, {"dt": rc.BOOLEAN, "len": 1}]
    short = [{"dt": rc.UNSIGNED8, "len": 5}]
    for pre in (long_, mid, short):
        for layout in (short, mid, long_, [{"dt": rc.INTEGER8, "len": 4}, {"dt": rc.UNSIGNED8, "len": 8},
                                           {"dt": rc.BOOLEAN, "len": 1}]):
            yield {"layout": layout, "pre": pre, "frame": bytes(8),
                   "ops": [{"var": 0, "v": values_for(layout[0]["dt"], layout[0]["len"])[-1]}]}


def config_path_cases():
    """Mapping taken from the dictionary with read(from_od=True): every type with its full length
    (64-bit objects included), and the same objects re-mapped in another order after node-level lookups."""
    for dt in FULL + [rc.BOOLEAN]:
        ln = rc.width(dt) if dt != rc.BOOLEAN else 1
        layout = [{"dt": rc.UNSIGNED8, "len": 3}, {"dt": dt, "len": ln}] if ln <= 56 else [{"dt": dt, "len": ln}]
        for lookup in ("direct", "node_name", "node_index"):
            yield {"layout": layout, "frame": bytes([0x5A] * 8), "via": "from_od", "lookup": lookup,
                   "ops": [{"var": len(layout) - 1, "v": values_for(dt, ln)[-1]}]}
    lay = [{"dt": rc.UNSIGNED8, "len": 4}, {"dt": rc.INTEGER16, "len": 16}, {"dt": rc.UNSIGNED8, "len": 8},
           {"dt": rc.BOOLEAN, "len": 1}]
    # read() replaces what the map object held: a second read(), or a read() over a hand-made mapping
    for extra in ({"reread": 1}, {"reread": 2}, {"pre": [{"dt": rc.UNSIGNED16, "len": 16}], "own_clear": False}):
        yield dict({"layout": lay, "frame": bytes([0xA5] * 8), "via": "from_od", "lookup": "direct",
                    "ops": [{"var": 0, "v": 9}, {"var": 1, "v": -2}, {"var": 2, "v": 200}, {"var": 3, "v": True}]},
                   **extra)
    # record members mapped by numeric sub-index, with sub-byte lengths; objects that declare limits
    mlay = [{"dt": rc.UNSIGNED8, "len": 4, "sub": 2}, {"dt": rc.BOOLEAN, "len": 1, "sub": 1},
            {"dt": rc.INTEGER8, "len": 3, "sub": 254, "lim": [0, 2]}, {"dt": rc.INTEGER16, "len": 16, "sub": 3},
            {"dt": rc.UNSIGNED8, "len": 8, "lim": [2, 10]}, {"dt": rc.INTEGER32, "len": 32, "lim": [-5, 5]}]
    for via in ("add", "from_od"):
        for lookup in ("direct", "node_name", "node_index", "map_name", "map_pos"):
            yield {"layout": mlay, "frame": bytes([0xC3] * 8), "via": via, "lookup": lookup,
                   "ops": [{"var": 0, "v": 13}, {"var": 1, "v": True}, {"var": 2, "v": -4}, {"var": 3, "v": -300},
                           {"var": 4, "v": 200}, {"var": 4, "v": 0}, {"var": 5, "v": -(2 ** 31)},
                           {"var": 5, "v": 2 ** 31 - 1}, {"var": 2, "v": 3}]}
    # the same objects were mapped with other lengths before clear()
    lay8 = [{"dt": rc.UNSIGNED8, "len": 8}, {"dt": rc.INTEGER8, "len": 8}, {"dt": rc.BOOLEAN, "len": 8},
            {"dt": rc.INTEGER8, "len": 3}]
    for pre_len in ([4, 8, 1, 3], [8, 5, 8, 1], [1, 1, 1, 2]):
        yield {"layout": lay8, "frame": bytes([0x3C] * 8), "pre_same": [0, 1, 2, 3], "pre_len": pre_len,
               "lookup": "direct", "ops": [{"var": 0, "v": 200}, {"var": 1, "v": -100}, {"var": 2, "v": True},
                                           {"var": 3, "v": -4}]}
    for perm in ([3, 2, 1, 0], [1, 0, 3, 2], [2, 3, 0, 1]):
        for lookup in ("node_name", "node_index", "map_name"):
            yield {"layout": lay, "frame": bytes(8), "pre_same": perm, "lookup": lookup,
                   "ops": [{"var": 0, "v": 9}, {"var": 1, "v": -2}, {"var": 2, "v": 200}, {"var": 3, "v": True}]}


# ---- several maps / shared, repeated objects / members of one record or array / frame replaced -----------
SMALL = [rc.UNSIGNED8, rc.INTEGER8, rc.BOOLEAN, rc.UNSIGNED16, rc.INTEGER16, rc.UNSIGNED8, rc.INTEGER8, rc.BOOLEAN]


@st.composite
def multi_case(draw):
    types = st.sampled_from(SMALL + FULL)
    access = st.sampled_from(("rw", "rw") + ACCESS)
    objs = []
    for _ in range(draw(st.integers(1, 4))):
        kind = draw(st.sampled_from(["var", "var", "record", "record", "array", "dummy"]))
        if kind == "dummy":
            dt = draw(st.sampled_from(DUMMY_TYPES))
            if any(o["kind"] == "dummy" and o["dt"] == dt for o in objs):
                kind = "var"
                objs.append({"kind": "var", "dt": dt, "acc": draw(access)})
            else:
                objs.append({"kind": "dummy", "dt": dt})
        elif kind == "var":
            objs.append({"kind": "var", "dt": draw(types), "acc": draw(access)})
        elif kind == "record":
            subs = draw(st.lists(st.sampled_from([1, 2, 3, 4, 7, 254]), min_size=1, max_size=4, unique=True))
            objs.append({"kind": "record", "mem": [[s_, draw(types), draw(access)] for s_ in sorted(subs)]})
        else:
            objs.append({"kind": "array", "dt": draw(types), "acc": draw(access), "decl": draw(st.integers(1, 3))})
    whichs = draw(st.permutations(sorted(MAPS)))[:draw(st.sampled_from([1, 2, 2, 2, 3]))]
    maps = []
    for w in whichs:
        ents, remaining = [], 64
        for _ in range(draw(st.integers(1, 8))):
            k = draw(st.integers(0, len(objs) - 1))
            o = objs[k]
            if o["kind"] == "record":
                sub = draw(st.sampled_from([m[0] for m in o["mem"]] * 3 + [0]))
            elif o["kind"] == "array":
                sub = draw(st.sampled_from([1, 1, 2, 3, 4, 5, 200, 254, 0]))
            else:
                sub = 0
            dt = ent_dt(objs, [k, sub, 0])
            if dt == rc.BOOLEAN:
                ln = draw(st.sampled_from([1, 1, 8]))
            elif dt in SUB8:
                ln = draw(st.sampled_from([8, 8, 1, 2, 3, 4, 5, 6, 7]))
            else:
                ln = rc.width(dt)
            if ln > remaining:
                continue
            ents.append([k, sub, ln])
            remaining -= ln
        if not ents:
            # nothing fitted (cannot happen with the first draw, kept for shrinking): one bit of anything small
            objs.append({"kind": "var", "dt": rc.UNSIGNED8, "acc": "rw"})
            ents.append([len(objs) - 1, 0, 8])
        maps.append({"which": w, "via": draw(st.sampled_from(["add", "add", "from_od"])), "ent": ents,
                     "lookup": draw(st.sampled_from(["direct", "direct", "pos", "iter"])),
                     "frame": draw(st.one_of(st.just(bytes(8)), st.just(b"\xff" * 8), st.binary(min_size=8, max_size=8))),
                     "how": draw(st.sampled_from(["assign", "assign", "slice", "rx"]))})
    ops = []
    for _ in range(draw(st.integers(1, 12))):
        mi = draw(st.integers(0, len(maps) - 1))
        kind = draw(st.sampled_from(["w", "w", "w", "set", "poke", "r"]))
        rd = draw(st.sampled_from([0, 1, 2, 2]))
        if kind == "set":
            ops.append({"op": "set", "map": mi, "frame": draw(st.binary(min_size=8, max_size=8)),
                        "how": draw(st.sampled_from(["assign", "slice", "rx"])), "rd": rd})
        elif kind == "poke":
            ops.append({"op": "poke", "map": mi, "poke": [draw(st.integers(0, 7)), draw(st.integers(0, 255))], "rd": rd})
        else:
            k = draw(st.integers(0, len(maps[mi]["ent"]) - 1))
            if kind == "r":
                ops.append({"op": "r", "map": mi, "var": k})
            else:
                e = maps[mi]["ent"][k]
                ops.append({"op": "w", "map": mi, "var": k, "v": draw(value_st(ent_dt(objs, e), e[2])), "rd": rd})
    return {"kind": "multi", "node": draw(st.sampled_from(["remote", "remote", "local"])), "objs": objs, "maps": maps,
            "interleave": draw(st.booleans()), "rd0": draw(st.sampled_from([0, 2, 2])), "ops": ops}


def multi_enum_cases(thorough=False):
    """Directed cases of the multi-map family, each derived from a clause of the statement:
    'every frame content' (the content of one map object changes several times, by every route),
    'every PDO mapping' (members of one record / array, the same object twice, objects of any access type,
    several maps of one node that share objects)."""
    U8, I8, U16, I16, I32, B = rc.UNSIGNED8, rc.INTEGER8, rc.UNSIGNED16, rc.INTEGER16, rc.INTEGER32, rc.BOOLEAN
    f1, f2, f3 = bytes([0x21, 0x43, 0x65, 0x87, 0xA9, 0xCB, 0xED, 0x0F]), \
        bytes([0x9C, 0x3A, 0x5F, 0xE1, 0x70, 0x06, 0xB8, 0xD4]), b"\xff" * 8
    nodes = ("remote", "local")
    # 1. frame content replaced on the same map object: every route, before and after reads and writes
    objs = [{"kind": "var", "dt": U8, "acc": "rw"}, {"kind": "var", "dt": I16, "acc": "rw"},
            {"kind": "var", "dt": B, "acc": "rw"}, {"kind": "var", "dt": rc.REAL32, "acc": "rw"}]
    layouts = ([[0, 0, 4], [1, 0, 16], [2, 0, 1]], [[0, 0, 8], [1, 0, 16]], [[2, 0, 1], [3, 0, 32], [0, 0, 3]])
    hows = ("assign", "slice", "rx", "poke")
    for li, ents in enumerate(layouts):
        for h0 in ("assign", "slice", "rx"):
            for h1 in hows:
                for h2 in hows:
                    if not thorough and (li + hows.index(h1) + hows.index(h2)) % 2:
                        continue
                    for rd in (2, 0):
                        def fop(h, fr, at):
                            return {"op": "poke", "map": 0, "poke": [at, fr[at]], "rd": rd} if h == "poke" else \
                                {"op": "set", "map": 0, "frame": fr, "how": h, "rd": rd}
                        yield {"kind": "multi", "node": nodes[(li + rd) % 2], "objs": objs, "rd0": 2,
                               "maps": [{"which": ("rpdo1", "tpdo1")[li % 2], "via": ("add", "from_od")[rd // 2],
                                         "ent": ents, "frame": f1, "how": h0}],
                               "ops": [fop(h1, f2, 0), {"op": "w", "map": 0, "var": 0, "v": 1 if li < 2 else True, "rd": rd},
                                       fop(h2, f3, 1), {"op": "r", "map": 0, "var": 1},
                                       {"op": "w", "map": 0, "var": 1, "v": -2 if li < 2 else 1.5, "rd": 2},
                                       fop(h1, f1, 0)]}
    # 2. members of one record / elements of one array (declared or derived), of different types and lengths
    robjs = [{"kind": "record", "mem": [[1, U8, "rw"], [2, I16, "rw"], [3, B, "ro"], [4, I32, "rw"], [254, I8, "wo"]]},
             {"kind": "array", "dt": I16, "acc": "rw", "decl": 2},
             {"kind": "array", "dt": U8, "acc": "ro", "decl": 1}]
    rlays = ([[0, 1, 8], [0, 2, 16]], [[0, 2, 16], [0, 1, 8]], [[0, 1, 3], [0, 3, 1], [0, 254, 5], [0, 4, 32], [0, 0, 8]],
             [[0, 0, 8], [0, 2, 16], [0, 1, 4]], [[1, 0, 8], [1, 1, 16], [1, 2, 16]], [[1, 2, 16], [1, 0, 5], [1, 7, 16]],
             [[2, 1, 3], [2, 9, 8], [2, 0, 8], [2, 200, 1]], [[2, 0, 2], [1, 3, 16], [0, 2, 16], [0, 3, 1], [2, 1, 8]])
    for li, ents in enumerate(rlays):
        for via in ("add", "from_od"):
            for lookup in ("direct", "pos"):
                ops = []
                for k, e in enumerate(ents):
                    vals = values_for(ent_dt(robjs, e), e[2])
                    ops += [{"op": "w", "map": 0, "var": k, "v": vals[0], "rd": 2},
                            {"op": "w", "map": 0, "var": k, "v": vals[-1], "rd": 1}]
                yield {"kind": "multi", "node": nodes[li % 2], "objs": robjs, "rd0": 2,
                       "maps": [{"which": "rpdo1", "via": via, "lookup": lookup, "ent": ents, "frame": (f1, f2)[li % 2],
                                 "how": "assign"}], "ops": ops}
    # 3. the same object more than once in a layout (dummy entries are the usual case), with equal or other lengths
    dobjs = [{"kind": "dummy", "dt": U8}, {"kind": "dummy", "dt": I16}, {"kind": "var", "dt": I8, "acc": "rw"},
             {"kind": "var", "dt": U16, "acc": "rw"}, {"kind": "dummy", "dt": B}]
    dlays = ([[2, 0, 8], [3, 0, 16], [2, 0, 8]], [[0, 0, 8], [2, 0, 4], [0, 0, 8], [3, 0, 16], [0, 0, 8]],
             [[2, 0, 3], [2, 0, 5], [2, 0, 8], [2, 0, 1]], [[1, 0, 16], [4, 0, 1], [1, 0, 16], [4, 0, 1], [3, 0, 16]],
             [[3, 0, 16], [3, 0, 16], [3, 0, 16], [3, 0, 16]], [[0, 0, 1], [0, 0, 7], [3, 0, 16], [0, 0, 2]])
    for li, ents in enumerate(dlays):
        for via in ("add", "from_od"):
            for lookup in ("direct", "pos", "iter"):
                ops = []
                for k, e in enumerate(ents):
                    vals = values_for(ent_dt(dobjs, e), e[2])
                    ops.append({"op": "w", "map": 0, "var": k, "v": vals[-1] if k % 2 else vals[0], "rd": 2})
                yield {"kind": "multi", "node": nodes[li % 2], "objs": dobjs, "rd0": (2, 0)[li % 2],
                       "maps": [{"which": ("rpdo1", "tpdo2")[li % 2], "via": via, "lookup": lookup, "ent": ents,
                                 "frame": (f2, f1)[li % 2], "how": ("assign", "rx")[li % 2]}], "ops": ops}
    # 4. objects of every access type, in receive and transmit maps of a remote and of a local node
    for node in nodes:
        for which in ("rpdo1", "tpdo1"):
            for ai, acc in enumerate(ACCESS):
                aobjs = [{"kind": "var", "dt": U16, "acc": acc}, {"kind": "var", "dt": U8, "acc": ACCESS[(ai + 1) % 6]},
                         {"kind": "record", "mem": [[1, I8, acc], [2, B, ACCESS[(ai + 2) % 6]]]},
                         {"kind": "array", "dt": I16, "acc": acc, "decl": 1}]
                ents = [[1, 0, 4], [0, 0, 16], [2, 1, 8], [2, 2, 1], [3, 2, 16], [1, 0, 3]]
                yield {"kind": "multi", "node": node, "objs": aobjs, "rd0": 2,
                       "maps": [{"which": which, "via": ("add", "from_od")[ai % 2], "ent": ents, "frame": f2,
                                 "how": "assign"}],
                       "ops": [{"op": "w", "map": 0, "var": 1, "v": 0x1234, "rd": 2},
                               {"op": "w", "map": 0, "var": 0, "v": 9, "rd": 2},
                               {"op": "w", "map": 0, "var": 2, "v": -128, "rd": 2},
                               {"op": "w", "map": 0, "var": 3, "v": ai % 2 == 0, "rd": 2},
                               {"op": "w", "map": 0, "var": 4, "v": -2, "rd": 2},
                               {"op": "w", "map": 0, "var": 5, "v": 5, "rd": 2}]}
    # 5. several maps of one node that share objects (other order, other lengths), each with its own frame
    sobjs = [{"kind": "var", "dt": U8, "acc": "rw"}, {"kind": "var", "dt": U16, "acc": "rw"},
             {"kind": "record", "mem": [[1, I8, "rw"], [2, I32, "rw"]]}, {"kind": "var", "dt": B, "acc": "rw"}]
    A = [[0, 0, 4], [1, 0, 16], [2, 1, 8], [3, 0, 1]]
    Bm = [[1, 0, 16], [3, 0, 8], [0, 0, 8], [2, 1, 3]]
    C = [[2, 2, 32], [0, 0, 8], [2, 1, 8], [1, 0, 16]]
    combos = ((("rpdo1", A), ("rpdo2", Bm)), (("rpdo2", Bm), ("rpdo1", A)), (("tpdo1", A), ("tpdo2", C)),
              (("rpdo1", A), ("tpdo1", Bm)), (("rpdo1", A), ("rpdo2", Bm), ("tpdo1", C)),
              (("tpdo2", C), ("rpdo2", A), ("rpdo1", A)))
    for ci, combo in enumerate(combos):
        for vias in (("add",) * 3, ("from_od",) * 3, ("add", "from_od", "add")):
            for interleave in (False, True):
                if interleave and "from_od" in vias[:len(combo)]:
                    continue
                for node in nodes:
                    maps = [{"which": w, "via": vias[i], "ent": ents, "frame": (f1, f2, f3)[i],
                             "how": ("assign", "slice", "rx")[(i + ci) % 3]} for i, (w, ents) in enumerate(combo)]
                    ops = []
                    for mi, (w, ents) in enumerate(combo):
                        for k, e in enumerate(ents):
                            vals = values_for(ent_dt(sobjs, e), e[2])
                            ops.append({"op": "w", "map": mi, "var": k, "v": vals[(mi + k) % len(vals)], "rd": 2})
                        ops.append({"op": "set", "map": (mi + 1) % len(combo), "frame": (f3, f1, f2)[mi],
                                    "how": ("rx", "assign", "slice")[mi], "rd": 2})
                    yield {"kind": "multi", "node": node, "objs": sobjs, "rd0": (2, 0)[ci % 2], "interleave": interleave,
                           "maps": maps, "ops": ops}


def search(ctx):
    thorough = ctx.tier == "thorough"
    ctx.enumerate(enum_cases(), "every data type at every bit offset 0..63; all 2^len values of fields <= 8 bits")
    ctx.enumerate(remap_cases(), "maps re-mapped after clear() from a longer / shorter mapping")
    ctx.enumerate(config_path_cases(), "mapping taken from the dictionary; same objects re-mapped after lookups")
    ctx.enumerate(multi_enum_cases(thorough), "several maps of one node sharing objects; members of one record/array; "
                  "repeated objects; every access type; frame content replaced by every route")
    ctx.hypothesis(layout_case(), 20000 if thorough else 4000)
    ctx.hypothesis(multi_case(), 15000 if thorough else 1500, salt=1)
    if thorough:
        # second half after the multi-map family, so that a run cut short by the budget has seen both
        ctx.hypothesis(layout_case(), 20000, salt=2)
