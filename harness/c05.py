"""C05 - PDO variables occupy exactly their mapped bits.

SUT: PdoMap.add_variable/_update_data_size, PdoVariable.get_data/set_data via
PdoVariable.raw (no bus needed).  Oracle: the frame as one little-endian big
integer F; field = (F >> off) & mask, sign-extended / bool / IEEE.
"""
import math

from hypothesis import strategies as st

from harness import refcodec as rc
from harness.core import Discrepancy, Outcome
from harness.odutil import build_od

PROPERTY = "C05"
LEVEL = "exploration"
RULE = ("case = layout (1..8 entries: any integer type / REAL32 / REAL64 with its full length, BOOLEAN with 1 "
        "or 8 bits, 8-bit types with 1..8 bits; offsets are whatever results, total <= 64) + initial frame "
        "content + list of (variable, value) writes. Enumerated: every data type at every bit offset 0..63 "
        "(filler fields in front), with boundary values, and all 2^len values of every sub-byte field "
        "length at several offsets; Hypothesis draws layouts, frames and values. Oracle: big-integer "
        "bit-field model (read = field of F, write changes exactly the field's bits, length = ceil(total/8)). Entries may be "
        "record members mapped by numeric sub-index, and may declare LowLimit/HighLimit (advisory) with values "
        "written on both sides of them; the same objects may have been mapped with other lengths before clear(). "
        "Non-trivial = layout has a field with offset % 8 != 0 or length % 8 != 0; distinct = canonical JSON.")
ASSUMPTIONS = [
    "only values inside the field's range are written (the quantifier says 'all 2^len field values')",
    "NaN payloads are read (compared as NaN) but not written",
]
BUDGET = {"quick": 150, "thorough": 400}

SUB8 = (rc.INTEGER8, rc.UNSIGNED8)


def make_map(layout, pre=None, via="add", pre_same=None, own_clear=True, reread=0, pre_len=None):
    """Build RPDO 1 of a fresh RemoteNode with `layout`.
    via='add'      add_variable() per entry
    via='from_od'  the mapping is described by the dictionary (defaults of 0x1400/0x1600) and
                   taken over with read(from_od=True)
    pre            another layout (other objects) the same map object held before clear()
    own_clear      False (with via='from_od'): the earlier mapping is not cleared by the caller -
                   read() itself replaces whatever the map held
    reread         read(from_od=True) is repeated that many times on the same map object
    pre_same       a permutation of range(len(layout)): the SAME objects were mapped in that order
                   before (and looked up through the node), then clear() and the real order
    pre_len        with pre_same: the bit lengths the objects were mapped with in that earlier mapping
                   (8-bit objects / BOOLEAN may have been mapped wider or narrower before)
    A layout entry may carry "sub" (1..254): the mapped object is then member `sub` of a record, mapped by
    its numeric sub-index; "lim" [lo, hi]: the object declares these limits (LowLimit/HighLimit)."""
    import canopen
    mapping = [{"sub": 0, "name": "n", "dt": rc.UNSIGNED8},
               {"sub": 1, "name": "e", "dt": rc.UNSIGNED32}]
    com = [{"sub": 0, "name": "n", "dt": rc.UNSIGNED8},
           {"sub": 1, "name": "cob", "dt": rc.UNSIGNED32},
           {"sub": 2, "name": "type", "dt": rc.UNSIGNED8}]
    if via == "from_od":
        com[1]["default"] = 0x203
        com[2]["default"] = 255
        mapping = [{"sub": 0, "name": "n", "dt": rc.UNSIGNED8, "default": len(layout)}] + [
            {"sub": k + 1, "name": f"e{k + 1}", "dt": rc.UNSIGNED32,
             "default": ((0x2000 + k) << 16) | (e.get("sub", 0) << 8) | e["len"]} for k, e in enumerate(layout)]
    spec = [
        {"kind": "record", "index": 0x1400, "name": "RPDO 1 comm", "members": com},
        {"kind": "array", "index": 0x1600, "name": "RPDO 1 map", "members": mapping},
    ]
    for k, e in enumerate(layout):
        lim = e.get("lim") or (None, None)
        if e.get("sub"):
            spec.append({"kind": "record", "index": 0x2000 + k, "name": f"fld{k}", "members": [
                {"sub": 0, "name": "n", "dt": rc.UNSIGNED8},
                {"sub": e["sub"], "name": "m", "dt": e["dt"], "pdo": True, "min": lim[0], "max": lim[1]}]})
        else:
            spec.append({"kind": "var", "index": 0x2000 + k, "name": f"fld{k}", "dt": e["dt"], "pdo": True,
                         "min": lim[0], "max": lim[1]})
    for k, e in enumerate(pre or []):
        spec.append({"kind": "var", "index": 0x2100 + k, "name": f"p{k}", "dt": e["dt"], "pdo": True})
    node = canopen.RemoteNode(3, build_od(spec))
    canopen.Network().add_node(node)        # read(from_od=True) subscribes the enabled map
    pmap = node.rpdo[1]

    def add(index, e):
        full = rc.width(e["dt"])
        return pmap.add_variable(index, e.get("sub", 0), None if e["len"] == full else e["len"])

    if pre:
        # the same map object held another (typically longer) mapping before: re-mapped after clear()
        for k, e in enumerate(pre):
            add(0x2100 + k, e)
        pmap.data[:] = b"\xde" * len(pmap.data)
        if own_clear or via != "from_od":
            pmap.clear()
    if pre_same:
        for k in pre_same:
            add(0x2000 + k, dict(layout[k], len=pre_len[k]) if pre_len else layout[k])
        for k in pre_same:                       # the application looks its variables up ...
            _ = node.rpdo[f"fld{k}.m" if layout[k].get("sub") else f"fld{k}"].offset
            _ = node.pdo[0x2000 + k].offset
        pmap.clear()                             # ... and then re-maps them in another order
    if via == "from_od":
        pmap.read(from_od=True)
        for _ in range(reread):
            pmap.read(from_od=True)
        vars_ = list(pmap.map)
    else:
        vars_ = [add(0x2000 + k, e) for k, e in enumerate(layout)]
    return node, pmap, vars_


def resolve(node, pmap, vars_, k, lookup, member=False):
    name = f"fld{k}.m" if member else f"fld{k}"
    if lookup == "node_name":
        return node.rpdo[name]
    if lookup == "node_index":
        return node.pdo[0x2000 + k]
    if lookup == "map_name":
        return pmap[name]
    if lookup == "map_pos":
        return pmap[k]
    return vars_[k]


def field_value(dt, ln, F, off):
    raw = (F >> off) & ((1 << ln) - 1)
    if dt == rc.BOOLEAN:
        return raw != 0
    if dt in rc.SIGNED:
        if raw & (1 << (ln - 1)):
            raw -= 1 << ln
        return raw
    if dt in rc.UNSIGNED:
        return raw
    return rc.dec_real(dt, raw.to_bytes(ln // 8, "little"))


def enc_bits(dt, ln, v):
    if dt == rc.BOOLEAN:
        return 1 if v else 0
    if dt in rc.INTEGERS:
        return v & ((1 << ln) - 1)
    return int.from_bytes(rc.enc_real(dt, v), "little")


def same(dt, a, b):
    if dt in rc.REALS:
        return isinstance(a, float) and rc.float_bits_equal(a, b)
    if dt == rc.BOOLEAN:
        return a is b
    return a == b and not isinstance(a, bool)


def run_case(case) -> Outcome:
    layout = case["layout"]
    D = []

    def bad(kind, detail):
        D.append(Discrepancy(f"C05/{kind}", detail))

    total = sum(e["len"] for e in layout)
    if total > 64 or (case.get("pre_len") and sum(case["pre_len"]) > 64):
        raise ValueError("generator error: layout of more than 64 bits is outside the property's domain")
    nontrivial = any(e["len"] % 8 for e in layout)
    off = 0
    offs = []
    for e in layout:
        offs.append(off)
        if off % 8:
            nontrivial = True
        off += e["len"]
    klass = "aligned" if not nontrivial else "bitfield"
    if any(e["dt"] in rc.REALS and o % 8 for e, o in zip(layout, offs)):
        klass = "real-at-bit-offset"
    elif any(e["len"] > 8 and o % 8 for e, o in zip(layout, offs)):
        klass = "multibyte-at-bit-offset"
    elif any(e["len"] < 8 and e["dt"] in rc.SIGNED for e in layout):
        klass = "signed-subbyte"
    try:
        node, pmap, vars_ = make_map(layout, case.get("pre"), case.get("via", "add"), case.get("pre_same"),
                                         case.get("own_clear", True), case.get("reread", 0), case.get("pre_len"))
        if len(vars_) != len(layout):
            bad("map-size", f"{layout}: {len(vars_)} variables mapped (via {case.get('via', 'add')})")
            return Outcome(nontrivial, klass, D)
        lookup = case.get("lookup", "direct")
        if lookup != "direct":
            vars_ = [resolve(node, pmap, vars_, k, lookup, bool(layout[k].get("sub"))) for k in range(len(layout))]
    except Exception as e:
        bad("add_variable-raises", f"{layout}: {type(e).__name__}: {e}")
        return Outcome(nontrivial, klass, D)
    nbytes = (total + 7) // 8
    if len(pmap.data) != nbytes:
        bad("frame-length", f"layout totals {total} bits, len(map.data) = {len(pmap.data)} want {nbytes}")
        return Outcome(nontrivial, klass, D)
    for k, (v, o) in enumerate(zip(vars_, offs)):
        if v is None or v.offset != o or v.length != layout[k]["len"]:
            bad("offset", f"variable {k}: offset/length {getattr(v, 'offset', None)}/"
                          f"{getattr(v, 'length', None)} want {o}/{layout[k]['len']}")
            return Outcome(nontrivial, klass, D)
    frame = bytes(case["frame"])[:nbytes].ljust(nbytes, b"\0")
    pmap.data = bytearray(frame)
    F = int.from_bytes(frame, "little")

    def read_all(tag):
        for k, (v, o) in enumerate(zip(vars_, offs)):
            e = layout[k]
            want = field_value(e["dt"], e["len"], F, o)
            try:
                got = v.raw
            except Exception as ex:
                bad("read-raises", f"{tag}: variable {k} ({rc.NAMES[e['dt']]} len {e['len']} at bit {o}) "
                                   f"frame {F:0{nbytes * 2}x}: {type(ex).__name__}: {ex}")
                return False
            if not same(e["dt"], got, want):
                bad("read-value", f"{tag}: variable {k} ({rc.NAMES[e['dt']]} len {e['len']} at bit {o}) "
                                  f"frame {bytes(pmap.data).hex()}: read {got!r} want {want!r}")
                return False
        return True

    if not read_all("initial"):
        return Outcome(nontrivial, klass, D)
    for n, op in enumerate(case["ops"]):
        k = op["var"] % len(layout)
        e, o, v = layout[k], offs[k], vars_[k]
        val = op["v"]
        mask = (1 << e["len"]) - 1
        want_F = (F & ~(mask << o)) | (enc_bits(e["dt"], e["len"], val) << o)
        tag = (f"write {n}: variable {k} ({rc.NAMES[e['dt']]} len {e['len']} at bit {o}) = {val!r} "
               f"on frame {bytes(pmap.data).hex()}")
        try:
            v.raw = val
        except Exception as ex:
            bad("write-raises", f"{tag}: {type(ex).__name__}: {ex}")
            break
        got_F = int.from_bytes(bytes(pmap.data), "little")
        if len(pmap.data) != nbytes:
            bad("write-changed-length", f"{tag}: frame length became {len(pmap.data)}")
            break
        if got_F != want_F:
            diff = got_F ^ want_F
            where = "field" if diff & (mask << o) and not diff & ~(mask << o) else \
                "neighbour" if not diff & (mask << o) else "field+neighbour"
            bad(f"write-bits/{where}", f"{tag}: frame became {bytes(pmap.data).hex()} want "
                                       f"{want_F.to_bytes(nbytes, 'little').hex()}")
            break
        F = want_F
        if not read_all(f"after {tag}"):
            break
    return Outcome(nontrivial, klass, D)


# ---- generation ------------------------------------------------------------
FULL = sorted(rc.INTEGERS) + sorted(rc.REALS)


def values_for(dt, ln):
    if dt == rc.BOOLEAN:
        return [False, True]
    if dt in rc.SIGNED:
        lo, hi = -(1 << (ln - 1)), (1 << (ln - 1)) - 1
        return sorted({lo, lo + 1, -1, 0, 1, hi - 1, hi} & set(range(lo, hi + 1)) if ln <= 16 else
                      {lo, lo + 1, -1, 0, 1, hi - 1, hi, -(1 << (ln // 2)), (1 << (ln // 2)) + 1})
    if dt in rc.UNSIGNED:
        hi = (1 << ln) - 1
        return sorted({0, 1, hi, hi - 1, hi >> 1, (hi >> 1) + 1} & set(range(0, hi + 1)) if ln <= 16 else
                      {0, 1, hi, hi - 1, hi >> 1, (hi >> 1) + 1, 0x5555555555555555 & hi})
    if dt == rc.REAL32:
        return [0.0, -0.0, 1.5, -2.75, float("inf"), float("-inf"), 1.401298464324817e-45,
                3.4028234663852886e38, -1.1754943508222875e-38]
    return [0.0, -0.0, 1.5, -2.75, float("inf"), float("-inf"), 5e-324, 1.7976931348623157e308,
            -2.2250738585072014e-308, 0.1]


def fillers(bits):
    """Fields that use exactly `bits` bits, as sub-byte / byte fields."""
    out = []
    k = 0
    while bits > 0:
        ln = min(8, bits) if k % 2 == 0 else min(bits, 1 + (bits % 7))
        dt = [rc.UNSIGNED8, rc.INTEGER8, rc.BOOLEAN][k % 3]
        if dt == rc.BOOLEAN and ln not in (1, 8):
            dt = rc.UNSIGNED8
        out.append({"dt": dt, "len": ln})
        bits -= ln
        k += 1
    return out[:7] if len(out) <= 7 else None


def enum_cases():
    frames = [bytes(8), b"\xff" * 8, bytes([0xA5, 0x5A, 0x3C, 0xC3, 0x0F, 0xF0, 0x69, 0x96])]
    for off in range(0, 64):
        pre = fillers(off)
        if pre is None:
            pre = []
            rest = off
            while rest > 0:
                ln = min(8, rest)
                pre.append({"dt": rc.UNSIGNED8, "len": ln})
                rest -= ln
        if len(pre) > 7:
            continue
        for dt in FULL + [rc.BOOLEAN]:
            lens = [rc.width(dt)] if dt != rc.BOOLEAN else [1, 8]
            if dt in SUB8:
                lens = list(range(1, 9))
            for ln in lens:
                if off + ln > 64:
                    continue
                layout = pre + [{"dt": dt, "len": ln}]
                tail = 64 - off - ln
                if tail and len(layout) < 8:
                    layout.append({"dt": rc.UNSIGNED8 if tail % 2 else rc.INTEGER8, "len": min(8, tail)})
                k = len(pre)
                vals = values_for(dt, ln)
                if ln <= 8 and dt != rc.BOOLEAN:
                    lo = -(1 << (ln - 1)) if dt in rc.SIGNED else 0
                    vals = list(range(lo, lo + (1 << ln)))      # all 2^len field values
                for fi, fr in enumerate(frames):
                    ops = [{"var": k, "v": v} for v in (vals if fi < 2 or len(vals) <= 16 else vals[::5])]
                    if len(layout) > k + 1:
                        nb = layout[k + 1]
                        ops.insert(1, {"var": k + 1, "v": values_for(nb["dt"], nb["len"])[0]})
                    yield {"layout": layout, "frame": fr, "ops": ops}


@st.composite
def layout_case(draw):
    layout = []
    remaining = 64
    n = draw(st.integers(1, 8))
    for _ in range(n):
        opts = []
        for dt in FULL:
            if rc.width(dt) <= remaining:
                opts.append((dt, rc.width(dt)))
        if remaining >= 1:
            opts.append((rc.BOOLEAN, 1))
            opts.append((rc.INTEGER8, None))
            opts.append((rc.UNSIGNED8, None))
            opts.append((rc.BOOLEAN, 1))
        if remaining >= 8:
            opts.append((rc.BOOLEAN, 8))
        if not opts:
            break
        dt, ln = draw(st.sampled_from(opts))
        if ln is None:
            ln = draw(st.integers(1, min(8, remaining)))
        layout.append({"dt": dt, "len": ln})
        if draw(st.integers(0, 3)) == 0:
            layout[-1]["sub"] = draw(st.sampled_from([1, 2, 7, 254]))
        if dt in rc.INTEGERS and draw(st.integers(0, 4)) == 0:
            # declared limits (they are advisory: the library logs a warning, nothing else)
            lo_t, hi_t = rc.int_range(dt)
            a, b = sorted((draw(st.integers(lo_t, hi_t)), draw(st.integers(lo_t, hi_t))))
            layout[-1]["lim"] = [a, b]
        remaining -= ln
    frame = draw(st.one_of(st.just(bytes(8)), st.just(b"\xff" * 8), st.binary(min_size=8, max_size=8)))
    ops = []
    for _ in range(draw(st.integers(1, 10))):
        k = draw(st.integers(0, len(layout) - 1))
        e = layout[k]
        dt, ln = e["dt"], e["len"]
        if dt == rc.BOOLEAN:
            v = draw(st.booleans())
        elif dt in rc.SIGNED:
            lo, hi = -(1 << (ln - 1)), (1 << (ln - 1)) - 1
            v = draw(st.one_of(st.sampled_from([lo, -1, 0, hi]), st.integers(lo, hi)))
        elif dt in rc.UNSIGNED:
            hi = (1 << ln) - 1
            v = draw(st.one_of(st.sampled_from([0, hi]), st.integers(0, hi)))
        elif dt == rc.REAL32:
            v = draw(st.floats(width=32, allow_nan=False))
        else:
            v = draw(st.floats(allow_nan=False))
        ops.append({"var": k, "v": v})
    case = {"layout": layout, "frame": frame, "ops": ops,
            "via": draw(st.sampled_from(["add", "add", "from_od"])),
            "lookup": draw(st.sampled_from(["direct", "direct", "node_name", "node_index", "map_name", "map_pos"]))}
    if len(layout) >= 2 and draw(st.integers(0, 3)) == 0:
        case["pre_same"] = draw(st.permutations(list(range(len(layout)))))
        case["via"] = "add"
        if draw(st.booleans()):
            # ... and some of them with another length then (total stays <= 64: only shrinking or equal)
            case["pre_len"] = [draw(st.integers(1, e["len"])) if (e["dt"] in SUB8 or e["dt"] == rc.BOOLEAN) and
                               e["len"] <= 8 else e["len"] for e in layout]
            case["pre_len"] = [1 if (e["dt"] == rc.BOOLEAN and ln not in (1, 8)) else ln
                               for e, ln in zip(layout, case["pre_len"])]
    elif draw(st.integers(0, 2)) == 0:
        pre = []
        rem = 64
        for _ in range(draw(st.integers(1, 4))):
            opts = [(dt, rc.width(dt)) for dt in FULL if rc.width(dt) <= rem] + ([(rc.UNSIGNED8, 3)] if rem >= 3 else [])
            if not opts:
                break
            dt, ln = draw(st.sampled_from(opts))
            pre.append({"dt": dt, "len": ln})
            rem -= ln
        case["pre"] = pre
    if case["via"] == "from_od":
        if case.get("pre") and draw(st.booleans()):
            case["own_clear"] = False
        if draw(st.integers(0, 3)) == 0:
            case["reread"] = draw(st.integers(1, 2))
    return case


def remap_cases():
    """A map that held a longer / shorter / equally long mapping before clear()."""
    long_ = [{"dt": rc.UNSIGNED64, "len": 64}]
    mid = [{"dt": rc.UNSIGNED8, "len": 8}, {"dt": rc.INTEGER16, "len": 16}, {"dt": rc.BOOLEAN, "len": 1}]
    short = [{"dt": rc.UNSIGNED8, "len": 5}]
    for pre in (long_, mid, short):
        for layout in (short, mid, long_, [{"dt": rc.INTEGER8, "len": 4}, {"dt": rc.UNSIGNED8, "len": 8},
                                           {"dt": rc.BOOLEAN, "len": 1}]):
            yield {"layout": layout, "pre": pre, "frame": bytes(8),
                   "ops": [{"var": 0, "v": values_for(layout[0]["dt"], layout[0]["len"])[-1]}]}


def config_path_cases():
    """Mapping taken from the dictionary with read(from_od=True): every type with its full length
    (64-bit objects included), and the same objects re-mapped in another order after node-level lookups."""
    for dt in FULL + [rc.BOOLEAN]:
        ln = rc.width(dt) if dt != rc.BOOLEAN else 1
        layout = [{"dt": rc.UNSIGNED8, "len": 3}, {"dt": dt, "len": ln}] if ln <= 56 else [{"dt": dt, "len": ln}]
        for lookup in ("direct", "node_name", "node_index"):
            yield {"layout": layout, "frame": bytes([0x5A] * 8), "via": "from_od", "lookup": lookup,
                   "ops": [{"var": len(layout) - 1, "v": values_for(dt, ln)[-1]}]}
    lay = [{"dt": rc.UNSIGNED8, "len": 4}, {"dt": rc.INTEGER16, "len": 16}, {"dt": rc.UNSIGNED8, "len": 8},
           {"dt": rc.BOOLEAN, "len": 1}]
    # read() replaces what the map object held: a second read(), or a read() over a hand-made mapping
    for extra in ({"reread": 1}, {"reread": 2}, {"pre": [{"dt": rc.UNSIGNED16, "len": 16}], "own_clear": False}):
        yield dict({"layout": lay, "frame": bytes([0xA5] * 8), "via": "from_od", "lookup": "direct",
                    "ops": [{"var": 0, "v": 9}, {"var": 1, "v": -2}, {"var": 2, "v": 200}, {"var": 3, "v": True}]},
                   **extra)
    # record members mapped by numeric sub-index, with sub-byte lengths; objects that declare limits
    mlay = [{"dt": rc.UNSIGNED8, "len": 4, "sub": 2}, {"dt": rc.BOOLEAN, "len": 1, "sub": 1},
            {"dt": rc.INTEGER8, "len": 3, "sub": 254, "lim": [0, 2]}, {"dt": rc.INTEGER16, "len": 16, "sub": 3},
            {"dt": rc.UNSIGNED8, "len": 8, "lim": [2, 10]}, {"dt": rc.INTEGER32, "len": 32, "lim": [-5, 5]}]
    for via in ("add", "from_od"):
        for lookup in ("direct", "node_name", "node_index", "map_name", "map_pos"):
            yield {"layout": mlay, "frame": bytes([0xC3] * 8), "via": via, "lookup": lookup,
                   "ops": [{"var": 0, "v": 13}, {"var": 1, "v": True}, {"var": 2, "v": -4}, {"var": 3, "v": -300},
                           {"var": 4, "v": 200}, {"var": 4, "v": 0}, {"var": 5, "v": -(2 ** 31)},
                           {"var": 5, "v": 2 ** 31 - 1}, {"var": 2, "v": 3}]}
    # the same objects were mapped with other lengths before clear()
    lay8 = [{"dt": rc.UNSIGNED8, "len": 8}, {"dt": rc.INTEGER8, "len": 8}, {"dt": rc.BOOLEAN, "len": 8},
            {"dt": rc.INTEGER8, "len": 3}]
    for pre_len in ([4, 8, 1, 3], [8, 5, 8, 1], [1, 1, 1, 2]):
        yield {"layout": lay8, "frame": bytes([0x3C] * 8), "pre_same": [0, 1, 2, 3], "pre_len": pre_len,
               "lookup": "direct", "ops": [{"var": 0, "v": 200}, {"var": 1, "v": -100}, {"var": 2, "v": True},
                                           {"var": 3, "v": -4}]}
    for perm in ([3, 2, 1, 0], [1, 0, 3, 2], [2, 3, 0, 1]):
        for lookup in ("node_name", "node_index", "map_name"):
            yield {"layout": lay, "frame": bytes(8), "pre_same": perm, "lookup": lookup,
                   "ops": [{"var": 0, "v": 9}, {"var": 1, "v": -2}, {"var": 2, "v": 200}, {"var": 3, "v": True}]}


def search(ctx):
    thorough = ctx.tier == "thorough"
    ctx.enumerate(enum_cases(), "every data type at every bit offset 0..63; all 2^len values of fields <= 8 bits")
    ctx.enumerate(remap_cases(), "maps re-mapped after clear() from a longer / shorter mapping")
    ctx.enumerate(config_path_cases(), "mapping taken from the dictionary; same objects re-mapped after lookups")
    ctx.hypothesis(layout_case(), 40000 if thorough else 4000)
