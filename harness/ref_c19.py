"""Reference CiA 402 drive for C19 (no canopen imports at module level).

Written from CiA 402-2 (power drive system finite state automaton, controlword
0x6040 command coding, statusword 0x6041 state coding, modes of operation
0x6060/0x6061, supported drive modes 0x6502), not from canopen/profiles/p402.py.

decode_state(sw)   statusword -> power state name or 'UNKNOWN'
RefDrive402        the drive: FSA with transitions 0..16, automatic transitions
                   after k statusword observations, free status bits, SDO server
                   (objects 0x6040/41/60/61, 0x6502 and the PDO parameters
                   0x1400../0x1600../0x1800../0x1A00..), RPDO consumer and TPDO
                   producer.
LockstepCondition  the drive's clock in the cyclic-PDO variants (single-threaded)
Feeder             free-running clock (a thread that is joined before run_case
                   returns).
"""
from __future__ import annotations

import struct
import threading
import time

from harness.refsdo import RefSdoServer
from harness.simbus import Frame

NRTSO = "NOT READY TO SWITCH ON"
SOD = "SWITCH ON DISABLED"
RTSO = "READY TO SWITCH ON"
SO = "SWITCHED ON"
OE = "OPERATION ENABLED"
QSA = "QUICK STOP ACTIVE"
FRA = "FAULT REACTION ACTIVE"
FAULT = "FAULT"
STATES = [NRTSO, SOD, RTSO, SO, OE, QSA, FRA, FAULT]
SHORT = {NRTSO: "NRTSO", SOD: "SOD", RTSO: "RTSO", SO: "SO", OE: "OE", QSA: "QSA", FRA: "FRA",
         FAULT: "FAULT"}
COMMANDABLE = [SOD, RTSO, SO, OE, QSA]
UNCOMMANDABLE = [NRTSO, FRA, FAULT]

# CiA 402 statusword state coding, bits 7..0 written as in the standard
# (x = not relevant for the state).  Bits 15..8 are never relevant.
PATTERN = {
    NRTSO: "x0xx0000",
    SOD:   "x1xx0000",
    RTSO:  "x01x0001",
    SO:    "x01x0011",
    OE:    "x01x0111",
    QSA:   "x00x0111",
    FRA:   "x0xx1111",
    FAULT: "x0xx1000",
}


def _matches(sw, pattern):
    for pos, ch in enumerate(pattern):
        bit = (sw >> (7 - pos)) & 1
        if ch == "1" and not bit:
            return False
        if ch == "0" and bit:
            return False
    return True


def decode_state(sw):
    hits = [s for s in STATES if _matches(sw, PATTERN[s])]
    if len(hits) > 1:  # the patterns of the standard are disjoint
        raise AssertionError(f"statusword {sw:#06x} matches {hits}")
    return hits[0] if hits else "UNKNOWN"


def base_word(state):
    """Statusword of the state with every not-relevant bit 0."""
    return int(PATTERN[state].replace("x", "0"), 2)


def free_mask(state):
    """Bits a conformant drive may set at will while in this state."""
    low = int("".join("1" if c == "x" else "0" for c in PATTERN[state]), 2)
    return 0xFF00 | low


# ---- modes of operation (CiA 402: 0x6060 value, 0x6502 bit) -------------------
MODES = {
    "NO MODE": (0, None),            # 0 = no mode change / no mode assigned: needs no bit
    "PROFILED POSITION": (1, 0),
    "VELOCITY": (2, 1),
    "PROFILED VELOCITY": (3, 2),
    "PROFILED TORQUE": (4, 3),
    "HOMING": (6, 5),
    "INTERPOLATED POSITION": (7, 6),
    "CYCLIC SYNCHRONOUS POSITION": (8, 7),
    "CYCLIC SYNCHRONOUS VELOCITY": (9, 8),
    "CYCLIC SYNCHRONOUS TORQUE": (10, 9),
}
MODE_NAMES = list(MODES)
CODE_TO_MODE = {c: n for n, (c, _b) in MODES.items()}


def mode_supported(name, supported_word):
    bit = MODES[name][1]
    return True if bit is None else bool((supported_word >> bit) & 1)


# ---- PDO layouts -----------------------------------------------------------------
# map number (1-based) -> list of (index, bits); cob ids follow the pre-defined
# connection set.  0x6064 / 0x607A are ballast objects (position actual / target).
LAYOUTS = {
    "none": {"rpdo": {}, "tpdo": {}},
    "A": {"rpdo": {1: [(0x6040, 16)]}, "tpdo": {1: [(0x6041, 16)]}},
    "B": {"rpdo": {1: [(0x6040, 16), (0x6060, 8)]}, "tpdo": {1: [(0x6041, 16), (0x6061, 8)]}},
    "C": {"rpdo": {1: [(0x6060, 8), (0x6040, 16)]}, "tpdo": {1: [(0x6061, 8), (0x6041, 16)]}},
    "D": {"rpdo": {1: [(0x607A, 32)], 2: [(0x607A, 32), (0x6040, 16)], 3: [(0x6060, 8)]},
          "tpdo": {1: [(0x6064, 32)], 3: [(0x6064, 32), (0x6041, 16)], 4: [(0x6061, 8)]}},
    "CW": {"rpdo": {1: [(0x6040, 16)]}, "tpdo": {1: [(0x6064, 32)]}},
    "SW": {"rpdo": {1: [(0x607A, 32)]}, "tpdo": {1: [(0x6041, 16)]}},
    "M": {"rpdo": {2: [(0x6060, 8)]}, "tpdo": {2: [(0x6061, 8)]}},
    # RPDOs under "rpdo_off" are configured (mapping present) but NOT valid (COB-ID bit 31 set):
    # the drive ignores frames on their ids, a master must not use them
    "E": {"rpdo_off": {1: [(0x6040, 16)]}, "rpdo": {2: [(0x6040, 16), (0x6060, 8)]}, "tpdo": {1: [(0x6041, 16)]}},
    # the same for TPDOs: a TPDO that maps the statusword but is not valid carries nothing - the
    # statusword travels by SDO (G) or in the valid TPDO behind it (H)
    "G": {"rpdo": {1: [(0x6040, 16)]}, "tpdo_off": {1: [(0x6041, 16)]}, "tpdo": {}},
    "H": {"rpdo": {1: [(0x6040, 16)]}, "tpdo_off": {1: [(0x6041, 16)]}, "tpdo": {2: [(0x6041, 16), (0x6061, 8)]}},
    # TPDO 2 is valid and synchronous (transmission type 1) but no SYNC is produced, so it never
    # comes; the event-driven TPDO 1 in front of it carries the statusword
    "I": {"rpdo": {1: [(0x6040, 16)]}, "tpdo": {1: [(0x6041, 16)]},
          "tpdo_sync": {2: [(0x6041, 16), (0x6064, 32)]}},
    "F": {"rpdo_off": {1: [(0x6040, 16)], 2: [(0x6060, 8), (0x6040, 16)]}, "rpdo": {}, "tpdo": {1: [(0x6041, 16)]}},
    # the controlword is mapped twice: in the event-driven RPDO 1 and, together with the target position, in the
    # synchronous RPDO 2 (transmission type 1) which nobody streams.  canopen documents "the first RPDO that
    # has that index configured" as the one it uses
    "J": {"rpdo": {1: [(0x6040, 16)]}, "rpdo_sync": {2: [(0x6040, 16), (0x607A, 32)]}, "tpdo": {1: [(0x6041, 16)]}},
    # the statusword is mapped in two valid TPDOs (as in the CiA 402 default mapping).  K: TPDO 1 is synchronous
    # and silent (no SYNC is produced), the event-driven TPDO 2 behind it carries every change - the mirror image
    # of I.  L: two event-driven TPDOs, both carry it (at different byte offsets)
    "K": {"rpdo": {1: [(0x6040, 16)]}, "tpdo_sync": {1: [(0x6041, 16)]},
          "tpdo": {2: [(0x6041, 16), (0x6061, 8)]}},
    "L": {"rpdo": {1: [(0x6040, 16), (0x6060, 8)]},
          "tpdo": {1: [(0x6041, 16)], 2: [(0x6061, 8), (0x6041, 16)]}},
}
RPDO_BASE = [0x200, 0x300, 0x400, 0x500]
TPDO_BASE = [0x180, 0x280, 0x380, 0x480]

OD_SPEC_TYPES = {0x6040: 0x06, 0x6041: 0x06, 0x6060: 0x02, 0x6061: 0x02, 0x6502: 0x07,
                 0x6064: 0x04, 0x607A: 0x04}


def od_spec(with_pdo=True):
    """Dictionary of the master side (plain JSON-able spec for odutil.build_od)."""
    U8, U16, U32 = 0x05, 0x06, 0x07
    spec = []
    if with_pdo:
        for base_c, base_m in ((0x1400, 0x1600), (0x1800, 0x1A00)):
            for i in range(4):
                spec.append({"kind": "record", "index": base_c + i, "name": f"com{base_c + i:04x}",
                             "members": [{"sub": 0, "name": "n", "dt": U8},
                                         {"sub": 1, "name": "cob", "dt": U32},
                                         {"sub": 2, "name": "type", "dt": U8},
                                         {"sub": 3, "name": "inhibit", "dt": U16},
                                         {"sub": 5, "name": "timer", "dt": U16}]})
                spec.append({"kind": "array", "index": base_m + i, "name": f"map{base_m + i:04x}",
                             "members": [{"sub": 0, "name": "n", "dt": U8}] +
                                        [{"sub": s, "name": f"e{s}", "dt": U32} for s in range(1, 9)]})
    names = {0x6040: "Controlword", 0x6041: "Statusword", 0x6060: "Modes of operation",
             0x6061: "Modes of operation display", 0x6502: "Supported drive modes",
             0x6064: "Position actual value", 0x607A: "Target position"}
    for index, dt in sorted(OD_SPEC_TYPES.items()):
        spec.append({"kind": "var", "index": index, "name": names[index], "dt": dt, "pdo": True})
    return spec


class Livelock(Exception):
    """Raised by the reference drive when the master keeps sending controlwords."""


class RefDrive402:
    """One CiA 402 axis.

    k       number of statusword observations (SDO reads of 0x6041 / clock ticks)
            that still see a transient state before its automatic transition
            (0: NOT READY TO SWITCH ON -> SWITCH ON DISABLED, 14: FAULT REACTION
            ACTIVE -> FAULT, and 12 when qs == 'auto').  k = 0: immediately.
    extras  list of 16-bit words; the n-th statusword produced carries
            extras[n % len] in the bits that are free in its state.
    qs      'stay': quick stop option code 5..8 (stays in QUICK STOP ACTIVE,
            transition 16 supported); 'auto': option code 1..3 (transition 12 is
            automatic after k observations, 16 not available).
    kmode   number of reads of 0x6061 that still show the old mode.
    level   False: a command acts when its controlword is received; True: the
            latched controlword is also evaluated again whenever a state is
            entered (both styles exist; fault reset is edge-triggered in both).
    A case that makes the drive receive more than LIVELOCK_LIMIT controlwords is
    cut short by raising Livelock out of the bus delivery.
    """

    LIVELOCK_LIMIT = 400

    def __init__(self, node_id, start=SOD, k=0, extras=(0,), qs="stay", cw0=0, supported=0,
                 display=0, kmode=0, layout="none", tpdo_tt=255, rpdo_tt=255, level=False,
                 timer_only=False, evt=0, cw_latency=0.0):
        self.node_id = node_id
        self.level = level
        self.timer_only = timer_only    # TPDOs only on the event timer (clock ticks), not on change
        self.k = k
        self.extras = list(extras) or [0]
        self.qs = qs
        self.supported = supported
        self.display = display          # value of 0x6061
        self.pending_mode = None
        self.kmode = kmode
        self.mode_left = 0
        self.layout = LAYOUTS[layout]
        self.tpdo_tt = tpdo_tt
        self.rpdo_tt = rpdo_tt
        self.evt = evt                  # event timer / reception deadline (sub 5) of every PDO, ms
        self.cw_latency = cw_latency    # seconds the drive takes to act on (and confirm) a controlword by SDO
        self.lock = threading.RLock()
        self.hub = None
        self.port = None
        self.sdo = RefSdoServer(0x600 + node_id, 0x580 + node_id)
        self.sdo.read_hook = self._sdo_read
        self.sdo.write_hook = self._sdo_write
        self._fill_pdo_objects()
        # observation points
        self.trace = []                 # (state, cause)
        self.controlwords = []          # (value, 'sdo' | 'pdo')
        self.mode_writes = []           # (raw bytes / value, via)
        self.enables = 0                # entries into OPERATION ENABLED
        self.sw_count = 0               # statuswords produced
        self.sw_reads = 0               # SDO reads of 0x6041
        self.bad_access = []            # accesses a conformant master must not make
        self.observed = []              # state shown at every statusword observation (SDO read / time slice)
        self.tpdo_sent = {}             # TPDO number -> frames sent so far
        self.last_cw = cw0
        self.state = None
        self.auto_left = None
        self._dirty = False
        self.last_tx = {}
        self.last_cyclic = {}
        self._enter(start, "start")

    # ---- state machine -----------------------------------------------------------
    def _transient(self, state):
        return state in (NRTSO, FRA) or (state == QSA and self.qs == "auto")

    def _enter(self, state, cause):
        self.state = state
        self.trace.append((state, cause))
        self._dirty = True
        if state == OE:
            self.enables += 1
        self.auto_left = None
        if self._transient(state):
            if self.k == 0:
                self._auto()
            else:
                self.auto_left = self.k
        elif self.level and cause != "start":
            self._command(self.last_cw, self.last_cw, "+lvl")

    def _auto(self):
        nxt = {NRTSO: (SOD, "auto1"), FRA: (FAULT, "auto14"), QSA: (SOD, "auto12")}[self.state]
        self._enter(*nxt)

    def observe(self):
        """One statusword observation: a pending automatic transition fires when
        its k observations are used up."""
        if self.auto_left is not None:
            if self.auto_left == 0:
                self._auto()
            else:
                self.auto_left -= 1
        self.observed.append(self.state)

    mode_rx = None      # last value received for 0x6060 (repeats of a cyclic RPDO included)
    force_sw = None     # decode family: answer with this word whatever the state
    last_word = None
    last_tpdo_word = None

    def statusword(self):
        extra = self.extras[self.sw_count % len(self.extras)]
        self.sw_count += 1
        word = base_word(self.state) | (extra & free_mask(self.state))
        if self.force_sw is not None:
            word = self.force_sw
        self.last_word = word
        return word

    def fault(self):
        """Transition 13: a fault occurs."""
        with self.lock:
            if self.state not in (FRA, FAULT):
                self._enter(FRA, "t13")
            self._emit_event_tpdos()

    def on_controlword(self, cw, via, repeat=False):
        """repeat: the unchanged frame of a cyclic RPDO task - it acts on the drive
        like any reception but is not counted as a new controlword of the master."""
        if not repeat:
            self.controlwords.append((cw, via))
            if len(self.controlwords) > self.LIVELOCK_LIMIT:
                raise Livelock(f"{len(self.controlwords)} controlwords received, last {cw:#06x}")
        prev, self.last_cw = self.last_cw, cw
        self._command(cw, prev, "")

    def _command(self, cw, prev, sfx):
        st = self.state
        if st in (NRTSO, FRA):
            return
        if st == FAULT:
            if cw & 0x80 and not prev & 0x80:
                self._enter(SOD, "t15" + sfx)
            return
        b0, b1, b2, b3 = cw & 1, (cw >> 1) & 1, (cw >> 2) & 1, (cw >> 3) & 1
        disable_voltage = not b1
        quick_stop = b1 and not b2
        shutdown = b2 and b1 and not b0
        switch_on = b2 and b1 and b0 and not b3       # = disable operation
        enable_op = b2 and b1 and b0 and b3           # = switch on + enable operation
        if st == SOD:
            if shutdown:
                self._enter(RTSO, "t2" + sfx)
        elif st == RTSO:
            if switch_on:
                self._enter(SO, "t3" + sfx)
            elif enable_op:
                self._enter(SO, "t3" + sfx)
                if self.state == SO:
                    self._enter(OE, "t4auto" + sfx)
            elif disable_voltage or quick_stop:
                self._enter(SOD, "t7" + sfx)
        elif st == SO:
            if enable_op:
                self._enter(OE, "t4" + sfx)
            elif shutdown:
                self._enter(RTSO, "t6" + sfx)
            elif disable_voltage or quick_stop:
                self._enter(SOD, "t10" + sfx)
        elif st == OE:
            if switch_on:
                self._enter(SO, "t5" + sfx)
            elif shutdown:
                self._enter(RTSO, "t8" + sfx)
            elif disable_voltage:
                self._enter(SOD, "t9" + sfx)
            elif quick_stop:
                self._enter(QSA, "t11" + sfx)
        elif st == QSA:
            if disable_voltage:
                self._enter(SOD, "t12" + sfx)
            elif enable_op and self.qs == "stay":
                self._enter(OE, "t16" + sfx)

    def on_mode(self, code, via, repeat=False):
        self.mode_rx = code
        if repeat:
            return
        self.mode_writes.append((code, via))
        if self.kmode == 0:
            self.display = code
            self._dirty = True
        else:
            self.pending_mode = code
            self.mode_left = self.kmode

    def _mode_display(self):
        if self.pending_mode is not None:
            if self.mode_left == 0:
                self.display = self.pending_mode
                self.pending_mode = None
                self._dirty = True
            else:
                self.mode_left -= 1
        return self.display

    # ---- SDO object semantics ----------------------------------------------------
    def _fill_pdo_objects(self):
        st = self.sdo.store
        for kind, com, mp, bases, tt in (("rpdo", 0x1400, 0x1600, RPDO_BASE, self.rpdo_tt),
                                         ("tpdo", 0x1800, 0x1A00, TPDO_BASE, self.tpdo_tt)):
            for i in range(4):
                entries = self.layout[kind].get(i + 1)
                cob = bases[i] + self.node_id
                this_tt = tt
                if not entries and self.layout.get(kind + "_sync", {}).get(i + 1):
                    entries = self.layout[kind + "_sync"][i + 1]
                    this_tt = 1
                elif not entries:
                    cob |= 0x80000000
                    entries = self.layout.get(kind + "_off", {}).get(i + 1)
                st[(com + i, 0)] = b"\x05"
                st[(com + i, 1)] = struct.pack("<L", cob)
                st[(com + i, 2)] = bytes([this_tt])
                st[(com + i, 3)] = struct.pack("<H", 0)
                st[(com + i, 5)] = struct.pack("<H", self.evt)
                entries = entries or []
                st[(mp + i, 0)] = bytes([len(entries)])
                for s in range(1, 9):
                    v = 0
                    if s <= len(entries):
                        v = (entries[s - 1][0] << 16) | entries[s - 1][1]
                    st[(mp + i, s)] = struct.pack("<L", v)

    def _sdo_read(self, index, sub):
        with self.lock:
            if index == 0x6041 and sub == 0:
                self.sw_reads += 1
                self.observe()
                word = self.statusword()
                self._emit_event_tpdos()
                return struct.pack("<H", word)
            if index == 0x6061 and sub == 0:
                v = self._mode_display()
                self._emit_event_tpdos()
                return struct.pack("<b", v)
            if index == 0x6502 and sub == 0:
                return struct.pack("<L", self.supported)
            if index == 0x6060 and sub == 0:
                return struct.pack("<b", self.display)
            if index == 0x6040 and sub == 0:
                return struct.pack("<H", self.last_cw)
            if index in (0x6064, 0x607A) and sub == 0:
                return bytes(4)
            if 0x1400 <= index <= 0x1BFF:
                return None            # from the store (absent -> 0x06020000 / sub-index)
            self.bad_access.append(("read", index, sub))
            return 0x06020000

    def _sdo_write(self, index, sub, data):
        with self.lock:
            if index == 0x6040 and sub == 0:
                if len(data) != 2:
                    self.bad_access.append(("write-length", index, sub, bytes(data)))
                    return 0x06070010
                if self.cw_latency:
                    import time
                    time.sleep(self.cw_latency)     # a slow but conformant drive
                self.on_controlword(struct.unpack("<H", data)[0], "sdo")
                self._emit_event_tpdos()
                return None
            if index == 0x6060 and sub == 0:
                if len(data) != 1:
                    self.bad_access.append(("write-length", index, sub, bytes(data)))
                    self.mode_writes.append((bytes(data), "sdo"))
                    return 0x06070010
                self.on_mode(struct.unpack("<b", data)[0], "sdo")
                self._emit_event_tpdos()
                return None
            if index in (0x6041, 0x6061, 0x6502):
                self.bad_access.append(("write-ro", index, sub, bytes(data)))
                return 0x06010002
            if 0x1400 <= index <= 0x1BFF or index == 0x607A:
                return None
            self.bad_access.append(("write", index, sub, bytes(data)))
            return 0x06020000

    # ---- bus -----------------------------------------------------------------------
    def attach(self, hub):
        self.hub = hub
        self.port = hub.port("drive", handler=self._on_frame)
        self.sdo.port = self.port
        self.rpdo_ids = {RPDO_BASE[n - 1] + self.node_id: ent
                         for n, ent in self.layout["rpdo"].items()}
        self.rpdo_off_ids = {RPDO_BASE[n - 1] + self.node_id for n in self.layout.get("rpdo_off", {})}
        # valid synchronous RPDOs: the data would take effect at the next SYNC, which never comes here
        self.rpdo_sync_ids = {RPDO_BASE[n - 1] + self.node_id for n in self.layout.get("rpdo_sync", {})}
        return self.port

    def _on_frame(self, fr):
        if fr.remote:
            return
        if fr.can_id == self.sdo.rx_id:
            self.sdo._on_frame(fr)
        elif fr.can_id in self.rpdo_ids:
            with self.lock:
                self._on_rpdo(self.rpdo_ids[fr.can_id], fr.data)
                self._emit_event_tpdos()
        elif fr.can_id in getattr(self, "rpdo_off_ids", ()):
            # ignored, like every frame a device is not configured to receive
            self.bad_access.append(("frame-to-invalid-rpdo", fr.can_id, bytes(fr.data)))

    def _on_rpdo(self, entries, data, repeat=False):
        need = sum(b for _i, b in entries) // 8
        if len(data) < need:
            self.bad_access.append(("rpdo-short", len(data), need))
            return
        pos = 0
        cw = mode = None
        for index, bits in entries:
            raw = data[pos:pos + bits // 8]
            pos += bits // 8
            if index == 0x6040:
                cw = struct.unpack("<H", raw)[0]
            elif index == 0x6060:
                mode = struct.unpack("<b", raw)[0]
        if mode is not None:
            self.on_mode(mode, "pdo", repeat)
        if cw is not None:
            self.on_controlword(cw, "pdo", repeat)

    def _tpdo_frames(self, only_changed):
        out = []
        for n, entries in sorted(self.layout["tpdo"].items()):
            key = [self.state if index == 0x6041 else self.display if index == 0x6061 else 0
                   for index, _bits in entries]
            if only_changed and self.last_tx.get(n) == key:
                continue
            self.last_tx[n] = key
            data = b""
            for index, bits in entries:
                if index == 0x6041:
                    self.last_tpdo_word = self.statusword()
                    data += struct.pack("<H", self.last_tpdo_word)
                elif index == 0x6061:
                    data += struct.pack("<b", self.display)
                else:
                    data += bytes(bits // 8)
            out.append(Frame(TPDO_BASE[n - 1] + self.node_id, data, src=self.port))
            self.tpdo_sent[n] = self.tpdo_sent.get(n, 0) + 1
        return out

    def _send(self, frames):
        for fr in frames:
            fr.ts = self.hub.now()
            self.port.sent.append(fr)
            self.hub.route(fr)

    def _emit_event_tpdos(self):
        """Event-driven TPDOs (transmission type 254/255): sent when a mapped
        object changed."""
        if self.port is None or self.tpdo_tt < 254 or self.timer_only or not self._dirty:
            return
        self._dirty = False
        self._send(self._tpdo_frames(only_changed=True))

    def idle_slice(self):
        """Event-driven variants with a pending automatic transition: a stretch of time passes in
        which the master only waits - one observation; what changed is reported by event TPDO."""
        with self.lock:
            self.observe()
            self._mode_display()
            self._emit_event_tpdos()

    def announce(self):
        """All TPDOs once (what a drive does when it enters NMT OPERATIONAL)."""
        with self.lock:
            self._dirty = False
            self._send(self._tpdo_frames(only_changed=False))

    def clock_tick(self, cyclic_rpdo_tasks=()):
        """Cyclic variants: one communication cycle = cyclic RPDOs of the master
        arrive, the drive's automatic transitions advance, a SYNC is seen, every
        TPDO is sent."""
        with self.lock:
            for task in cyclic_rpdo_tasks:
                m = task.msg
                if m.arbitration_id in self.rpdo_ids:
                    data = bytes(m.data)
                    repeat = self.last_cyclic.get(m.arbitration_id) == data
                    self.last_cyclic[m.arbitration_id] = data
                    self._on_rpdo(self.rpdo_ids[m.arbitration_id], data, repeat)
            self.observe()
            self._mode_display()
            self._dirty = False
            if self.tpdo_tt < 254:
                self._send([Frame(0x80, b"", src=self.port)])
            self._send(self._tpdo_frames(only_changed=False))


class LockstepCondition:
    """Stand-in for PdoMap.receive_condition (a public attribute) in the cyclic
    variants: when the master blocks in wait_for_reception, exactly one bus
    cycle of the drive takes place (its TPDOs arrive *while the master waits*),
    then the wait returns.  Single-threaded and deterministic."""

    def __init__(self, on_wait):
        self.on_wait = on_wait
        self.waits = 0

    def __enter__(self):
        return self

    def __exit__(self, *exc):
        return False

    def acquire(self, *a, **kw):
        return True

    def release(self):
        pass

    def wait(self, timeout=None):
        self.waits += 1
        self.on_wait()
        return True

    def notify(self, n=1):
        pass

    def notify_all(self):
        pass


class Feeder(threading.Thread):
    """Free-running clock of the drive (real thread, real Condition objects in
    canopen): one bus cycle every ``period`` seconds, whatever the master does.
    Only used when no automatic transition can be pending, so that the outcome
    does not depend on the interleaving.  Joined before run_case returns."""

    def __init__(self, drive, hub, period=0.0003):
        super().__init__(daemon=True)
        self.drive = drive
        self.hub = hub
        self.period = period
        self.stop_flag = False
        self.cycles = 0
        self.error = None

    def run(self):
        try:
            while not self.stop_flag:
                self.drive.clock_tick(self.hub.live_tasks())
                self.cycles += 1
                time.sleep(self.period)
        except BaseException as e:  # surfaced by the rig as a harness error
            self.error = e

    def finish(self):
        self.stop_flag = True
        self.join(10)
        if self.is_alive():
            raise RuntimeError("feeder thread did not stop")
        if self.error is not None:
            raise self.error
