"""C07 - a disturbed SDO transfer fails loudly and does not poison the next one.

SUT: SdoClient.request_response/read_response/abort and all four stream
classes.  Peers: RefSdoServer (answers protocol errors with an abort, never
raises) and, for the non-block kinds, canopen's own SdoServer on a second
network ("the same server" clause).  One disturbance per transfer, followed
by an undisturbed transfer of a different payload on the same client/server.
"""
import struct

from hypothesis import strategies as st

from harness.core import Discrepancy, Outcome
from harness.odutil import build_od
from harness.refsdo import RefSdoServer
from harness.simbus import Frame, Hub

PROPERTY = "C07"
LEVEL = "fault_enumeration"
RULE = ("case = (transfer kind in {expedited/segmented download with/without size, expedited/segmented upload "
        "with/without size, block download, block upload}, payload length on both sides of the framing "
        "boundaries, ordinal k of the server->client frame to disturb, disturbance in {drop; replace by "
        "abort(code); flip toggle; wrong command specifier; wrong multiplexer (frames that carry one); duplicate "
        "at once; duplicate delivered after the next request; stale frame (responses of every type incl. abort "
        "frames) injected before the request / between request k and its response; dropped response delivered "
        "late - after the timed-out call or between the follow-up's request and response}, peer in {reference "
        "server, canopen's SdoServer}), then an undisturbed follow-up transfer. Families: (1) kind x length x "
        "ordinal x disturbance x peer; (2) the same for the kinds run against both peers with the follow-up "
        "kinds family 1 does not pair with that peer; (3) block upload x every ordinal incl. the last segments "
        "of a 127-segment sub-block, the second sub-block and the end response x disturbance x server CRC "
        "support off/on x size announced or not; (4) stale abort frames at every request of every kind; "
        "Hypothesis: random cases of all kinds + block uploads with CRC off half of the time, any ordinal, stale "
        "frames shaped like block segments. Oracle: normal return => exact data (upload) / exact commit "
        "(download; an injected abort models a server that aborted, so nothing is committed then); otherwise "
        "SdoCommunicationError or SdoAbortedError (with the injected code for abort disturbances); a lost "
        "response => abort frame 80 .. 00 00 04 05 from the client whether the call raises or returns (only a "
        "block upload that completes by retransmission after losing a block SEGMENT owes none); follow-up "
        "succeeds with exact data. Excluded and counted: injected / duplicated frames no CiA 301 client can "
        "tell from the response it is waiting for (same specifier and toggle / multiplexer / sub-command / "
        "block sequence number), and wrong data after an ALTERED frame that differs from the genuine one only "
        "in a field nothing but the CRC covers (n of a block upload end, c flag of a block segment) while no CRC "
        "is in effect. Wrong data after any other disturbance of a block upload is a violation, CRC or not. "
        "Non-trivial = the disturbance actually hit; distinct = canonical JSON.")
ASSUMPTIONS = [
    "RESPONSE_TIMEOUT is set to 3 ms (public class attribute); delivery is inline so only dropped frames time out",
    "a stale or duplicated frame that has the same command specifier and toggle bit (segments), multiplexer "
    "(initiate responses), sub-command (block responses) or sequence number (block segments) as the genuine "
    "response the client is waiting for at that point is indistinguishable by protocol and excluded; a frame "
    "with another sequence number / sub-command / specifier is distinguishable also when no CRC is negotiated",
    "wrong-multiplexer disturbances are applied only to frames that carry a multiplexer",
    "only block upload segments can be recovered after a loss (retransmission request); every other response "
    "is awaited in lock step, so its loss must end in the time-out abort",
    "an abort frame in place of a download response means the server did not write the object",
]
BUDGET = {"quick": 150, "thorough": 420}
NODE = 2
RX, TX = 0x600 + NODE, 0x580 + NODE
TIMEOUT_ABORT = bytes([0x80, 0, 0, 0, 0, 0, 0x04, 0x05])

KINDS = ["exp_dl", "seg_dl_size", "seg_dl_nosize", "exp_ul", "exp_ul_nosize", "seg_ul_size", "seg_ul_nosize",
         "blk_dl", "blk_ul"]
IDX, SUB = 0x2000, 0
IDX2, SUB2 = 0x2001, 0
DOWNLOADS = ("exp_dl", "seg_dl_size", "seg_dl_nosize", "blk_dl")


def payload(n, salt):
    return bytes(((i * 23 + salt * 3) % 255) + 1 for i in range(n))


class Rig:
    def __init__(self, peer):
        import canopen
        self.peer = peer
        self.hub = Hub()
        od = [{"kind": "var", "index": IDX, "name": "a", "dt": 0xF},
              {"kind": "var", "index": IDX2, "name": "b", "dt": 0xF}]
        if peer == "ref":
            self.srv = RefSdoServer(RX, TX)
            self.sport = self.srv.attach(self.hub)
        else:
            self.net_s, self.sport = self.hub.attach("server")
            self.local = canopen.LocalNode(NODE, build_od(od))
            self.net_s.add_node(self.local)
        self.net, self.cport = self.hub.attach("client")
        self.node = canopen.RemoteNode(NODE, build_od(od))
        self.net.add_node(self.node)
        self.client = self.node.sdo
        self.client.RESPONSE_TIMEOUT = 0.003

    def set_value(self, index, sub, data, style=None):
        if self.peer == "ref":
            self.srv.store[(index, sub)] = bytes(data)
            self.srv.upload_style = (lambda i, s, d: style) if style else None
        else:
            self.local.data_store.setdefault(index, {})[sub] = bytes(data)

    def committed(self, index, sub):
        if self.peer == "ref":
            return self.srv.store.get((index, sub))
        return self.local.data_store.get(index, {}).get(sub)

    def clear(self, index, sub):
        if self.peer == "ref":
            self.srv.store.pop((index, sub), None)
        else:
            self.local.data_store.get(index, {}).pop(sub, None)

    def server_state(self):
        return self.srv.state if self.peer == "ref" else None


def do_transfer(rig, kind, index, sub, data):
    """-> ('ok', returned_bytes_or_None) | ('exc', exception)"""
    c = rig.client
    try:
        if kind == "exp_dl":
            c.download(index, sub, data)
            return ("ok", None)
        if kind == "seg_dl_size":
            c.download(index, sub, data, force_segment=True)
            return ("ok", None)
        if kind == "seg_dl_nosize":
            with c.open(index, sub, "wb", size=None, buffering=1024) as fp:
                fp.write(data)
            return ("ok", None)
        if kind in ("exp_ul", "exp_ul_nosize", "seg_ul_size", "seg_ul_nosize"):
            return ("ok", bytes(c.upload(index, sub)))
        if kind == "blk_dl":
            with c.open(index, sub, "wb", size=len(data), block_transfer=True, buffering=1024) as fp:
                fp.write(data)
            return ("ok", None)
        if kind == "blk_ul":
            with c.open(index, sub, "rb", block_transfer=True, buffering=0) as fp:
                return ("ok", bytes(fp.read()))
        raise ValueError(kind)
    except Exception as e:  # judged by the oracle
        # keep a summary only: holding the exception would keep the failed stream object alive
        # (traceback -> frame -> stream) and postpone whatever its destructor does; user code
        # that catches the error lets go of it before the next transfer
        info = ExcInfo(type(e), str(e), getattr(e, "code", None))
    return ("exc", info)


class ExcInfo:
    def __init__(self, cls, text, code):
        self.cls, self.text, self.code = cls, text, code

    def is_a(self, *classes):
        return issubclass(self.cls, classes)

    def __str__(self):
        return f"{self.cls.__name__}: {self.text}"


STYLE = {"exp_ul": "exp_size", "exp_ul_nosize": "exp_nosize", "seg_ul_size": "seg_size",
         "seg_ul_nosize": "seg_nosize"}


def carries_mux(d, kind, phase):
    if phase == "blkseg":
        return False
    scs = d[0] >> 5
    if scs in (2, 3):
        return True
    if scs == 5 and (d[0] & 3) == 0 and kind == "blk_dl":
        return True
    if scs == 6 and (d[0] & 3) == 0 and kind == "blk_ul":
        return True
    return False


def confusable(F, R, phase):
    """Could any CiA 301 client take F for the response R it is waiting for?"""
    if F == R:
        return False            # identical bytes: harmless by definition
    if F[0] == 0x80 or R[0] == 0x80:
        return False
    if phase == "blkseg":
        # a block upload segment is identified by its sequence number alone: a different frame with
        # the sequence number the client is waiting for (other data, other c flag) can only be told
        # by the CRC - run_case settles whether one was in effect
        return (F[0] & 0x7F) == (R[0] & 0x7F)
    sf, sr = F[0] >> 5, R[0] >> 5
    if sf != sr:
        return False
    if sr in (0, 1):
        return (F[0] & 0x10) == (R[0] & 0x10)
    if sr in (2, 3):
        return F[1:4] == R[1:4]
    if (F[0] & 3) != (R[0] & 3):
        return False
    if (F[0] & 3) == 0:
        return F[1:4] == R[1:4]
    return True


class Disturber:
    def __init__(self, rig, case):
        self.rig = rig
        self.dist = case["dist"]
        self.k = case["k"]
        self.kind = case["kind"]
        self.n_resp = 0
        self.n_req = 0
        self.active = True
        self.hit = None          # the genuine frame the disturbance was applied to
        self.late = None         # dropped frame to be delivered later
        self.pending_dup = None
        self.injected = []       # (frame bytes, index of the next genuine response)
        self.responses = []      # (bytes, phase) of genuine server frames
        self.stale = bytes(case["dist"].get("stale", b"")) or None
        self.arm_between = False
        self.mux_na = False
        self.stale_abort = False
        self.crc_only = False    # an injected block segment only the CRC can tell from the genuine one
        self.hit_phase = None    # phase of the genuine frame the disturbance was applied to
        self.altered = None      # (frame put on the bus, genuine frame it replaces, phase)
        self.is_dl = case["kind"] in DOWNLOADS

    def phase(self):
        st_ = self.rig.server_state()
        if st_ is not None and st_ == RefSdoServer.BUL_ACK:
            return "blkseg"
        return "normal"

    def filter(self, fr, hub):
        what = self.dist["what"]
        if fr.can_id == TX:
            ph = self.phase()
            self.responses.append((bytes(fr.data), ph))
            i = self.n_resp
            self.n_resp += 1
            if not self.active or self.hit is not None or i != self.k:
                return [fr]
            if what in ("stale_before", "stale_between", "late_between_arm"):
                return [fr]
            d = bytearray(fr.data)
            self.hit = bytes(fr.data)
            self.hit_phase = ph
            if what in ("drop", "late_before", "late_between"):
                if what != "drop":
                    self.late = bytes(fr.data)
                return []
            if what == "abort":
                # models a server that aborted: the reference peer forgets the transfer too
                if self.rig.peer == "ref":
                    self.rig.srv._reset()
                if self.is_dl:
                    # ... and a server that aborts a download has not written the object, also when
                    # the abort takes the place of the confirmation of the last step
                    self.rig.clear(IDX, SUB)
                mux = d[1:4] if carries_mux(d, self.kind, ph) else bytes(3)
                return [self._mk(bytes([0x80]) + bytes(mux) + struct.pack("<L", self.dist["code"]), fr)]
            if what == "toggle":
                d[0] ^= 0x10
                self.altered = (bytes(d), bytes(fr.data), ph)
                return [self._mk(bytes(d), fr)]
            if what == "cs":
                scs = d[0] >> 5
                new = (scs + 1 + self.dist.get("delta", 0) % 6) % 8
                if new == 4:
                    new = 7
                d[0] = (new << 5) | (d[0] & 0x1F)
                self.altered = (bytes(d), bytes(fr.data), ph)
                return [self._mk(bytes(d), fr)]
            if what == "mux":
                if not carries_mux(d, self.kind, ph):
                    self.mux_na = True
                    self.hit = None
                    self.active = False
                    return [fr]
                which = self.dist.get("delta", 0) % 3
                d[1 + which] ^= 1 << (self.dist.get("delta", 0) % 8)
                self.altered = (bytes(d), bytes(fr.data), ph)
                return [self._mk(bytes(d), fr)]
            if what == "dup_now":
                # the copy arrives where the client waits for the genuine frame after this one
                self.injected.append((bytes(fr.data), len(self.responses)))
                return [fr, self._mk(bytes(fr.data), fr)]
            if what == "dup_later":
                self.pending_dup = bytes(fr.data)
                return [fr]
            raise ValueError(what)
        if fr.can_id == RX:
            j = self.n_req
            self.n_req += 1
            out = []
            if self.pending_dup is not None and fr.data[:1] != b"\x80":
                out.append(self._inject(self.pending_dup))
                self.pending_dup = None
            if self.active and what == "stale_between" and j == self.k and self.hit is None \
                    and fr.data[:1] != b"\x80":
                self.hit = self.stale
                out.append(self._inject(self.stale))
            if self.arm_between and self.late is not None and fr.data[:1] != b"\x80":
                out.append(self._inject(self.late))
                self.late = None
                self.arm_between = False
            out.append(fr)
            return out
        return [fr]

    def _mk(self, data, like):
        return Frame(TX, data, ts=like.ts, src=self.rig.sport)

    def _inject(self, data):
        if bytes(data)[:1] == b"\x80":
            # a stale frame that happens to be an abort frame: the client rightly gives the transfer
            # up without telling the server, which would only recover by its own time-out - emulated
            # before the follow-up (same as for the 'abort' disturbance)
            self.stale_abort = True
        self.injected.append((bytes(data), len(self.responses)))
        return Frame(TX, bytes(data), ts=self.rig.hub.now(), src=self.rig.sport)

    def undecidable(self, crc_on=False):
        """True when an injected frame could not be told from the genuine
        response that followed it by any client.  A block upload segment with the expected sequence
        number is told by the CRC when one is in effect (crc_on): that is not settled here but noted in
        ``crc_only`` for run_case."""
        for data, pos in self.injected:
            if pos < len(self.responses):
                r, ph = self.responses[pos]
                if confusable(data, r, ph):
                    if ph == "blkseg" and crc_on:
                        self.crc_only = True
                        continue
                    return True
        return False

    def extra_frame_heads_subblock(self, nseg):
        """True when a duplicated / stale frame was queued directly in front of the first segment of a block
        upload sub-block that is not the last one (see the known defect in run_case)."""
        for data, pos in self.injected:
            if pos < len(self.responses):
                r, ph = self.responses[pos]
                before = sum(1 for _, p in self.responses[:pos] if p == "blkseg")
                if ph == "blkseg" and (r[0] & 0x7F) == 1 and before + 127 < nseg:
                    return True
        return False

    def altered_confusable(self):
        """True when the frame that replaced the genuine one (toggle / cs / mux disturbance) differs from
        it only in a way no client can see: a reserved bit, the n field of a block upload end, the c flag
        of a block segment (the sequence number being the expected one)."""
        return self.altered is not None and confusable(*self.altered)


def run_case(case) -> Outcome:
    from canopen.sdo.exceptions import SdoAbortedError, SdoCommunicationError
    kind, n, what = case["kind"], case["len"], case["dist"]["what"]
    peer = case.get("peer", "ref")
    rig = Rig(peer)
    if peer == "ref":
        rig.srv.block_size_indicated = case.get("size_ind", True)
        rig.srv.crc_support = case.get("crc_srv", True)
    data = payload(n, case.get("salt", 1))
    is_dl = kind in ("exp_dl", "seg_dl_size", "seg_dl_nosize", "blk_dl")
    if is_dl:
        rig.clear(IDX, SUB)
    else:
        rig.set_value(IDX, SUB, data, STYLE.get(kind))
    dis = Disturber(rig, case)
    rig.hub.filter = dis.filter
    if what == "stale_before":
        dis.hit = dis.stale
        rig.hub.inject(Frame(TX, dis.stale, src=rig.sport))
        dis.injected.append((dis.stale, 0))
    mark = len(rig.cport.sent)
    res = do_transfer(rig, kind, IDX, SUB, data)
    dis.active = False
    if dis.stale_abort and peer == "ref":
        rig.srv._reset()
    client_frames = [f.data for f in rig.cport.sent[mark:] if f.can_id == RX]
    D = []
    tag = f"{kind} len {n} peer {peer} disturb {case['dist']} at k={case['k']}"
    if dis.hit is None:
        return Outcome(excluded="disturbance point beyond the end of the transfer" if not dis.mux_na
                       else "frame carries no multiplexer")
    crc_on = kind == "blk_ul" and peer == "ref" and rig.srv.crc_support
    if dis.undecidable(crc_on):
        return Outcome(excluded="injected frame indistinguishable by protocol from the genuine response")
    nseg = max(1, (n + 6) // 7)
    if res[0] == "ok" and (dis.altered_confusable() or dis.crc_only):
        wrong = (rig.committed(IDX, SUB) != data) if is_dl else (res[1] != data)
        if wrong:
            from harness.refcodec import crc16_xmodem
            if is_dl or not crc_on or crc16_xmodem(res[1]) == crc16_xmodem(data):
                # the altered (or, for block segments, injected) frame was a well-formed response of the
                # expected type with the expected toggle / multiplexer / sequence number: what it changed (n
                # field of a block upload end, c flag or data of a block segment) is covered by the CRC only.
                # Wrong data after any OTHER disturbance (a frame the protocol can tell: dropped, duplicated,
                # stale, other sequence number / toggle / specifier / sub-command) is judged below, CRC or not.
                return Outcome(excluded="frame altered in a way only a CRC could reveal, and none was in "
                                        "effect (or the CRC-16 collides)")

    def bad(kindname, detail):
        D.append(Discrepancy(f"C07/{kindname}", f"{tag}: {detail}"))

    if res[0] == "ok":
        outcome = "completed"
        if is_dl:
            got = rig.committed(IDX, SUB)
            if got != data:
                bad(f"{what}/success-with-wrong-commit", f"call returned normally, server holds "
                    f"{got.hex() if got is not None else None} want {data.hex()}")
        elif res[1] != data:
            bad(f"{what}/success-with-wrong-data", f"returned {res[1].hex()} want {data.hex()}")
    else:
        outcome = "raised"
        e = res[1]
        if not e.is_a(SdoCommunicationError, SdoAbortedError):
            bad(f"{what}/wrong-exception", f"{e}")
        elif what == "abort" and e.is_a(SdoAbortedError) and e.code != case["dist"]["code"]:
            # the injected abort may legitimately have been superseded only by the peer's own abort
            bad("abort/code", f"raised code {e.code:08x}, injected {case['dist']['code']:08x}")
        elif what == "abort" and not e.is_a(SdoAbortedError):
            bad("abort/not-aborted-error", f"{e}")
    if what in ("drop", "late_before", "late_between"):
        # "a lost response makes the client emit an abort frame with the time-out code" - whatever the call
        # reports afterwards. The one exception the protocol itself provides: a lost block upload SEGMENT
        # may be recovered by asking for retransmission (CiA 301 block upload sub-block confirm), so a block upload that
        # completes after losing a segment owes no abort; every other response is awaited in lock step
        # and cannot be recovered. The multiplexer bytes of the abort are not the property's subject
        # (the library sends 0000:00 today, CiA 301 asks for the multiplexer of the transfer).
        recovered = outcome == "completed" and kind == "blk_ul" and dis.hit_phase == "blkseg"
        if not D and not recovered and not any(
                bytes(f)[:1] == b"\x80" and bytes(f)[4:8] == TIMEOUT_ABORT[4:8] for f in client_frames):
            how = f"{res[1].cls.__name__} raised" if res[0] == "exc" else "the call returned normally"
            bad(f"{what}/no-timeout-abort", f"response lost, {how}, but the client sent "
                f"no abort 0x05040000 (its frames: {[bytes(f).hex() for f in client_frames[-3:]]})")
    # ---- follow-up -------------------------------------------------------
    if not D:
        if what == "late_before" and dis.late is not None:
            rig.hub.inject(Frame(TX, dis.late, src=rig.sport))
            dis.injected.append((dis.late, len(dis.responses)))
            dis.late = None
        if what == "late_between":
            dis.arm_between = True
        fk = case.get("follow", "seg_ul_size")
        n2 = case.get("follow_len", 9)
        data2 = payload(n2, case.get("salt", 1) + 7)
        f_dl = fk in ("exp_dl", "seg_dl_size", "seg_dl_nosize", "blk_dl")
        if f_dl:
            rig.clear(IDX2, SUB2)
        else:
            rig.set_value(IDX2, SUB2, data2, STYLE.get(fk))
        n_inj = len(dis.injected)
        res2 = do_transfer(rig, fk, IDX2, SUB2, data2)
        if dis.undecidable():
            return Outcome(excluded="late frame indistinguishable by protocol from the follow-up's response")
        if len(dis.injected) > n_inj and res2[0] != "ok":
            # the late frame landed inside this transfer, which is therefore a disturbed one itself:
            # it may fail loudly; the transfer after it must then succeed
            if not res2[1].is_a(SdoCommunicationError, SdoAbortedError):
                bad(f"{what}/follow-up-wrong-exception", f"{res2[1]}")
            else:
                if f_dl:
                    rig.clear(IDX2, SUB2)
                res2 = do_transfer(rig, fk, IDX2, SUB2, data2)
        if D:
            pass
        elif res2[0] != "ok":
            bad(f"{what}/follow-up-failed", f"undisturbed follow-up {fk} len {n2} raised {res2[1]}")
        elif f_dl and rig.committed(IDX2, SUB2) != data2:
            bad(f"{what}/follow-up-wrong-commit", f"follow-up {fk}: server holds "
                f"{rig.committed(IDX2, SUB2)} want {data2.hex()}")
        elif not f_dl and res2[1] != data2:
            bad(f"{what}/follow-up-wrong-data", f"follow-up {fk} returned {res2[1].hex()} want {data2.hex()}")
    return Outcome(True, f"{kind}/{what}/{outcome}/{peer}", D)


# ---- generation -----------------------------------------------------------------
STALE = [
    struct.pack("<BHB4x", 0x60, IDX, SUB), struct.pack("<BHB4x", 0x60, 0x1234, 5),
    struct.pack("<BHBL", 0x43, IDX, SUB, 0xDDCCBBAA), struct.pack("<BHBL", 0x4B, 0x1234, 5, 0x1122),
    struct.pack("<BHBL", 0x41, IDX, SUB, 11), struct.pack("<BHBL", 0x41, IDX2, SUB2, 5),
    bytes([0x00]) + b"STALE00", bytes([0x10]) + b"STALE10", bytes([0x01]) + b"STALE01",
    bytes([0x1D]) + b"S\0\0\0\0\0\0", bytes([0x20]) + bytes(7), bytes([0x30]) + bytes(7),
    bytes([0xA2, 3, 127]) + bytes(5), bytes([0xA1]) + bytes(7), struct.pack("<BHBB3x", 0xA4, IDX, SUB, 127),
    struct.pack("<BHBL", 0xC6, IDX, SUB, 9), bytes([0xC1 | (2 << 2), 0x12, 0x34]) + bytes(5),
    bytes([0x02]) + b"SEQ0002", bytes([0x81]) + b"LASTSEG", bytes([0x01]) + b"SEQ0001", bytes([0x03]) + b"SEQ0003",
    # responses for a neighbouring object: each differs from the expected multiplexer in one field only
    struct.pack("<BHBL", 0x43, IDX, SUB + 1, 0x0D0C0B0A), struct.pack("<BHBL", 0x43, IDX + 1, SUB, 0x0D0C0B0A),
    struct.pack("<BHBL", 0x43, IDX ^ 0x100, SUB, 0x0D0C0B0A), struct.pack("<BHBL", 0x41, IDX, SUB + 1, 6),
    struct.pack("<BHB4x", 0x60, IDX, SUB + 1), struct.pack("<BHBB3x", 0xA4, IDX, SUB + 1, 127),
    struct.pack("<BHBL", 0xC6, IDX, SUB + 1, 9), struct.pack("<BHBL", 0x42, IDX, SUB + 2, 0x04030201),
]
# abort frames left over from an earlier transfer (own multiplexer, none, a neighbour's); kept apart so that
# the first enumerated family and rand_case stay exactly what they were
STALE_ABORT = [struct.pack("<BHBL", 0x80, IDX, SUB, 0x05040000), struct.pack("<BHBL", 0x80, 0, 0, 0x08000000),
               struct.pack("<BHBL", 0x80, IDX, SUB + 1, 0x06020000)]
STALE_ALL = STALE + STALE_ABORT
CODES = [0x05040000, 0x06010002, 0x08000000, 0x00000000, 0xFFFFFFFF, 0x05030000]
LENS = {"exp_dl": [1, 4], "seg_dl_size": [1, 4, 5, 7, 8, 14, 15, 22], "seg_dl_nosize": [1, 5, 7, 8, 14, 15, 22],
        "exp_ul": [1, 4], "exp_ul_nosize": [4], "seg_ul_size": [1, 5, 7, 8, 14, 15, 22],
        "seg_ul_nosize": [4, 5, 7, 8, 14, 15, 22], "blk_dl": [1, 7, 8, 14, 15, 22, 889, 890],
        "blk_ul": [1, 7, 8, 14, 15, 22, 889, 890]}
FOLLOW = ["seg_ul_size", "exp_dl", "seg_dl_size", "exp_ul", "seg_ul_nosize", "seg_dl_nosize"]


def max_ordinal(kind, n):
    if kind in ("exp_dl", "exp_ul", "exp_ul_nosize"):
        return 1
    if kind.startswith("seg"):
        return 1 + max(1, (n + 6) // 7) + (1 if kind == "seg_dl_nosize" else 0)
    if kind == "blk_dl":
        return 3 + (n // 889)
    return min(8, 2 + (n + 6) // 7)


def blk_ul_last(n):
    """ordinal of the end response of an undisturbed block upload: initiate, the segments, end"""
    return 1 + max(1, (n + 6) // 7)


def ordinals(kind, n):
    ks = list(range(0, max_ordinal(kind, n) + 1))
    if kind == "blk_ul":
        # long uploads: the last segments of the first sub-block, the first of the second, the end
        # response and the first ordinal that does not exist
        last = blk_ul_last(n)
        ks += [k for k in range(last - 3, last + 2) if k > ks[-1]]
        ks += [k for k in (127, 128, 129) if ks[-1] < k <= last + 1 and k not in ks]
        ks.sort()
    return ks


def dists_for(n, k, i, slim=False, stale=None):
    stale = STALE if stale is None else stale
    dists = [{"what": "drop"}, {"what": "toggle"}, {"what": "dup_now"}, {"what": "dup_later"},
             {"what": "late_before"}, {"what": "late_between"}]
    dists += [{"what": "abort", "code": c} for c in (CODES if n <= 8 and not slim else CODES[:2])]
    dists += [{"what": "cs", "delta": d} for d in range(0, 6 if n <= 8 or slim else 2)]
    if not slim:
        dists += [{"what": "mux", "delta": d} for d in (0, 1, 10, 17, 23)]
    st_sel = stale if n in (1, 4, 7, 8) else stale[(i % 3)::3]
    dists += [{"what": "stale_between", "stale": s} for s in st_sel]
    if k == 0:
        dists += [{"what": "stale_before", "stale": s} for s in st_sel]
    return dists


def peers_for(kind, n):
    peers = ["ref"] if kind.startswith("blk") or kind in ("seg_dl_nosize", "exp_ul_nosize",
                                                          "seg_ul_nosize") else ["ref", "canopen"]
    if kind == "seg_ul_size" and n <= 4:
        peers = ["ref"]       # canopen's server answers <= 4 bytes expedited
    if kind == "seg_dl_nosize":
        peers = ["ref", "canopen"]
    return peers


FOLLOW_LEN = [9, 3, 16, 2, 12, 20]


def enum_cases():
    i = 0
    for kind in KINDS:
        for n in LENS[kind]:
            for k in range(0, max_ordinal(kind, n) + 1):
                for dist in dists_for(n, k, i):
                    for peer in peers_for(kind, n):
                        i += 1
                        case = {"kind": kind, "len": n, "k": k, "dist": dist, "peer": peer, "salt": i % 9,
                                "follow": FOLLOW[i % len(FOLLOW)], "follow_len": FOLLOW_LEN[i % 6]}
                        if kind == "blk_ul":
                            case["size_ind"] = i % 2 == 0
                            case["crc_srv"] = i % 5 != 0
                        yield case


def enum_follow_cases():
    """The first family hands out peer and follow-up kind from one counter, so for the kinds run against
    both peers each peer only ever meets half of the follow-up kinds: here the other half, for both."""
    i = 0
    for kind in KINDS:
        for n in LENS[kind]:
            peers = peers_for(kind, n)
            if len(peers) < 2:
                continue
            for k in ordinals(kind, n):
                for dist in dists_for(n, k, i):
                    if dist["what"].startswith("stale") and bytes(dist["stale"]) not in STALE[(i % 3)::3]:
                        i += len(peers)
                        continue
                    for peer in peers:
                        i += 1
                        yield {"kind": kind, "len": n, "k": k, "dist": dist, "peer": peer, "salt": (i + 4) % 9,
                               "follow": FOLLOW[(i + 1) % len(FOLLOW)], "follow_len": FOLLOW_LEN[(i + 1) % 6]}


def enum_stale_abort_cases():
    """an abort frame left over from an earlier transfer, at every request of every kind"""
    i = 0
    for kind in KINDS:
        for n in LENS[kind]:
            for k in ordinals(kind, n):
                if kind == "blk_ul" and k > 5:
                    continue          # a block upload has 4 or 5 client requests
                for what in ("stale_between", "stale_before")[:2 if k == 0 else 1]:
                    for s in STALE_ABORT:
                        for peer in peers_for(kind, n):
                            i += 1
                            case = {"kind": kind, "len": n, "k": k, "dist": {"what": what, "stale": s},
                                    "peer": peer, "salt": i % 9, "follow": FOLLOW[(i // 2) % len(FOLLOW)],
                                    "follow_len": FOLLOW_LEN[(i // 2) % 6]}
                            if kind == "blk_ul":
                                case["size_ind"] = i % 2 == 0
                                case["crc_srv"] = i % 3 != 0
                            yield case


BLK_UL_LENS = {"quick": [1, 7, 8, 14, 15, 22, 889, 890, 1778],
               "thorough": [1, 6, 7, 8, 13, 14, 15, 21, 22, 112, 113, 449, 455, 888, 889, 890, 1778, 1779]}


def enum_blk_ul_cases(tier):
    """Block upload with every response ordinal (segments of both sub-blocks and the end response included)
    disturbed, without and with CRC support of the server and with / without announced size: without a CRC
    the sequence numbers, the sub-commands and the command specifier are all a client has."""
    i = 0
    for n in BLK_UL_LENS[tier]:
        ks = ordinals("blk_ul", n)
        if n > 30:
            last = blk_ul_last(n)
            ks = [k for k in ks if k <= 3 or k >= last - 3 or k in (126, 127, 128)]
        for k in ks:
            for dist in dists_for(n, k, i, slim=True, stale=STALE_ALL):
                if dist["what"] == "stale_between" and k > 5:
                    continue          # a block upload has 4 or 5 client requests: no such injection point
                for crc in (False, True):
                    i += 1
                    if crc and i % 3:
                        continue      # the first family has CRC on in 4 of 5 cases already
                    yield {"kind": "blk_ul", "len": n, "k": k, "dist": dist, "peer": "ref", "salt": i % 11,
                           "size_ind": (i // 2) % 2 == 0, "crc_srv": crc,
                           "follow": (FOLLOW + ["blk_ul", "blk_dl"])[i % 8], "follow_len": FOLLOW_LEN[i % 6]}


@st.composite
def rand_case(draw):
    kind = draw(st.sampled_from(KINDS))
    if kind in ("exp_dl", "exp_ul"):
        n = draw(st.integers(1, 4))
    elif kind == "exp_ul_nosize":
        n = 4
    elif kind.startswith("blk"):
        n = draw(st.one_of(st.integers(1, 300), st.sampled_from([888, 889, 890, 1778, 1779])))
    else:
        n = draw(st.integers(5 if kind.startswith("seg_ul") else 1, 300))
    what = draw(st.sampled_from(["drop", "abort", "toggle", "cs", "mux", "dup_now", "dup_later", "stale_before",
                                 "stale_between", "late_before", "late_between"]))
    dist = {"what": what}
    if what == "abort":
        dist["code"] = draw(st.one_of(st.sampled_from(CODES), st.integers(0, 0xFFFFFFFF)))
    if what in ("cs", "mux"):
        dist["delta"] = draw(st.integers(0, 23))
    if what.startswith("stale"):
        dist["stale"] = draw(st.one_of(st.sampled_from(STALE), st.binary(min_size=8, max_size=8)))
    k = 0 if what == "stale_before" else draw(st.integers(0, min(max_ordinal(kind, n), 50)))
    peer = "ref"
    if not kind.startswith("blk") and kind not in ("exp_ul_nosize", "seg_ul_nosize") and \
            not (kind == "seg_ul_size" and n <= 4) and not (kind == "exp_ul" and False):
        peer = draw(st.sampled_from(["ref", "canopen"]))
    return {"kind": kind, "len": n, "k": k, "dist": dist, "peer": peer, "salt": draw(st.integers(0, 50)),
            "size_ind": draw(st.booleans()), "crc_srv": draw(st.integers(0, 4)) != 0,
            "follow": draw(st.sampled_from(FOLLOW + ["blk_dl", "blk_ul"] if peer == "ref" else FOLLOW)),
            "follow_len": draw(st.integers(1, 40))}


@st.composite
def rand_blk_ul_case(draw):
    """block upload only: any ordinal up to the end response, CRC off half of the time"""
    n = draw(st.one_of(st.integers(1, 120), st.sampled_from([448, 449, 455, 456, 888, 889, 890, 896, 1778, 1779])))
    what = draw(st.sampled_from(["drop", "abort", "toggle", "cs", "dup_now", "dup_later", "stale_between",
                                 "stale_between", "late_before", "late_between"]))
    dist = {"what": what}
    if what == "abort":
        dist["code"] = draw(st.sampled_from(CODES))
    if what == "cs":
        dist["delta"] = draw(st.integers(0, 5))
    last = blk_ul_last(n)
    if what == "stale_between":
        # a frame that looks like one of this transfer's own: a segment (any sequence number, c flag),
        # an initiate / end response, or anything
        seg = st.builds(lambda c, q, d: bytes([c << 7 | q]) + d, st.integers(0, 1),
                        st.one_of(st.integers(0, 8), st.integers(0, 127)), st.binary(min_size=7, max_size=7))
        dist["stale"] = draw(st.one_of(st.sampled_from(STALE_ALL), seg, st.binary(min_size=8, max_size=8)))
        k = draw(st.integers(0, 3))          # client requests: initiate, start, acknowledge(s), end
    else:
        k = draw(st.one_of(st.integers(0, min(last + 1, 12)), st.integers(max(0, last - 4), last + 1),
                           st.integers(0, last + 1)))
    return {"kind": "blk_ul", "len": n, "k": k, "dist": dist, "peer": "ref", "salt": draw(st.integers(0, 50)),
            "size_ind": draw(st.booleans()), "crc_srv": draw(st.booleans()),
            "follow": draw(st.sampled_from(FOLLOW + ["blk_dl", "blk_ul"])), "follow_len": draw(st.integers(1, 40))}


def search(ctx):
    thorough = ctx.tier == "thorough"
    ctx.enumerate(enum_cases(), "transfer kind x boundary length x response ordinal x disturbance x peer")
    ctx.enumerate(enum_follow_cases(), "kinds run against both peers x the follow-up kinds the first family "
                                       "does not pair with that peer")
    ctx.enumerate(enum_blk_ul_cases(ctx.tier), "block upload x length x every response ordinal (both "
                                               "sub-blocks, end response) x disturbance x CRC off/on")
    ctx.enumerate(enum_stale_abort_cases(), "every kind x length x request ordinal x stale abort frame x peer")
    ctx.hypothesis(rand_case(), 20000 if thorough else 1200)
    ctx.hypothesis(rand_blk_ul_case(), 6000 if thorough else 400, salt=1)
