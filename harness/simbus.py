"""Simulated CAN bus for the checks.

A Hub connects Ports.  A Port is handed to ``canopen.Network(bus=port)`` and
implements the subset of can.BusABC that canopen uses: send, send_periodic,
shutdown, channel_info.  A port may instead carry a plain ``handler(frame)``
(reference models).  Like on a real bus a sender does not hear itself.

Delivery is *inline* (synchronous, nested) by default; ``Hub.queued = True``
makes frames wait in a FIFO until ``pump()`` is called (used by threaded
schedules).  A filter ``f(frame, hub) -> list[Frame]`` may drop, replace or
duplicate frames (fault injection).
"""
from __future__ import annotations

import threading
from collections import deque


class Frame:
    __slots__ = ("can_id", "data", "remote", "extended", "ts", "src", "error")

    def __init__(self, can_id, data=b"", remote=False, extended=None, ts=0.0, src=None, error=False):
        self.can_id = can_id
        self.data = bytes(data) if data is not None else b""
        self.remote = remote
        self.extended = (can_id > 0x7FF) if extended is None else extended
        self.ts = ts
        self.src = src
        self.error = error

    def __repr__(self):
        return (f"{'R' if self.remote else ''}{self.can_id:X}#{self.data.hex()}"
                f"{'x' if self.extended else ''}")


class FakeTask:
    """Recording stand-in for python-can's CyclicSendTask."""

    def __init__(self, hub, port, msg, period, modifiable):
        self.hub = hub
        self.port = port
        self.msg = msg
        self.period = period
        self.live = True
        self.stops = 0
        if modifiable:
            self.modify_data = self._modify_data

    def stop(self):
        self.live = False
        self.stops += 1

    def _modify_data(self, msg):
        if msg.arbitration_id != self.msg.arbitration_id:
            raise ValueError("arbitration id mismatch")
        self.msg = msg

    def describe(self):
        m = self.msg
        return (m.arbitration_id, bytes(m.data), bool(m.is_remote_frame), self.period,
                bool(m.is_extended_id))


class Port:
    channel_info = "verif simbus"

    def __init__(self, hub, name):
        self.hub = hub
        self.name = name
        self.network = None       # canopen.Network attached to this port
        self.handler = None       # or: callable(Frame)
        self.sent = []            # Frames sent through this port
        self.raw_messages = []    # can.Message objects handed to send()
        self.is_shutdown = False
        self.via_listener = False
        self.notify_errors = []   # exceptions raised out of Network.notify

    # --- python-can surface --------------------------------------------------
    def send(self, msg, timeout=None):
        self.raw_messages.append(msg)
        fr = Frame(msg.arbitration_id, bytes(msg.data), bool(msg.is_remote_frame),
                   bool(msg.is_extended_id), ts=self.hub.now(), src=self)
        self.sent.append(fr)
        self.hub.route(fr)

    def send_periodic(self, msg, period, duration=None, store_task=True, **kw):
        task = FakeTask(self.hub, self, msg, period, self.hub.modifiable_tasks)
        self.hub.tasks.append(task)
        return task

    def shutdown(self):
        # deliberately does NOT stop tasks: the library's own discipline is observed
        self.is_shutdown = True

    def __bool__(self):
        return True

    # --- delivery ----------------------------------------------------------
    def deliver(self, fr: Frame):
        if self.handler is not None:
            self.handler(fr)
            return
        net = self.network
        if net is None:
            return
        if self.via_listener:
            # through the library's own can.Listener, flags and all (it decides what to drop)
            import can
            msg = can.Message(arbitration_id=fr.can_id, data=fr.data, is_remote_frame=fr.remote,
                              is_extended_id=fr.extended, is_error_frame=fr.error, timestamp=fr.ts)
            net.listeners[0].on_message_received(msg)
            return
        if fr.remote or fr.error:
            return  # MessageListener drops these
        try:
            net.notify(fr.can_id, bytearray(fr.data), fr.ts)
        except Exception as e:  # noqa: recorded, judged by the property
            self.notify_errors.append((fr, e))
            if self.hub.raise_notify_errors:
                raise


class Hub:
    def __init__(self):
        self.ports = []
        self.log = []          # every frame put on the bus, in order
        self.tasks = []
        self.filter = None
        self.queued = False
        self.fifo = deque()
        self.modifiable_tasks = True
        self.raise_notify_errors = False
        self._clock = 0.0
        self._lock = threading.Lock()

    def now(self):
        with self._lock:
            self._clock += 0.001
            return round(self._clock, 6)

    def port(self, name, network=None, handler=None) -> Port:
        p = Port(self, name)
        p.network = network
        p.handler = handler
        self.ports.append(p)
        return p

    def attach(self, name):
        """Create a canopen.Network wired to a new port."""
        import canopen
        p = self.port(name)
        net = canopen.Network(bus=p)
        p.network = net
        return net, p

    def route(self, fr: Frame):
        self.log.append(fr)
        frames = [fr]
        if self.filter is not None:
            frames = self.filter(fr, self)
        for f in frames:
            if self.queued:
                self.fifo.append(f)
            else:
                self._deliver(f)

    def _deliver(self, fr: Frame):
        for p in list(self.ports):
            if p is not fr.src:
                p.deliver(fr)

    def inject(self, fr: Frame):
        """Put a frame on the bus from nowhere (all ports hear it)."""
        if not fr.ts:
            fr.ts = self.now()
        self.log.append(fr)
        self._deliver(fr)

    def pump(self, n=None):
        k = 0
        while self.fifo and (n is None or k < n):
            self._deliver(self.fifo.popleft())
            k += 1
        return k

    def live_tasks(self):
        return [t for t in self.tasks if t.live]
