"""Shared runner for the C01..C20 checks.

Every property module exposes

    PROPERTY   id, e.g. "C04"
    LEVEL      "exploration" | "fault_enumeration"
    RULE       how cases are generated and what makes one non-trivial
    ASSUMPTIONS list of str
    run_case(case) -> Outcome      pure function of (code under test, case)
    search(ctx)                    generates cases and feeds them to ctx.check

A *case* is a JSON-serialisable dict.  ``run_case`` is what a replay file
re-executes, without Hypothesis.

Exit codes: 0 held, 1 violation (with a VIOLATION line), 2 harness error /
inconclusive.
"""
from __future__ import annotations

import argparse
import array
import hashlib
import importlib
import json
import os
import subprocess
import sys
import threading
import time
import traceback
from collections import Counter

VERIF = os.path.dirname(os.path.dirname(os.path.abspath(__file__)))
REPO = os.environ.get("VERIF_REPO", "/repo")
KNOWN_FILE = os.path.join(VERIF, "known_findings.json")
# sensitivity runs against a scratch copy must not overwrite real evidence/replays
OUT = os.path.join(VERIF, ".work", "scratch-" + os.environ["VERIF_SCRATCH"]) if os.environ.get("VERIF_SCRATCH") else VERIF
NSHARDS = 16


def setup_repo_path():
    """Put the tree under test first on sys.path and make sure that is what
    gets imported (no cached/installed copy)."""
    os.environ.setdefault("CANOPEN_VERIF", "1")
    if REPO in sys.path:
        sys.path.remove(REPO)
    sys.path.insert(0, REPO)
    import canopen  # noqa
    path = os.path.realpath(canopen.__file__)
    if not path.startswith(os.path.realpath(REPO) + os.sep):
        print(f"HARNESS-ERROR canopen imported from {path}, not from {REPO}")
        sys.exit(2)
    import logging
    logging.disable(logging.CRITICAL)


def tree_id():
    try:
        head = subprocess.run(["git", "-C", REPO, "rev-parse", "HEAD"],
                              capture_output=True, text=True).stdout.strip()
        dirty = bool(subprocess.run(
            ["git", "-C", REPO, "status", "--porcelain", "--untracked-files=no"],
            capture_output=True, text=True).stdout.strip())
        return {"head": head, "dirty": dirty}
    except Exception:  # pragma: no cover
        return {"head": "unknown", "dirty": None}


# --------------------------------------------------------------------------
class Discrepancy:
    """One way in which the code under test disagreed with the oracle."""

    def __init__(self, signature: str, detail: str):
        self.signature = signature
        self.detail = detail

    def __repr__(self):
        return f"{self.signature}: {self.detail}"


class Outcome:
    def __init__(self, nontrivial=False, klass="", discrepancies=None, excluded=None):
        self.nontrivial = nontrivial
        self.klass = klass
        self.discrepancies = discrepancies or []
        self.excluded = excluded  # reason string when the case was out of domain


class Violation(Exception):
    def __init__(self, case, disc: Discrepancy):
        super().__init__(f"{disc.signature}: {disc.detail}")
        self.case = case
        self.disc = disc


class HarnessError(Exception):
    pass


def guarded_run(mod, case) -> Outcome:
    """run_case, with one addition: an exception that escapes run_case *out of the library*
    (the innermost frame that belongs to either the harness or the tree under test is library
    code) is the library failing where the property expects a result - a discrepancy with the
    raising site as signature.  An exception raised by harness code stays a harness error."""
    try:
        return mod.run_case(case)
    except Exception as e:
        lib = os.path.realpath(os.path.join(REPO, "canopen")) + os.sep
        har = os.path.realpath(os.path.join(VERIF, "harness")) + os.sep
        tb, last = e.__traceback__, None
        while tb is not None:
            fn = os.path.realpath(tb.tb_frame.f_code.co_filename)
            if fn.startswith(lib) or fn.startswith(har):
                last = (fn, tb.tb_frame.f_code.co_name)
            tb = tb.tb_next
        if last is None or not last[0].startswith(lib):
            raise
        sig = f"{mod.PROPERTY}/crash/{type(e).__name__}@{last[0][len(lib):]}:{last[1]}"
        return Outcome(True, "crash", [Discrepancy(
            sig, f"the library raised {type(e).__name__}: {str(e)[:200]} where the property expects a result")])


def canon(case) -> str:
    return json.dumps(case, sort_keys=True, separators=(",", ":"), default=_jsonable)


def _jsonable(o):
    if isinstance(o, (bytes, bytearray)):
        return {"hex": bytes(o).hex()}
    if isinstance(o, (set, frozenset)):
        return sorted(o)
    if isinstance(o, tuple):
        return list(o)
    if isinstance(o, float):
        return repr(o)
    return repr(o)


def case_hash(case) -> int:
    return int.from_bytes(hashlib.blake2b(canon(case).encode(), digest_size=8).digest(), "little")


def load_known():
    if not os.path.exists(KNOWN_FILE):
        return {"known": [], "fixed": []}
    with open(KNOWN_FILE) as f:
        return json.load(f)


class Ctx:
    def __init__(self, mod, tier, seed, shard=None, nshards=1, budget_s=None):
        self.mod = mod
        self.prop = mod.PROPERTY
        self.tier = tier
        self.seed = seed
        self.shard = shard if shard is not None else 0
        self.nshards = nshards
        self.t0 = time.time()
        self.budget_s = budget_s
        self.evaluations = 0
        self.nontrivial = set()
        self.classes = Counter()
        self.samples = []
        self.sample_classes = set()
        self.excluded = Counter()
        self.known_hits = Counter()
        self.known_examples = {}
        self.current_case = None
        self.budget_exhausted = False
        self.exhaustive_parts = []
        self.notes = []
        known = load_known()
        self.known = [k for k in known.get("known", []) if k["property"] == self.prop]

    # ---- sharding helpers ------------------------------------------------
    def mine(self, i: int) -> bool:
        """True when enumerated item number i belongs to this shard."""
        return i % self.nshards == self.shard

    def hyp_seed(self, salt=0):
        return (self.seed * 1000 + self.shard) * 100 + salt

    def over_budget(self):
        if self.budget_s is not None and time.time() - self.t0 > self.budget_s:
            self.budget_exhausted = True
            return True
        return False

    # ---- recording -------------------------------------------------------
    def match_known(self, case, disc: Discrepancy):
        for k in self.known:
            if k["signature"] == disc.signature:
                m = k.get("match")
                if m is None or all(_deep_get(case, key) == val for key, val in m.items()):
                    return k
        return None

    def check(self, case):
        """Run one case; record it; raise Violation on an unknown discrepancy."""
        self.current_case = case
        out = guarded_run(self.mod, case)
        self.current_case = None
        if out.excluded:
            self.excluded[out.excluded] += 1
            return out
        self.evaluations += 1
        self.classes[out.klass] += 1
        if out.nontrivial:
            self.nontrivial.add(case_hash(case))
        if out.klass not in self.sample_classes and len(self.samples) < 12:
            self.sample_classes.add(out.klass)
            self.samples.append({"class": out.klass, "case": json.loads(canon(case))})
        for d in out.discrepancies:
            k = self.match_known(case, d)
            if k is not None:
                self.known_hits[k["id"]] += 1
                self.known_examples.setdefault(k["id"], json.loads(canon(case)))
                continue
            raise Violation(case, d)
        return out

    def hypothesis(self, strategy, max_examples, salt=0, label=None, chunk=400):
        """Drive ctx.check with a Hypothesis strategy producing cases.

        The examples are run in chunks (own seed each): the time budget is looked at
        between chunks and, inside a chunk, only while nothing has failed yet - once a
        violation has been seen the shrinker must get honest answers, otherwise
        Hypothesis reports the test as flaky."""
        import hypothesis
        from hypothesis import HealthCheck, Phase, given, settings

        ctx = self
        done = 0
        part = 0
        while done < max_examples and not self.over_budget():
            n = min(chunk, max_examples - done)
            st_settings = settings(
                max_examples=n, deadline=None, database=None,
                derandomize=False, report_multiple_bugs=False, phases=[Phase.generate, Phase.shrink],
                suppress_health_check=list(HealthCheck), print_blob=False,
            )
            state = {"failed": False}

            @hypothesis.seed(self.hyp_seed(salt) * 1000 + part)
            @st_settings
            @given(strategy)
            def prop(case):
                if not state["failed"] and ctx.over_budget():
                    return
                try:
                    ctx.check(case)
                except Violation:
                    state["failed"] = True
                    raise

            try:
                prop()
            except Violation:
                raise
            except BaseException as e:  # Flaky / exception groups wrapping our Violation
                v = _find_violation(e)
                if v is not None:
                    raise v from None
                raise
            done += n
            part += 1

    def enumerate(self, cases, exhaustive_label=None):
        """Run an iterable of cases, taking only this shard's share."""
        n = 0
        complete = True
        for i, case in enumerate(cases):
            if not self.mine(i):
                continue
            if self.over_budget():
                complete = False
                break
            self.check(case)
            n += 1
        if exhaustive_label:
            self.exhaustive_parts.append({"part": exhaustive_label, "cases": n, "complete": complete})
        return n

    # ---- results ----------------------------------------------------------
    def stats(self):
        return {
            "evaluations": self.evaluations,
            "classes": dict(self.classes),
            "samples": self.samples,
            "excluded": dict(self.excluded),
            "known_hits": dict(self.known_hits),
            "known_examples": self.known_examples,
            "budget_exhausted": self.budget_exhausted,
            "exhaustive_parts": self.exhaustive_parts,
            "notes": self.notes,
        }


def _find_violation(e, depth=0):
    if isinstance(e, Violation):
        return e
    if depth > 6:
        return None
    for sub in list(getattr(e, "exceptions", []) or []) + [getattr(e, "__cause__", None),
                                                            getattr(e, "__context__", None)]:
        if sub is not None:
            v = _find_violation(sub, depth + 1)
            if v is not None:
                return v
    return None


def _deep_get(case, dotted):
    cur = case
    for part in dotted.split("."):
        if isinstance(cur, dict):
            cur = cur.get(part)
        elif isinstance(cur, list):
            try:
                cur = cur[int(part)]
            except (ValueError, IndexError):
                return None
        else:
            return None
    return cur


# --------------------------------------------------------------------------
def write_replay(prop, case, disc, tier, seed):
    d = os.path.join(OUT, "replays", prop)
    os.makedirs(d, exist_ok=True)
    body = {"property": prop, "signature": disc.signature, "detail": disc.detail,
            "case": json.loads(canon(case)), "tier": tier, "seed": seed, "tree": tree_id()}
    h = hashlib.sha1(canon(body["case"]).encode()).hexdigest()[:12]
    path = os.path.join(d, f"{h}.json")
    with open(path, "w") as f:
        json.dump(body, f, indent=1, sort_keys=True)
    return os.path.relpath(path, VERIF)


def decode_case(obj):
    """Inverse of the JSON encoding used in replay files ({"hex": ..} -> bytes)."""
    if isinstance(obj, dict):
        if set(obj) == {"hex"}:
            return bytes.fromhex(obj["hex"])
        return {k: decode_case(v) for k, v in obj.items()}
    if isinstance(obj, list):
        return [decode_case(v) for v in obj]
    return obj


def write_evidence(mod, tier, seed, merged, wall, violations):
    cov = {
        "evaluations": merged["evaluations"],
        "distinct_nontrivial": merged["distinct_nontrivial"],
        "rule": mod.RULE,
        "samples": merged["samples"][:12],
        "classes": dict(sorted(merged["classes"].items(), key=lambda kv: -kv[1])[:60]),
        "excluded_by_construction": merged["excluded"],
        "known_findings_hit": merged["known_hits"],
        "exhaustive": bool(merged["exhaustive_parts"]) and all(
            p["complete"] for p in merged["exhaustive_parts"]) and merged.get("all_exhaustive", False),
        "exhaustive_parts": merged["exhaustive_parts"],
        "budget_exhausted": merged["budget_exhausted"],
        "tree": tree_id(),
        "shards": merged.get("shards", 1),
    }
    if merged.get("notes"):
        cov["notes"] = merged["notes"]
    ev = {
        "property_id": mod.PROPERTY,
        "tier": tier,
        "seed": seed,
        "level": mod.LEVEL,
        "coverage": cov,
        "assumptions": list(mod.ASSUMPTIONS),
        "wall_s": round(wall, 2),
        "violations": violations,
    }
    d = os.path.join(OUT, "evidence")
    os.makedirs(d, exist_ok=True)
    path = os.path.join(d, f"{mod.PROPERTY}.json")
    tmp = path + ".tmp"
    with open(tmp, "w") as f:
        json.dump(ev, f, indent=1, sort_keys=True, default=_jsonable)
    os.replace(tmp, path)


# --------------------------------------------------------------------------
class Watchdog(threading.Thread):
    """A single case normally takes milliseconds.  When one case runs for
    ``limit`` seconds the code under test is hanging: report that as a
    violation with the case in progress (a hang is never the oracle's normal
    mode - budgets are handled cooperatively by Ctx.over_budget)."""

    def __init__(self, ctx, limit, out_path=None):
        super().__init__(daemon=True)
        self.ctx = ctx
        self.limit = limit
        self.out_path = out_path

    def run(self):
        last = None
        since = time.time()
        while True:
            time.sleep(1.0)
            cur = self.ctx.current_case
            if cur is None or cur is not last:
                last = cur
                since = time.time()
                continue
            if time.time() - since > self.limit:
                disc = Discrepancy(f"{self.ctx.prop}/hang",
                                   f"case did not finish within {self.limit}s")
                path = write_replay(self.ctx.prop, cur, disc, self.ctx.tier, self.ctx.seed)
                if self.out_path:
                    with open(self.out_path, "w") as f:
                        json.dump({"violation": {"replay": path, "signature": disc.signature,
                                                 "detail": disc.detail},
                                   "stats": self.ctx.stats(), "hashes": []}, f, default=_jsonable)
                else:
                    print(f"VIOLATION property={self.ctx.prop} replay={path}", flush=True)
                    print(f"  {disc}", flush=True)
                os._exit(1)


def load_module(prop):
    return importlib.import_module(f"harness.{prop.lower()}")


def run_shard(prop, tier, seed, shard, nshards, out_path, budget_s):
    setup_repo_path()
    mod = load_module(prop)
    ctx = Ctx(mod, tier, seed, shard, nshards, budget_s)
    Watchdog(ctx, 120 if tier == "thorough" else 60, out_path).start()
    result = {"violation": None}
    try:
        mod.search(ctx)
    except Violation as v:
        path = write_replay(prop, v.case, v.disc, tier, seed)
        result["violation"] = {"replay": path, "signature": v.disc.signature,
                               "detail": v.disc.detail}
    result["stats"] = ctx.stats()
    hashes = array.array("Q", sorted(ctx.nontrivial))
    result["hashes_file"] = out_path + ".hashes"
    with open(result["hashes_file"], "wb") as f:
        hashes.tofile(f)
    with open(out_path, "w") as f:
        json.dump(result, f, default=_jsonable)


def merge(results):
    m = {"evaluations": 0, "classes": Counter(), "samples": [], "excluded": Counter(),
         "known_hits": Counter(), "known_examples": {}, "budget_exhausted": False,
         "exhaustive_parts": [], "notes": [], "shards": len(results)}
    hashes = set()
    seen_classes = set()
    parts = {}
    for r in results:
        s = r["stats"]
        m["evaluations"] += s["evaluations"]
        m["classes"].update(s["classes"])
        m["excluded"].update(s["excluded"])
        m["known_hits"].update(s["known_hits"])
        for k, v in s["known_examples"].items():
            m["known_examples"].setdefault(k, v)
        m["budget_exhausted"] |= s["budget_exhausted"]
        for n in s["notes"]:
            if n not in m["notes"]:
                m["notes"].append(n)
        for smp in s["samples"]:
            if smp["class"] not in seen_classes and len(m["samples"]) < 12:
                seen_classes.add(smp["class"])
                m["samples"].append(smp)
        for p in s["exhaustive_parts"]:
            q = parts.setdefault(p["part"], {"part": p["part"], "cases": 0, "complete": True})
            q["cases"] += p["cases"]
            q["complete"] &= p["complete"]
        hf = r.get("hashes_file")
        if hf and os.path.exists(hf):
            a = array.array("Q")
            with open(hf, "rb") as f:
                a.frombytes(f.read())
            hashes.update(a)
    m["exhaustive_parts"] = list(parts.values())
    m["distinct_nontrivial"] = len(hashes)
    m["classes"] = dict(m["classes"])
    m["excluded"] = dict(m["excluded"])
    m["known_hits"] = dict(m["known_hits"])
    return m


def main(argv=None):
    ap = argparse.ArgumentParser()
    ap.add_argument("prop")
    ap.add_argument("--tier", default=os.environ.get("VERIF_TIER", "quick"),
                    choices=["quick", "thorough"])
    ap.add_argument("--shard", default=None)
    ap.add_argument("--out", default=None)
    ap.add_argument("--budget", type=float, default=None)
    ap.add_argument("--workers", type=int, default=None)
    args = ap.parse_args(argv)
    prop = args.prop.upper()
    try:
        seed = int(os.environ.get("VERIF_SEED", "1") or "1")
    except ValueError:
        seed = 1

    if args.shard is not None:
        i, n = (int(x) for x in args.shard.split("/"))
        try:
            run_shard(prop, args.tier, seed, i, n, args.out, args.budget)
        except SystemExit:
            raise
        except BaseException:
            traceback.print_exc()
            sys.exit(2)
        sys.exit(0)

    t0 = time.time()
    setup_repo_path()
    mod = load_module(prop)
    nshards = args.workers or getattr(mod, "SHARDS", {}).get(args.tier, NSHARDS if args.tier == "thorough" else 1)
    budget = args.budget or getattr(mod, "BUDGET", {}).get(args.tier, 45 if args.tier == "quick" else 420)
    work = os.path.join(VERIF, ".work", f"{prop}-{os.getpid()}")
    os.makedirs(work, exist_ok=True)
    env = dict(os.environ)
    env["PYTHONHASHSEED"] = "0"
    env["VERIF_SEED"] = str(seed)
    env["PYTHONPATH"] = VERIF + os.pathsep + env.get("PYTHONPATH", "")
    procs = []
    for i in range(nshards):
        out = os.path.join(work, f"shard{i}.json")
        p = subprocess.Popen(
            [sys.executable, "-m", "harness.core", prop, "--tier", args.tier,
             "--shard", f"{i}/{nshards}", "--out", out, "--budget", str(budget)],
            cwd=VERIF, env=env, stdout=subprocess.PIPE, stderr=subprocess.STDOUT, text=True)
        procs.append((p, out))
    results = []
    harness_error = None
    for p, out in procs:
        log, _ = p.communicate()
        if os.path.exists(out):
            with open(out) as f:
                results.append(json.load(f))
        if p.returncode not in (0, 1) or not os.path.exists(out):
            harness_error = (p.returncode, log[-4000:])
    if harness_error and not any(r.get("violation") for r in results):
        print(f"HARNESS-ERROR property={prop} shard exit={harness_error[0]}")
        print(harness_error[1])
        _cleanup(work)
        sys.exit(2)
    merged = merge(results)
    merged["all_exhaustive"] = getattr(mod, "ALL_EXHAUSTIVE", False)
    violations = [r["violation"] for r in results if r.get("violation")]
    wall = time.time() - t0
    write_evidence(mod, args.tier, seed, merged, wall, len(violations))
    _cleanup(work)
    known = load_known()
    for k in known.get("known", []):
        if k["property"] == prop:
            hits = merged["known_hits"].get(k["id"], 0)
            print(f"KNOWN-FINDING: property={prop} {k['what']} (id={k['id']}, reproduced {hits}x this run)")
    print(f"{prop} {args.tier}: evaluations={merged['evaluations']} "
          f"distinct_nontrivial={merged['distinct_nontrivial']} wall={wall:.1f}s "
          f"budget_exhausted={merged['budget_exhausted']}")
    if violations:
        seen = set()
        for v in violations:
            if v["replay"] in seen:
                continue
            seen.add(v["replay"])
            print(f"VIOLATION property={prop} replay={v['replay']}")
            print(f"  {v['signature']}: {v['detail'][:600]}")
        sys.exit(1)
    sys.exit(0)


def _cleanup(work):
    import shutil
    shutil.rmtree(work, ignore_errors=True)


if __name__ == "__main__":
    main()
