"""C18 - LSS fast scan finds the one unconfigured device's identity, bit for bit.

SUT: canopen.lss.LssMaster as reached through ``Network.lss`` (and the
subscription of 0x7E4 that Network.__init__ makes).  Peer: RefLssSlave
(harness/ref_c18.py), an LSS slave written from CiA 305, on the inline hub.
The clock is taken out: ``lss.RESPONSE_TIMEOUT = 0`` on the instance (replies
are delivered inline, so "no reply" is known at once) and ``canopen.lss.time``
is rebound, in the harness process only, to a shim whose sleep() returns
immediately.

A case is ``{"slave": {...}, "ops": [...]}``: one slave (identity, node-id,
initial LSS state, or "present": false = nobody answers) and a history of
LssMaster calls, each optionally with a programmed misbehaviour of the slave
for that call.  After every call the oracle below is evaluated.

Clause of the property -> case family
  (a) fast scan against a conformant unconfigured slave returns success and
      exactly vendor/product/revision/serial, slave left in configuration
      state                      -> "scan/<identity class>": all-zero, all-one,
                                    every single bit set, every single bit
                                    cleared (exhaustive), every pair of bits set
                                    / cleared (thorough, exhaustive), seeded
                                    random 128-bit values; "commission/*"
                                    (scan, then the five inquiries must read the
                                    same identity from the slave now in
                                    configuration state)
  (b) no slave present -> failure -> "scan/nobody/*": empty bus, and slaves
                                    that CiA 305 excludes from fast scan (valid
                                    node-id; already in configuration state) -
                                    the master sees silence in all three
  (c) every request is a full 8-byte frame on 0x7E5 with the standard cs and
      little-endian fields        -> every family: the master's port must have
                                    sent only 8-byte classic data frames on
                                    0x7E5; the slave model decodes them
                                    (reserved bytes 0, parameters legal) and the
                                    decoded request list must equal the one
                                    implied by the call's arguments: "cfg_node"
                                    0..255, "cfg_bit" 0..255, "activate" delays
                                    (all 65536 in thorough), "selective",
                                    "global", "identify", "inquire"
  (d) inquire/configure/store return the slave's answer or raise LssError on
      an error code, a wrong cs, or silence
                                  -> "inq_node/natural" (node-id 0..255),
                                    "inq_address/natural" (each part with every
                                    single bit set / cleared), "<svc>/natural",
                                    "<svc>/err" (codes 0..255), "<svc>/cs" (every
                                    other cs 0..255), "silence/programmed",
                                    "silence/slave-in-waiting-state" (a conformant
                                    slave in waiting state ignores these
                                    services), "silence/nobody", "late-reply"
                                    (the reply arrives after the time-out; the
                                    *next* calls must get their own answers),
                                    "stale/*" (an identify reply nobody waited
                                    for sits in the queue), "history/*"
  (e) selective switch addressed to the slave's identity is confirmed
                                  -> "selective/match/<identity class>" (True and
                                    slave in configuration state);
                                    "selective/mismatch" (one bit off: documented
                                    as "False if there is no response"; the code
                                    raises LssError - both accepted, True is not)

Wider than "one device, LSSPos 0, zero reply latency" (the property names none of the three):
  * a slave dict may carry "pos": the fastscan position LSSPos (0..3) the device is left with by
    fastscan traffic it witnessed earlier (CiA 305: only BitCheck 0x80 resets it) -> "scan/stale-lsspos/*";
  * a case may carry "others": further conformant devices on the same bus (configured ones, devices in
    waiting state, a second unconfigured device that listens while the first one is being found ->
    "commission/two-devices-listening"; devices that all answer one identify request, so that several
    unread answers are queued when the next confirmed service starts -> "stale/answers-of-several-devices").
    Every call is judged against the set of devices: a scan with exactly ONE participating device gets
    the strict oracle (a), with none (b); with two or more unconfigured devices the property ("the one
    unconfigured device") promises nothing and only "a success names a device that took part" is kept;
    confirmed services are judged when at most one device is in configuration state (CiA 305 requires
    that), against the answer that one device put on the bus;
  * "latency_ms"/"timeout_ms": the replies of the devices reach the master from another thread after a
    real latency below RESPONSE_TIMEOUT (as behind any real interface) -> "latency/*";
  * an op may carry "foreign": [{"at": k, "data": hex}]: after the k-th request of the call has been heard (and
    where they have something to say answered) by all devices, a frame with ANOTHER command specifier than the
    awaited answer's appears on 0x7E4 (a late answer to an earlier service, an answer meant for somebody else)
    -> ".../foreign-frame-*".  Where the devices were silent it is the reply the master reads - a reply with
    the wrong command specifier: no acknowledge of a fastscan probe, no confirmation of a selective switch,
    LssError for inquire/configure/store; the oracles (a)(b)(d)(e) stay as they are.

Changed against DESIGN.md: a "late reply" fault and the stale identify reply
were added (they exercise the anchor state `responses`); the strictness about
LSSNext in 0..3 comes from CiA 305 parameter ranges.
"""
import queue as _queue
import threading
import time as _time

from hypothesis import strategies as st

from harness.core import Discrepancy, Outcome
from harness.ref_c18 import (CONFIGURATION, MASTER_ID, SLAVE_ID, UNCONFIGURED,
                             WAITING, RefLssSlave)
from harness.simbus import Frame, Hub

PROPERTY = "C18"
LEVEL = "exploration"
RULE = ("case = one CiA 305 reference slave (128-bit identity, node-id, initial LSS state; or nobody) + a "
        "history of 1..10 LssMaster calls (fast_scan, send_switch_state_selective/global, inquire_node_id, "
        "inquire_lss_address, configure_node_id, configure_bit_timing, store_configuration, "
        "activate_bit_timing, send_identify_*), each optionally with a programmed reply fault (error code, "
        "other cs, silent, late). Enumerated: identities all-zero/all-one/each single bit set/each single "
        "bit cleared for scan and selective switch (thorough: every pair of bits), node-ids 0..255, "
        "bit-timing indexes 0..255, error codes 0..255 and wrong cs 0..255 for every confirmed service, "
        "switch delays (boundaries; thorough all 65536); Hypothesis adds seeded random identities and "
        "histories. Oracle: the slave model validates and decodes every frame of the master; the decoded "
        "requests must be the ones the call's arguments imply; return value / LssError must follow from "
        "the reply the slave really put on the bus; slave state after scan/selective is 'configuration'. "
        "Non-trivial = a scan/selective/identity inquiry with an identity that is neither all-zero nor "
        "all-one, or a fault reply, or a configure/activate/inquire-node-id with a non-zero operand, or any "
        "case with further devices / a reply latency; distinct = canonical JSON of the case. "
        "Beyond one fresh device with zero latency: (1) slave field 'pos' = LSSPos 1..3 left behind by fastscan "
        "traffic the device witnessed earlier (scan/stale-lsspos/*, enumerated over boundary identities + "
        "Hypothesis); (2) 'others' = further conformant devices on the same bus: unconfigured devices that "
        "follow the scan of the first one (commission/*-devices-listening), configured devices, devices that "
        "all answer one identify request so that several unread answers are queued before the next service "
        "(stale/answers-of-several-devices), Hypothesis histories on a bus of 2..3 devices with identities "
        "agreeing in 0..4 leading parts; each call is judged against the set of devices as the call finds "
        "it: fast_scan strict (found, identity, configuration state) when exactly one device is waiting and "
        "unconfigured, failure-or-real-success when none, only 'a success names a participant' when several; "
        "confirmed services judged when at most one device is in configuration state, against the answer that "
        "device put on the bus; (3) latency_ms/timeout_ms: the devices' replies reach the master from another "
        "thread after a real latency of 1..60 ms with RESPONSE_TIMEOUT = 250 ms (latency/*: commissioning "
        "through fast scan and selective switch, all inquire/configure/store services, error code / wrong cs "
        "/ silence, answers of two devices); (4) op field 'foreign': 1..3 frames on 0x7E4 with a cs other than the "
        "awaited answer's (answers of other LSS services, raw cs 0..255), each appearing right after the k-th "
        "request of the call was heard and answered by the devices: every k of a fast scan (134 positions) x "
        "identities, after an inquiry that was given up, stale LSSPos, nobody present, every request of a "
        "selective switch (match / one bit off / nobody), every confirmed service (behind the answer; instead of "
        "it when the device is silent, late, in waiting state or absent), Hypothesis scans and histories (one "
        "device and 2..3 devices); judged by the unchanged oracles, 'the reply' of a confirmed service being the "
        "first frame that reached the master during the call.")
ASSUMPTIONS = [
    "RESPONSE_TIMEOUT=0 with inline delivery: a reply is either already queued when the master starts "
    "waiting or will not come; canopen.lss.time.sleep is a no-op in the harness process",
    "the property's 'the one unconfigured device': a fast scan gets the strict oracle only when exactly one "
    "device on the bus is in waiting state with an invalid node-id when the call begins; other devices "
    "(configured, or in configuration state) may be present; scans with two or more unconfigured devices "
    "only must not report an identity none of them has",
    "confirmed services are judged only while at most one device is in configuration state (CiA 305)",
    "LSSPos of a conformant slave may be 0..3 when a scan begins (only BitCheck 0x80 resets it)",
    "latency family: real threads and real time; a reply latency <= 60 ms against RESPONSE_TIMEOUT = 250 ms; "
    "a failing latency case is set aside (counted as excluded) when the harness measured that some reply "
    "needed more than RESPONSE_TIMEOUT/2 from the device to the master's Network.notify - the machine, not "
    "the library, was slow; multi-participant scans are not generated with a latency (duplicate answers "
    "could overtake the next request because the library's pauses are no-ops here)",
    "'raise the LSS error' = an instance of canopen.lss.LssError; nothing else may escape",
    "a selective switch that nobody answers may return False or raise LssError (the docstring says False, "
    "the property is silent)",
    "return values of send_identify_* are not judged (documented as not implemented); only their frames are",
    "foreign frames (cs other than the awaited answer's) are generated only BEHIND the devices' own answers to "
    "the same request, never overtaking them (which frame is 'the reply' when two arrive is not said by the "
    "property), never with the awaited cs (the master could not tell it from an answer; counted as excluded if "
    "a shrink produces one) and never together with a reply latency",
]
BUDGET = {"quick": 150, "thorough": 360}

ALL1 = 0xFFFFFFFF
SERVICES = ["inq_vendor", "inq_product", "inq_revision", "inq_serial", "inq_node",
            "cfg_node", "cfg_bit", "store"]
# CiA 305 command specifiers, written down here independently of canopen.lss
REQ_CS = {"inq_vendor": 0x5A, "inq_product": 0x5B, "inq_revision": 0x5C, "inq_serial": 0x5D,
          "inq_node": 0x5E, "cfg_node": 0x11, "cfg_bit": 0x13, "store": 0x17}
INQ_NAME = {"inq_vendor": "CS_INQUIRE_VENDOR_ID", "inq_product": "CS_INQUIRE_PRODUCT_CODE",
            "inq_revision": "CS_INQUIRE_REVISION_NUMBER", "inq_serial": "CS_INQUIRE_SERIAL_NUMBER"}
INQ_PART = {"inq_vendor": 0, "inq_product": 1, "inq_revision": 2, "inq_serial": 3, "inq_node": 4}


class _Clock:
    """Stand-in for the `time` module inside canopen.lss: sleep() costs nothing."""

    def __init__(self, real):
        self._real = real
        self.slept = 0.0

    def sleep(self, s):
        self.slept += s

    def __getattr__(self, name):
        return getattr(self._real, name)


def _prepare():
    import time as real_time

    import canopen.lss as L
    if not isinstance(L.time, _Clock):
        L.time = _Clock(real_time)
    return L


class _DelayLine:
    """What a device sends reaches the bus `latency` seconds later, from another thread (like the
    receive thread of any real interface).  `max_delay` is the longest time that really passed between
    a device handing over a reply and the master's Network having consumed it - used only to set a
    case aside when the machine was too slow for the time-out (never as a verdict)."""

    def __init__(self, hub, latency):
        self.hub = hub
        self.latency = latency
        self.max_delay = 0.0
        self.errors = []
        self.q = _queue.Queue()
        self.th = threading.Thread(target=self._run, daemon=True)
        self.th.start()

    def route(self, fr):
        self.q.put((_time.monotonic(), fr))

    def _run(self):
        while True:
            item = self.q.get()
            try:
                if item is None:
                    return
                t0, fr = item
                wait = t0 + self.latency - _time.monotonic()
                if wait > 0:
                    _time.sleep(wait)
                self.hub.route(fr)
                self.max_delay = max(self.max_delay, _time.monotonic() - t0)
            except BaseException as e:      # a bug of the harness, never a verdict
                self.errors.append(e)
            finally:
                self.q.task_done()

    def drain(self):
        self.q.join()

    def close(self):
        self.q.put(None)
        self.th.join()


class Rig:
    def __init__(self, s, others=(), latency=None, timeout=0):
        self.hub = Hub()
        self.delay = _DelayLine(self.hub, latency) if latency is not None else None
        self.slaves = []
        self.slave = None                 # the device added last (for the description of a call)
        for spec in [s] + list(others):
            self.add(spec)
        self.net, self.port = self.hub.attach("master")
        self.lss = self.net.lss
        self.lss.RESPONSE_TIMEOUT = timeout
        # frames on 0x7E4 that are no answer to the running request (op field "foreign"): the port hears a
        # request of the master after every device has heard (and, inline, answered) it
        self.plan = []
        self.n_heard = 0
        self.fired = []                   # (plan entry, a device answered that very request)
        self.foreign = self.hub.port("foreign-frames", handler=self._after_request)

    def _after_request(self, fr):
        if fr.can_id != MASTER_ID or fr.src is not self.port:
            return
        k = self.n_heard
        self.n_heard += 1
        last = self.hub.log[-1]
        answered = last.can_id == SLAVE_ID and last.src is not self.foreign
        for ent in self.plan:
            if ent["at"] == k:
                self.fired.append((ent, answered))
                self.hub.route(Frame(SLAVE_ID, bytes.fromhex(ent["data"]), src=self.foreign))

    def arm(self, plan):
        self.plan = list(plan or ())
        self.n_heard = 0

    foreign = None

    def add(self, spec):
        sl = RefLssSlave(spec["id"], spec.get("nid", UNCONFIGURED), spec.get("state", WAITING))
        sl.fs_pos = spec.get("pos", 0)    # LSSPos left behind by fastscan traffic witnessed earlier
        sl.mute = not spec.get("present", True)
        sl.attach(self.hub, name=f"lss-slave-{len(self.slaves)}")
        if self.delay is not None:
            sl.hub = self.delay
        self.slaves.append(sl)
        self.slave = sl
        if self.foreign is not None:      # stays the last listener on the bus
            self.hub.ports.remove(self.foreign)
            self.hub.ports.append(self.foreign)
        return sl

    def settle(self):
        """Every reply the devices have produced so far is on the bus and consumed."""
        if self.delay is not None:
            self.delay.drain()
            if self.delay.errors:
                raise RuntimeError(f"harness: the delay line failed: {self.delay.errors[0]!r}")

    def close(self):
        if self.delay is not None:
            self.delay.close()


def _call(L, lss, op):
    k = op["op"]
    if k == "fast_scan":
        return lss.fast_scan()
    if k == "selective":
        return lss.send_switch_state_selective(*op["id"])
    if k == "global":
        if op.get("alias"):
            mode = lss.CONFIGURATION_MODE if op["mode"] else lss.NORMAL_MODE
            return lss.send_switch_mode_global(mode)
        mode = lss.CONFIGURATION_STATE if op["mode"] else lss.WAITING_STATE
        return lss.send_switch_state_global(mode)
    if k in INQ_NAME:
        return lss.inquire_lss_address(getattr(L, INQ_NAME[k]))
    if k == "inq_node":
        return lss.inquire_node_id()
    if k == "cfg_node":
        return lss.configure_node_id(op["nid"])
    if k == "cfg_bit":
        return lss.configure_bit_timing(op["idx"])
    if k == "store":
        return lss.store_configuration()
    if k == "activate":
        return lss.activate_bit_timing(op["delay"])
    if k == "identify":
        return lss.send_identify_remote_slave(*op["args"])
    if k == "identify_nc":
        return lss.send_identify_non_configured_remote_slave()
    raise ValueError(k)


def _expected_requests(op):
    k = op["op"]
    if k == "selective":
        return [("sel", i, op["id"][i]) for i in range(4)]
    if k == "global":
        return [("global", op["mode"])]
    if k in INQ_PART:
        return [("inq", INQ_PART[k])]
    if k == "cfg_node":
        return [("cfg_node", op["nid"])]
    if k == "cfg_bit":
        return [("cfg_bit", 0, op["idx"])]
    if k == "store":
        return [("store",)]
    if k == "activate":
        return [("activate", op["delay"])]
    if k == "identify":
        return [("ident", i, op["args"][i]) for i in range(6)]
    if k == "identify_nc":
        return [("ident_nc",)]
    return None


def _step(L, rig, op, tag, D):
    lss = rig.lss
    mon = rig.slaves[0]          # has heard every frame since the case began: decodes / validates for all
    k = op["op"]

    def bad(kind, detail):
        D.append(Discrepancy(f"C18/{k}/{kind}", f"{tag}: {detail}"))

    n_req, n_err = len(mon.requests), len(mon.errors)
    n_sent, n_log = len(rig.port.sent), len(rig.hub.log)
    # the devices on the bus as the call finds them: (device, LSS state, unconfigured)
    live0 = [(sl, sl.state, sl.unconfigured()) for sl in rig.slaves if not sl.mute]
    for sl in rig.slaves:
        sl.fault = op.get("fault")
        sl.fault_used = False
    rig.arm(op.get("foreign"))
    result, exc = None, None
    try:
        result = _call(L, lss, op)
    except Exception as e:  # judged below
        exc = e
    rig.settle()
    rig.arm(None)
    for sl in rig.slaves:
        sl.fault = None
    # what the devices put on the bus during the call (with a latency: in answer to it)
    arrivals = [f for f in rig.hub.log[n_log:] if f.can_id == SLAVE_ID and f.src is not rig.port]
    delivered = [f.data for f in arrivals if f.src is not rig.foreign]
    sent = rig.port.sent[n_sent:]
    reqs = mon.requests[n_req:]

    # ---- (c) framing -------------------------------------------------------
    for fr in sent:
        if fr.can_id != MASTER_ID or fr.extended or fr.remote or len(fr.data) != 8:
            bad("frame", f"master sent {fr!r} (want an 8-byte data frame on 0x7E5)")
            return
    for kind, detail in mon.errors[n_err:]:
        D.append(Discrepancy(f"C18/{k}/frame/{kind}", f"{tag}: not a CiA 305 request: {detail}"))
        return
    want_reqs = _expected_requests(op)
    if want_reqs is not None:
        # the requests the call implies, in this order; further well-formed CiA 305 requests in between
        # (anything malformed was reported above) are not the property's subject
        it = iter(reqs)
        if not all(any(r == w for r in it) for w in want_reqs):
            bad("request", f"slave decoded requests {reqs}, the call implies {want_reqs} "
                           f"(frames {[f.data.hex() for f in sent]})")
            return
    elif not any(r[0] == "fastscan" for r in reqs) or len(reqs) != len(sent):
        bad("request", f"fast_scan sent no fastscan request, or frames that are no LSS requests: {reqs[:6]}")
        return
    if rig.port.notify_errors:
        bad("notify-raises", f"{rig.port.notify_errors[:1]}")
        return

    is_lss_error = isinstance(exc, L.LssError)
    if exc is not None and not is_lss_error:
        bad("raises", f"{type(exc).__name__}: {exc}")
        return

    # ---- (a) (b) fast scan ---------------------------------------------------
    if k == "fast_scan":
        if exc is not None:
            bad("raises", f"LssError out of fast_scan: {exc}")
            return
        try:
            ok, ids = result
        except Exception:
            bad("result-shape", f"fast_scan returned {result!r}")
            return
        parts = [sl for sl, st0, unconf in live0 if st0 == WAITING and unconf]
        unconf_all = [sl for sl, _, unconf in live0 if unconf]
        if len(parts) == 1 and len(unconf_all) > 1:
            # a second unconfigured device sits in configuration state: not "the one unconfigured device" (a
            # master that first switches everybody to waiting state may find either); a success must name
            # one of the unconfigured devices
            if ok and (ids is None or [int(x) for x in ids] not in [sl.identity for sl in unconf_all]):
                bad("identity", f"found {_hexid(ids) if ids is not None else None}, the unconfigured devices "
                                f"are {' / '.join(_hexid(sl.identity) for sl in unconf_all)}")
        elif len(parts) == 1:
            slave = parts[0]
            if not ok:
                bad("not-found", f"returned {result!r} although slave {_hexid(slave.identity)} takes part "
                                 f"({len(reqs)} requests, {len(delivered)} answers)")
            elif ids is None or [int(x) for x in ids] != slave.identity or len(ids) != 4:
                got = _hexid(ids) if ids is not None else None
                bad("identity", f"found {got}, slave is {_hexid(slave.identity)}")
            elif slave.state != CONFIGURATION:
                bad("slave-state", f"scan succeeded but the slave is still in waiting state (LSSPos "
                                   f"{slave.fs_pos}); last request {reqs[-1]}")
        elif not parts:
            # no slave, or only devices that were not waiting / not unconfigured when the call began: the
            # property promises nothing for them - but a success must still be a real one
            known = [sl.identity for sl, _, _ in live0] or [mon.identity]
            if ok and not delivered:
                bad("phantom", f"returned {result!r} although nobody answered")
            elif ok and (ids is None or [int(x) for x in ids] not in known):
                bad("identity", f"found {_hexid(ids) if ids is not None else None}, the slave that answered is "
                                f"{' / '.join(_hexid(i) for i in known)}")
            elif not ok and all(r[0] == "fastscan" for r in reqs) \
                    and any(sl.state != st0 for sl, st0, _ in live0):
                bad("slave-state", "a slave that takes no part changed state")
        else:
            # two or more unconfigured devices: outside "the one unconfigured device"; only a success
            # that names none of them is judged
            if ok and (ids is None or [int(x) for x in ids] not in [sl.identity for sl in unconf_all]):
                bad("identity", f"found {_hexid(ids) if ids is not None else None}, the unconfigured devices "
                                f"are {' / '.join(_hexid(sl.identity) for sl in unconf_all)}")
        return

    # ---- (e) selective switch ----------------------------------------------------
    if k == "selective":
        match = [sl for sl, st0, _ in live0 if st0 == WAITING and list(op["id"]) == sl.identity]
        if match:
            if exc is not None:
                bad("raises", f"addressed slave confirmed with {[d.hex() for d in delivered]} but: {exc}")
            elif result is not True:
                bad("not-confirmed", f"returned {result!r} although the slave confirmed")
            elif any(sl.state != CONFIGURATION for sl in match):
                bad("slave-state", "slave not in configuration state")
        else:
            if exc is None and result:
                bad("phantom", f"returned {result!r} although no slave confirmed")
        return

    # ---- unconfirmed services -------------------------------------------------------
    if k in ("global", "activate", "identify", "identify_nc"):
        if exc is not None:
            bad("raises", f"unconfirmed service raised LssError: {exc}")
        elif k == "global":
            for sl, _, _ in live0:
                if sl.state != op["mode"]:
                    bad("slave-state", f"slave state {sl.state} after switch state global {op['mode']}")
                    break
        return

    # ---- (d) confirmed services -----------------------------------------------------
    conf = [sl for sl, st0, _ in live0 if st0 == CONFIGURATION]
    if len(conf) > 1:
        return      # CiA 305: these services need exactly one device in configuration state
    cs = REQ_CS[k]
    # "the reply" = the first frame that reached the master on 0x7E4 during the call: the answer of the device
    # in configuration state, or - when no device answered - a frame that belongs to something else (op field
    # "foreign", never with this service's cs): a reply with the wrong command specifier
    reply = arrivals[0].data if arrivals else None
    if delivered and not conf:
        raise RuntimeError(f"harness: answer {delivered[0].hex()} although no device is in configuration state")
    if reply is None:
        why = "silence"
    elif reply[0] != cs:
        why = f"wrong cs {reply[0]:#04x}"
    elif k in ("cfg_node", "cfg_bit", "store") and reply[1] != 0:
        why = f"error code {reply[1]}"
    else:
        why = None
    if why is not None:
        if exc is None:
            bad("no-error-on-" + why.split(" ")[0].replace("wrong", "wrong-cs"),
                f"returned {result!r} on {why} (reply {reply.hex() if reply else None})")
        return
    if exc is not None:
        bad("raises", f"slave answered {reply.hex()} but: {exc}")
        return
    if k in INQ_PART:
        want = conf[0].active_nid if k == "inq_node" else conf[0].identity[INQ_PART[k]]
        if result != want or isinstance(result, bool):
            bad("value", f"returned {result!r}, slave answered {want} ({reply.hex()})")
    elif result is not None:
        bad("value", f"returned {result!r}")


def _hexid(ids):
    try:
        return "[" + ",".join(f"{int(x):08x}" for x in ids) + "]"
    except Exception:
        return repr(ids)


def id_class(ident):
    ones = sum(bin(x).count("1") for x in ident)
    if ones == 0:
        return "all-zero"
    if ones == 128:
        return "all-one"
    if ones == 1:
        return "single-bit-set"
    if ones == 127:
        return "single-bit-cleared"
    if ones == 2:
        return "two-bits-set"
    if ones == 126:
        return "two-bits-cleared"
    if ones <= 16:
        return "sparse"
    if ones >= 112:
        return "dense"
    return "mixed"


def _op_class(s, op):
    k = op["op"]
    f = op.get("fault")
    if k == "fast_scan":
        if not s.get("present", True):
            return "scan/nobody/empty-bus"
        if s.get("nid", UNCONFIGURED) != UNCONFIGURED:
            return "scan/nobody/slave-has-node-id"
        if s.get("state", WAITING) != WAITING:
            return "scan/nobody/slave-in-configuration-state"
        if s.get("pos"):
            return "scan/stale-lsspos/" + id_class(s["id"])
        return "scan/" + id_class(s["id"])
    if k == "selective":
        if not s.get("present", True):
            return "selective/nobody"
        if list(op["id"]) != list(s["id"]):
            return "selective/mismatch"
        if s.get("state", WAITING) != WAITING:
            return "selective/slave-in-configuration-state"
        return "selective/match/" + id_class(s["id"])
    if k == "global":
        return f"global/{'configuration' if op['mode'] else 'waiting'}"
    if k in SERVICES:
        svc = "inq_address" if k in INQ_NAME else k
        if f:
            if f["kind"] == "silent":
                return "silence/programmed"
            return f"{svc}/{f['kind']}"
        if not s.get("present", True):
            return "silence/nobody"
        if s.get("state", WAITING) != CONFIGURATION:
            return "silence/slave-in-waiting-state"
        return f"{svc}/natural"
    if k == "identify_nc":
        return "identify"
    return k


def _nontrivial_op(s, op):
    k = op["op"]
    if op.get("fault"):
        return True
    mixed = id_class(s["id"]) not in ("all-zero", "all-one")
    if k in ("fast_scan", "selective") or k in INQ_NAME:
        return mixed and s.get("present", True)
    if k == "inq_node":
        return s.get("nid", UNCONFIGURED) != 0
    if k == "cfg_node":
        return op["nid"] != 0
    if k == "cfg_bit":
        return op["idx"] != 0
    if k == "activate":
        return op["delay"] != 0
    if k == "identify":
        return any(op["args"])
    return False


_virt_serial = [0]


def run_virtual(case) -> Outcome:
    """The same conformant slave behind a real python-can bus (interface 'virtual'); the master's
    Network is connected, disconnected and connected again - what a bit-rate switch with
    configure_bit_timing / activate_bit_timing makes an application do - and the inquire services
    must return the slave's answers in every connected phase."""
    import os
    import threading

    import can
    import canopen
    L = _prepare()
    D = []
    ident = list(case["slave"]["id"])
    slave = RefLssSlave(ident, UNCONFIGURED, WAITING)
    _virt_serial[0] += 1
    channel = f"verif-c18-{os.getpid()}-{_virt_serial[0]}"
    net = canopen.Network()
    net.NOTIFIER_CYCLE = 0.01
    net.lss.RESPONSE_TIMEOUT = 3.0
    for phase in range(case.get("phases", 2)):
        net.connect(interface="virtual", channel=channel)
        peer = can.Bus(interface="virtual", channel=channel)

        class _Out:
            def route(self, fr, peer=peer):
                peer.send(can.Message(arbitration_id=fr.can_id, data=fr.data, is_extended_id=False))
        slave.hub = _Out()
        stop = threading.Event()

        pump_errors = []

        def pump(peer=peer, stop=stop):
            try:
                while not stop.is_set():
                    m = peer.recv(0.005)
                    if m is not None:
                        slave.on_frame(Frame(m.arbitration_id, bytes(m.data)))
            except BaseException as e:      # a bug of the harness, never a verdict
                pump_errors.append(e)
        th = threading.Thread(target=pump, daemon=True)
        th.start()
        try:
            if phase == 0:
                net.lss.send_switch_state_global(net.lss.CONFIGURATION_STATE)
            for name in ("inq_vendor", "inq_serial", "inq_node"):
                try:
                    if name == "inq_node":
                        got = net.lss.inquire_node_id()
                        want = 0xFF
                    else:
                        got = net.lss.inquire_lss_address(getattr(L, INQ_NAME[name]))
                        want = ident[INQ_PART[name]]
                except Exception as e:
                    D.append(Discrepancy(f"C18/virtual/{name}/raises",
                                         f"connected phase {phase + 1}: {type(e).__name__}: {e} although the slave "
                                         f"answered {[d.hex() for d in slave.delivered[-1:]]}"))
                    break
                if got != want:
                    D.append(Discrepancy(f"C18/virtual/{name}/value",
                                         f"connected phase {phase + 1}: returned {got!r}, the slave holds {want:#x}"))
                    break
        finally:
            stop.set()
            th.join()
            peer.shutdown()
            net.disconnect()
        if pump_errors:
            raise RuntimeError(f"harness: the slave's bus adapter failed: {pump_errors[0]!r}")
        if D:
            break
    return Outcome(True, "virtual-bus/reconnect", D)


def run_case(case) -> Outcome:
    if case.get("fam") == "virtual":
        return run_virtual(case)
    L = _prepare()
    s = case["slave"]
    ops = case["ops"]
    latency = case.get("latency_ms")
    timeout = case.get("timeout_ms", 0) / 1000.0
    rig = Rig(s, case.get("others", ()), None if latency is None else latency / 1000.0, timeout)
    D = []
    nontrivial = bool(case.get("others")) or latency is not None
    try:
        for i, op in enumerate(ops):
            if op["op"] == "new_device":
                # another unconfigured device with its own identity is connected to the same bus, same
                # master object; the devices handled so far are done and keep quiet from now on (default)
                # or stay what they are ("keep")
                if not op.get("keep"):
                    for sl in rig.slaves:
                        sl.mute = True
                rig.add({"id": op["id"], "pos": op.get("pos", 0)})
                nontrivial = True
                continue
            if op.get("foreign"):
                why = _foreign_out_of_domain(op, latency)
                if why:
                    return Outcome(excluded=why)
                nontrivial = True
            tag = f"call {i} {_describe(op)} ({_describe_bus(rig)})"
            nontrivial = nontrivial or _nontrivial_op(s, op)
            _step(L, rig, op, tag, D)
            if D:
                break
            if any(sl.withheld for sl in rig.slaves):
                for sl in rig.slaves:
                    sl.release_withheld()     # the late reply arrives after the call gave up
                rig.settle()
    finally:
        rig.close()
    if D and rig.delay is not None and rig.delay.max_delay > timeout / 2:
        # the verdict would rest on the time-out: an answer took more than half of RESPONSE_TIMEOUT to get
        # through on this (loaded) machine
        return Outcome(excluded="latency: reply delivery took longer than RESPONSE_TIMEOUT/2 on this machine")
    live = [sl for sl in rig.slaves if not sl.mute]
    if case.get("klass"):
        klass = case["klass"]
    elif len(ops) == 1:
        klass = _op_class(dict(s), ops[0])
        if case.get("others"):
            klass += "/other-devices-on-the-bus"
    else:
        nf = sum(1 for o in ops if o.get("fault"))
        entered = any(t[1] == CONFIGURATION and t[2] != "switch state global"
                      for sl in live for t in sl.transitions)
        klass = ("history/" + ("no-fault" if nf == 0 else "faults1" if nf == 1 else "faults2+")
                 + ("/scan-or-selective-confirmed" if entered else "")
                 + ("/several-devices" if case.get("others") else ""))
    if latency is not None and not klass.startswith("latency/"):
        klass = "latency/" + klass
    if any(op.get("foreign") for op in ops):
        klass += ("/foreign-frame-at-unanswered-request" if any(not a for _, a in rig.fired) else
                  "/foreign-frame-behind-answer" if rig.fired else "/foreign-frame-not-reached")
    return Outcome(nontrivial, klass, D)


def _own_cs(op):
    """The command specifier of the answer the call waits for (None: it waits for nothing)."""
    k = op["op"]
    return 0x4F if k == "fast_scan" else 0x44 if k == "selective" else REQ_CS.get(k)


def _foreign_out_of_domain(op, latency):
    if latency is not None:
        return "foreign frame together with a reply latency (order of arrival not determined)"
    for ent in op["foreign"]:
        if bytes.fromhex(ent["data"])[0] == _own_cs(op) or len(ent["data"]) != 16:
            return "foreign frame that carries the cs of the awaited answer (it IS an answer for the master)"
    return None


def _describe_bus(rig):
    out = []
    for sl in rig.slaves:
        out.append(f"slave {_hexid(sl.identity)} nid {sl.active_nid} state {sl.state} LSSPos {sl.fs_pos}"
                   f"{' MUTE' if sl.mute else ''}")
    return "; ".join(out[-3:])


def _describe(op):
    extra = {k: v for k, v in op.items() if k != "op"}
    if "foreign" in extra:
        extra["foreign"] = [f"{e['data']} after request {e['at']}" for e in extra["foreign"]]
    if "id" in extra:
        extra["id"] = _hexid(extra["id"])
    return f"{op['op']}{extra if extra else ''}"


# ---- generation ---------------------------------------------------------------
def split128(v):
    return [(v >> (32 * i)) & ALL1 for i in range(4)]


def boundary_identities():
    full = (1 << 128) - 1
    yield split128(0)
    yield split128(full)
    for b in range(128):
        yield split128(1 << b)
    for b in range(128):
        yield split128(full ^ (1 << b))


def pair_identities():
    full = (1 << 128) - 1
    for a in range(128):
        for b in range(a + 1, 128):
            v = (1 << a) | (1 << b)
            yield split128(v)
            yield split128(full ^ v)


def u32_boundaries():
    s = [0, ALL1]
    for b in range(32):
        s.append(1 << b)
        s.append(ALL1 ^ (1 << b))
    return s


BASE_ID = [0x00000022, 0x12345678, 0x00000555, 0x00ABCDEF]     # the identity of doc/lss.rst
OTHER_CS = [0x04, 0x11, 0x13, 0x15, 0x17, 0x40, 0x43, 0x44, 0x4F, 0x50, 0x51, 0x5A, 0x5B, 0x5C, 0x5D, 0x5E]


def slave(ident=None, nid=UNCONFIGURED, state=WAITING, present=True):
    d = {"id": list(ident if ident is not None else BASE_ID), "nid": nid, "state": state}
    if not present:
        d["present"] = False
    return d


def svc_op(svc, n=0):
    if svc == "cfg_node":
        return {"op": svc, "nid": (n * 37 + 1) % 128 or 1}
    if svc == "cfg_bit":
        return {"op": svc, "idx": (0, 1, 2, 3, 4, 6, 7, 8)[n % 8]}
    return {"op": svc}


def activate_delays(thorough):
    if thorough:
        return list(range(65536))
    s = set(range(0, 300)) | {65535, 65534, 32767, 32768, 1000, 10000, 0x1234, 0xFF00, 0x00FF, 0xABCD}
    for b in range(16):
        for d in (-1, 0, 1):
            s.add(((1 << b) + d) & 0xFFFF)
            s.add((0xFFFF ^ (1 << b)) & 0xFFFF)
        s.add((0x100 << (b % 8)) & 0xFFFF | b)
    return sorted(s)


def enum_cases(thorough):
    conf = CONFIGURATION
    # (a) scans
    for ident in boundary_identities():
        yield {"slave": slave(ident), "ops": [{"op": "fast_scan"}]}
    # (b) nobody takes part
    yield {"slave": slave(present=False), "ops": [{"op": "fast_scan"}]}
    yield {"slave": slave(split128((1 << 128) - 1), present=False), "ops": [{"op": "fast_scan"}]}
    for nid in (1, 5, 127):
        yield {"slave": slave(nid=nid), "ops": [{"op": "fast_scan"}]}
    yield {"slave": slave(state=conf), "ops": [{"op": "fast_scan"}]}
    yield {"slave": slave([0, 0, 0, 0], state=conf), "ops": [{"op": "fast_scan"}]}
    yield {"slave": slave(), "klass": "scan/repeated", "ops": [{"op": "fast_scan"}, {"op": "fast_scan"}]}
    yield {"slave": slave(), "klass": "scan/repeated",
           "ops": [{"op": "fast_scan"}, {"op": "global", "mode": 0}, {"op": "fast_scan"}]}
    # (e) selective switch
    for ident in boundary_identities():
        yield {"slave": slave(ident), "ops": [{"op": "selective", "id": ident}]}
    for b in range(128):
        other = split128(sum(x << (32 * i) for i, x in enumerate(BASE_ID)) ^ (1 << b))
        yield {"slave": slave(), "ops": [{"op": "selective", "id": other}]}
    yield {"slave": slave(present=False), "ops": [{"op": "selective", "id": BASE_ID}]}
    yield {"slave": slave(state=conf), "ops": [{"op": "selective", "id": BASE_ID}]}
    # commissioning as in doc/lss.rst, through both entrances
    tail = [{"op": "inq_vendor"}, {"op": "inq_product"}, {"op": "inq_revision"}, {"op": "inq_serial"},
            {"op": "inq_node"}, {"op": "cfg_node", "nid": 17}, {"op": "cfg_bit", "idx": 2}, {"op": "store"},
            {"op": "activate", "delay": 500}, {"op": "global", "mode": 0}, {"op": "inq_node"}]
    for n, ident in enumerate([BASE_ID, [0x80000001, 0x01020304, 0xFFFFFFFE, 0x7FFFFFFF],
                               [0xDEADBEEF, 0, ALL1, 0x00010000], [1, 2, 3, 4]]):
        yield {"slave": slave(ident), "klass": "commission/fast-scan", "ops": [{"op": "fast_scan"}] + tail}
        yield {"slave": slave(ident, nid=n + 1), "klass": "commission/selective",
               "ops": [{"op": "selective", "id": ident}] + tail}
        yield {"slave": slave(ident), "klass": "commission/global",
               "ops": [{"op": "global", "mode": 1, "alias": bool(n % 2)}] + tail}
    # (d) inquiries
    for nid in range(256):
        yield {"slave": slave(nid=nid, state=conf), "ops": [{"op": "inq_node"}]}
    for part, svc in enumerate(("inq_vendor", "inq_product", "inq_revision", "inq_serial")):
        for v in u32_boundaries():
            ident = [0x11111111, 0x22222222, 0x33333333, 0x44444444]
            ident[part] = v
            yield {"slave": slave(ident, state=conf), "ops": [{"op": svc}]}
    for v in (0x01020304, 0x80FF7F00, 0xA1B2C3D4):
        for rot in range(4):
            ident = [v, (v * 3) & ALL1, (v * 5) & ALL1, (v * 7) & ALL1]
            ident = ident[rot:] + ident[:rot]
            yield {"slave": slave(ident, state=conf), "klass": "inquire/all-four",
                   "ops": [{"op": "inq_serial"}, {"op": "inq_vendor"}, {"op": "inq_revision"},
                           {"op": "inq_product"}]}
    # (c)+(d) configure services, natural answers of a conformant slave
    for nid in range(256):
        yield {"slave": slave(state=conf), "ops": [{"op": "cfg_node", "nid": nid}]}
    for idx in range(256):
        yield {"slave": slave(state=conf), "ops": [{"op": "cfg_bit", "idx": idx}]}
    yield {"slave": slave(state=conf), "ops": [{"op": "store"}]}
    # every error code
    for svc in ("cfg_node", "cfg_bit", "store"):
        for code in range(256):
            specs = [0] if code != 255 else ([0, 1, 0x80, 0xFF] if not thorough else range(256))
            for spec in specs:
                yield {"slave": slave(state=conf),
                       "ops": [dict(svc_op(svc, code), fault={"kind": "err", "code": code, "spec": spec})]}
    # every wrong command specifier
    for n, svc in enumerate(SERVICES):
        for cs in range(256):
            if cs == REQ_CS[svc]:
                continue
            yield {"slave": slave(nid=(cs % 127) + 1, state=conf),
                   "ops": [dict(svc_op(svc, cs), fault={"kind": "cs", "cs": cs})]}
    # silence: programmed, slave in waiting state, nobody there
    for n, svc in enumerate(SERVICES):
        yield {"slave": slave(state=conf), "ops": [dict(svc_op(svc, n), fault={"kind": "silent"})]}
        yield {"slave": slave(state=WAITING), "ops": [svc_op(svc, n)]}
        yield {"slave": slave(present=False), "ops": [svc_op(svc, n)]}
        # late reply, then calls that must get their own answers
        for m, svc2 in enumerate(SERVICES):
            nxt = svc_op(svc2, n + m + 1)
            if svc2 == "cfg_node":
                nxt = {"op": "cfg_node", "nid": 200}        # a conformant slave refuses: error code 1
            elif svc2 == "cfg_bit":
                nxt = {"op": "cfg_bit", "idx": 5}           # reserved index: error code 1
            yield {"slave": slave(nid=9, state=conf), "klass": "late-reply",
                   "ops": [dict(svc_op(svc, n), fault={"kind": "late"}), nxt, svc_op(svc2, m)]}
    # an identify answer nobody waited for is in the queue when the next service starts
    ident_args = [BASE_ID[0], BASE_ID[1], 0, ALL1, BASE_ID[3], BASE_ID[3]]
    for n, svc in enumerate(SERVICES):
        for first in ({"op": "identify", "args": ident_args}, {"op": "identify_nc"}):
            nxt = {"op": "cfg_node", "nid": 128 + n} if svc == "cfg_node" else (
                {"op": "cfg_bit", "idx": 9 + n} if svc == "cfg_bit" else svc_op(svc, n))
            yield {"slave": slave(state=conf), "klass": "stale/" + first["op"], "ops": [first, nxt]}
    # ... and several of them (identify services polled more than once before the next service)
    for n, svc in enumerate(SERVICES):
        for firsts in ([{"op": "identify_nc"}, {"op": "identify_nc"}],
                       [{"op": "identify", "args": ident_args}, {"op": "identify_nc"}],
                       [{"op": "identify_nc"}, {"op": "identify", "args": ident_args}, {"op": "identify_nc"}]):
            yield {"slave": slave(state=conf), "klass": "stale/several", "ops": firsts + [svc_op(svc, n)]}
    for firsts in ([{"op": "identify_nc"}] * 2, [{"op": "identify", "args": ident_args}, {"op": "identify_nc"}],
                   [{"op": "identify_nc"}] * 3):
        yield {"slave": slave(), "klass": "stale/several", "ops": firsts + [{"op": "fast_scan"}]}
        yield {"slave": slave(), "klass": "stale/several", "ops": firsts + [{"op": "selective", "id": BASE_ID}]}
    # commissioning loop: scan a device, give it a node id, then the next unconfigured device appears
    second = [[0x00ABCDF0, 1, 2, 3], [0, 0, 0, 0], [BASE_ID[0] ^ 0x10, BASE_ID[1], BASE_ID[2], BASE_ID[3] & 0x0F0F0F0F],
              [ALL1, ALL1, ALL1, ALL1], [1, 0x80000000, 0, 0x7FFFFFFF]]
    for first_id in (BASE_ID, [ALL1] * 4, [0x00ABCDEF, 1, 2, 3]):
        for ident2 in second:
            yield {"slave": slave(first_id), "klass": "commission/two-devices", "ops": [
                {"op": "fast_scan"}, {"op": "cfg_node", "nid": 5}, {"op": "store"}, {"op": "global", "mode": 0},
                {"op": "new_device", "id": ident2}, {"op": "fast_scan"}, {"op": "inq_serial"},
                {"op": "cfg_node", "nid": 6}, {"op": "global", "mode": 0},
                {"op": "new_device", "id": first_id}, {"op": "fast_scan"}]}
    for args in ([0, 0, 0, 0, 0, 0], [ALL1] * 6, [1, 2, 3, 4, 5, 6], [0x01020304, 0x05060708, 0x090A0B0C,
                 0x0D0E0F10, 0x11121314, 0x15161718], [0x80000000, 0x00800000, 0x00008000, 0x00000080, 0x7F, 0x7F00]):
        yield {"slave": slave(), "ops": [{"op": "identify", "args": args}]}
    yield {"slave": slave(), "ops": [{"op": "identify_nc"}]}
    # unconfirmed services
    for mode in (0, 1):
        for st0 in (WAITING, conf):
            for alias in (False, True):
                yield {"slave": slave(state=st0), "ops": [{"op": "global", "mode": mode, "alias": alias}]}
    for d in activate_delays(thorough):
        yield {"slave": slave(state=conf), "ops": [{"op": "activate", "delay": d}]}
    yield from lsspos_cases(thorough)
    yield from listening_cases(thorough)
    yield from several_answers_cases()
    yield from latency_cases(thorough)
    yield from foreign_cases(thorough)
    if thorough:
        for ident in pair_identities():
            yield {"slave": slave(ident), "ops": [{"op": "fast_scan"}]}


def lsspos_cases(thorough):
    """(a) the device was left at LSSPos 1..3 by fastscan traffic it witnessed earlier (another device was
    being found, a scan was broken off): still a conformant unconfigured slave in waiting state."""
    few = [BASE_ID, [0, 0, 0, 0], [ALL1] * 4, [1, 0, 0, 0], [0, 0, 0, 0x80000000], [0, 1, 0, 0],
           [0x80000001, 0x01020304, 0xFFFFFFFE, 0x7FFFFFFF], [0xDEADBEEF, 0, ALL1, 0x00010000],
           [ALL1, ALL1, ALL1, ALL1 ^ 1], [0x7FFFFFFF, ALL1, ALL1, ALL1]]
    for pos in (1, 2, 3):
        for ident in (boundary_identities() if thorough else few):
            yield {"slave": dict(slave(ident), pos=pos), "ops": [{"op": "fast_scan"}]}
        yield {"slave": dict(slave(), pos=pos), "klass": "scan/stale-lsspos/repeated",
               "ops": [{"op": "fast_scan"}, {"op": "global", "mode": 0}, {"op": "fast_scan"}]}
        yield {"slave": dict(slave(), pos=pos), "klass": "commission/fast-scan/stale-lsspos",
               "ops": [{"op": "fast_scan"}, {"op": "inq_vendor"}, {"op": "inq_product"}, {"op": "inq_revision"},
                       {"op": "inq_serial"}, {"op": "inq_node"}, {"op": "cfg_node", "nid": 17 + pos},
                       {"op": "store"}, {"op": "global", "mode": 0}]}
        # a device that is not found by the scan (it has a node-id) keeps its position, whatever it is
        yield {"slave": dict(slave(nid=5), pos=pos), "ops": [{"op": "fast_scan"}]}


def _variant(ident, part, n):
    out = list(ident)
    out[part] = (out[part] ^ (0x10 << (n % 24))) & ALL1
    return out


def listening_cases(thorough):
    """Commissioning loop of doc/lss.rst with all devices connected from the start: while one device is
    being found the other unconfigured ones follow the scan as far as their identity agrees (their LSSPos
    advances); after the found one got its node-id, the next fast_scan has ONE participant again."""
    commission = lambda nid: [{"op": "fast_scan"}, {"op": "inq_serial"}, {"op": "cfg_node", "nid": nid},
                              {"op": "store"}, {"op": "global", "mode": 0}]
    bases = [BASE_ID, [0x00ABCDEF, 1, 2, 3]] + ([[ALL1] * 4, [0, 0, 0, 0], [0x80000000, 0, ALL1, 1]]
                                                if thorough else [])
    n = 0
    for base in bases:
        for share in range(4):               # number of leading parts the two identities have in common
            n += 1
            other = _variant(base, share, n)
            for a, b in ((base, other), (other, base)):
                yield {"slave": slave(a), "others": [slave(b)], "klass": "commission/two-devices-listening",
                       "ops": commission(5) + commission(6) + [{"op": "fast_scan"}]}
    # three devices: two share vendor/product/revision, the third only the vendor
    a = BASE_ID
    b, c = _variant(a, 3, 2), _variant(a, 1, 9)
    for first, rest in ((a, [b, c]), (b, [c, a]), (c, [a, b])):
        yield {"slave": slave(first), "others": [slave(x) for x in rest],
               "klass": "commission/three-devices-listening",
               "ops": commission(5) + commission(6) + commission(7) + [{"op": "fast_scan"}]}
    # a configured device and one in configuration state elsewhere on the bus do not disturb the scan
    yield {"slave": slave(a), "others": [slave(b, nid=9), slave(c, nid=10)],
           "klass": "commission/configured-devices-on-the-bus", "ops": commission(5) + [{"op": "fast_scan"}]}


def several_answers_cases():
    """(d)/(e)/(a) One identify request is answered by several devices; none of these answers is read by
    the identify call, so more than one unread frame is queued when the next service starts.  That service
    must still get the answer of the one device in configuration state."""
    conf = CONFIGURATION
    a = BASE_ID
    b = [a[0], a[1], a[2], a[3] + 1]            # same vendor/product/revision: configured, waiting state
    c = [a[0], a[1], a[2] + 1, 7]               # same vendor/product: unconfigured, waiting state
    d = [a[0], a[1], 0, 0xFFFFFFF0]
    rng = [a[0], a[1], 0, ALL1, 0, ALL1]
    for n, svc in enumerate(SERVICES):
        for others in ([slave(b, nid=5)], [slave(b, nid=5), slave(c)], [slave(b, nid=5), slave(c), slave(d, nid=6)]):
            yield {"slave": slave(a, state=conf), "others": others, "klass": "stale/answers-of-several-devices",
                   "ops": [{"op": "identify", "args": rng}, svc_op(svc, n), {"op": "identify", "args": rng},
                           svc_op(svc, n + 1)]}
        yield {"slave": slave(a, state=conf), "others": [slave(c), slave(d)],
               "klass": "stale/answers-of-several-devices",
               "ops": [{"op": "identify_nc"}, svc_op(svc, n), {"op": "identify_nc"}, {"op": "identify", "args": rng},
                       svc_op(svc, n + 2)]}
    tail = [{"op": "inq_node"}, {"op": "identify", "args": rng}, {"op": "inq_serial"},
            {"op": "identify", "args": rng}, {"op": "cfg_node", "nid": 7}, {"op": "identify", "args": rng},
            {"op": "store"}, {"op": "inq_vendor"}]
    for others in ([slave(b, nid=5)], [slave(b, nid=5), slave(d, nid=6)]):
        yield {"slave": slave(a, nid=3), "others": others, "klass": "stale/answers-of-several-devices",
               "ops": [{"op": "identify", "args": rng}, {"op": "selective", "id": a}] + tail}
        yield {"slave": slave(a), "others": others, "klass": "stale/answers-of-several-devices",
               "ops": [{"op": "identify", "args": rng}, {"op": "fast_scan"}] + tail}


def _sparse_identity(n):
    """2..4 one-bits, spread over the four parts (every 1 bit of the address costs the scan one full
    RESPONSE_TIMEOUT of real time), n-th member of a fixed family."""
    bits = {(7 * n + 3) % 128, (37 * n + 64) % 128, (11 * n * n + 31) % 128}
    if n % 3 == 0:
        bits.add(32 * (n % 4))            # bit 0 of a part: the extra confirmation request
    return split128(sum(1 << b for b in bits))


def latency_cases(thorough):
    """Every service with the answers arriving asynchronously, `latency_ms` after the request, well below
    RESPONSE_TIMEOUT (`timeout_ms`)."""
    T = 250
    tail = [{"op": "inq_vendor"}, {"op": "inq_product"}, {"op": "inq_revision"}, {"op": "inq_serial"},
            {"op": "inq_node"}, {"op": "cfg_node", "nid": 17}, {"op": "cfg_bit", "idx": 2}, {"op": "store"},
            {"op": "activate", "delay": 500}, {"op": "global", "mode": 0}, {"op": "inq_node"}]
    scans = [(12, [0x80000000, 0x00000001, 0x00010000, 0], 0), (2, [0, 0x00400000, 2, 0x80000001], 3)]
    if thorough:
        scans += [((1, 5, 12, 30)[n % 4], _sparse_identity(n), n % 4) for n in range(1, 31)]
    for lat, ident, pos in scans:
        yield {"latency_ms": lat, "timeout_ms": T, "slave": dict(slave(ident), pos=pos),
               "klass": "latency/commission/fast-scan", "ops": [{"op": "fast_scan"}] + tail[3:8]}
    for n, lat in enumerate((1, 12, 30) + ((3, 60) if thorough else ())):
        ident = [BASE_ID, [0x80000001, 0x01020304, 0xFFFFFFFE, 0x7FFFFFFF], [1, 2, 3, 4]][n % 3]
        yield {"latency_ms": lat, "timeout_ms": T, "slave": slave(ident, nid=n + 1),
               "klass": "latency/commission/selective", "ops": [{"op": "selective", "id": ident}] + tail}
        # refusals and wrong answers arrive late as well
        yield {"latency_ms": lat, "timeout_ms": T, "slave": slave(ident, state=CONFIGURATION),
               "klass": "latency/faults",
               "ops": [{"op": "cfg_node", "nid": 200}, {"op": "cfg_bit", "idx": 5},
                       {"op": "store", "fault": {"kind": "err", "code": 2, "spec": 0}},
                       {"op": "inq_node", "fault": {"kind": "cs", "cs": 0x5D}},
                       {"op": "cfg_node", "nid": 9, "fault": {"kind": "silent"}}, {"op": "inq_serial"}]}
    # answers of several devices to one identify request trickle in, then a confirmed service
    a = BASE_ID
    rng = [a[0], a[1], 0, ALL1, 0, ALL1]
    yield {"latency_ms": 5, "timeout_ms": T, "slave": slave(a, nid=3),
           "others": [slave([a[0], a[1], a[2], a[3] + 1], nid=5)], "klass": "latency/several-devices",
           "ops": [{"op": "identify", "args": rng}, {"op": "selective", "id": a}, {"op": "inq_node"},
                   {"op": "identify", "args": rng}, {"op": "inq_serial"}, {"op": "identify", "args": rng},
                   {"op": "cfg_node", "nid": 7}, {"op": "store"}]}


# Frames a conformant LSS slave sends on 0x7E4 in answer to OTHER services than the one that is running (a
# late answer to an earlier inquiry / configuration / selective switch / identify request), and raw ones
FOREIGN_FRAMES = ["5eff000000000000", "5a22000000000000", "5defcdab00000000", "1100000000000000",
                  "1301000000000000", "1700000000000000", "4400000000000000", "5000000000000000",
                  "5e05000000000000", "17ff2a0000000000", "0000000000000000", "ffffffffffffffff",
                  "4e00000000000000", "5100000000800000", "4f00000000000000", "cf4f4f4f4f4f4f4f"]
SCAN_REQUESTS = 1 + 4 * 33       # the start probe, then per 32-bit part 32 bit probes and one confirmation


def _foreign_for(op, n):
    """n-th frame of FOREIGN_FRAMES that is no answer to `op`."""
    while True:
        data = FOREIGN_FRAMES[n % len(FOREIGN_FRAMES)]
        if int(data[:2], 16) != _own_cs(op):
            return data
        n += 1


def foreign_cases(thorough):
    """(a)(b)(d)(e) ONE frame that is no answer to the running request (another cs) reaches the master on
    0x7E4 while it waits: after request number `at` of the call has been heard (and, where a device has
    something to say, answered) by every device.  Where the devices stay silent it is the reply the master
    reads: for a fastscan probe 'not acknowledged', for selective switch 'not confirmed', for the confirmed
    services 'a reply with the wrong command specifier'."""
    conf = CONFIGURATION
    scan = {"op": "fast_scan"}
    idents = [BASE_ID, [0x80000001, 0x01020304, 0xFFFFFFFE, 0x7FFFFFFF]]
    if thorough:
        idents += [[0xDEADBEEF, 0, ALL1, 0x00010000], [ALL1] * 4, [0, 0, 0, 0], [1, 0, 0, 0],
                   [0, 0, 0, 0x80000000], [0x55555555, 0xAAAAAAAA, 0x33333333, 0xCCCCCCCC]]
    n = 0
    for j, ident in enumerate(idents):
        for at in range(SCAN_REQUESTS + 1):           # one position behind the last request: never reached
            if j and not thorough and at % 3 != j:
                continue
            n += 1
            yield {"slave": slave(ident), "ops": [dict(scan, foreign=[{"at": at, "data": _foreign_for(scan, n)}])]}
    for m in range(len(FOREIGN_FRAMES)):              # every frame of the list, at a probe nobody answers
        at = 1 + 33 + (31 - 17) if m % 2 else 1 + 2 * 33 + (31 - 10)      # BASE_ID: product bit 17, revision bit 10
        yield {"slave": slave(), "ops": [dict(scan, foreign=[{"at": at, "data": _foreign_for(scan, m)}])]}
        yield {"slave": slave([ALL1] * 4), "ops": [dict(scan, foreign=[{"at": 1 + (7 * m) % 32, "data": _foreign_for(scan, m)}])]}
    # several of them in one scan; a stale LSSPos; the scan as entrance of the commissioning sequence
    tail = [{"op": "inq_serial"}, {"op": "inq_node"}, {"op": "cfg_node", "nid": 17}, {"op": "store"}]
    for j, ident in enumerate(idents):
        several = [{"at": at, "data": _foreign_for(scan, at + j)} for at in range(2 + j, SCAN_REQUESTS, 29)]
        yield {"slave": slave(ident), "klass": "commission/fast-scan", "ops": [dict(scan, foreign=several)] + tail}
        yield {"slave": dict(slave(ident), pos=1 + j % 3), "ops": [dict(scan, foreign=several[1:4])]}
    # nobody takes part: the frame is no "identify slave" either
    for at in (0, 1, 5):
        for s in (slave(present=False), slave(nid=5), slave(state=conf)):
            n += 1
            yield {"slave": s, "ops": [dict(scan, foreign=[{"at": at, "data": _foreign_for(scan, n)}])]}
    # a late answer of the very device: inquiry given up, device switched back to waiting state, scan
    for at in range(1, SCAN_REQUESTS, 1 if thorough else 7):
        yield {"slave": slave(state=conf), "klass": "scan/after-inquiry-given-up",
               "ops": [{"op": "inq_node", "fault": {"kind": "silent"}}, {"op": "global", "mode": 0},
                       dict(scan, foreign=[{"at": at, "data": "5eff000000000000"}]), {"op": "inq_vendor"}]}
    # (e) selective switch: only the fourth request is answered
    for m in range(len(FOREIGN_FRAMES)):
        for at in range(4):
            good = {"op": "selective", "id": BASE_ID}
            off = {"op": "selective", "id": _variant(BASE_ID, m % 4, m)}
            yield {"slave": slave(), "ops": [dict(good, foreign=[{"at": at, "data": _foreign_for(good, m)}])]}
            yield {"slave": slave(), "ops": [dict(off, foreign=[{"at": at, "data": _foreign_for(off, m)}])]}
        yield {"slave": slave(present=False), "ops": [dict(good, foreign=[{"at": 3, "data": _foreign_for(good, m)}])]}
    # (d) confirmed services: behind the device's answer; instead of it (device silent / in waiting state / absent)
    for n, svc in enumerate(SERVICES):
        for m in range(len(FOREIGN_FRAMES)):
            op = svc_op(svc, n + m)
            fr = [{"at": 0, "data": _foreign_for(op, m)}]
            yield {"slave": slave(state=conf), "klass": f"{svc}/foreign-frame",
                   "ops": [dict(op, foreign=fr), svc_op(svc, n + m + 1)]}
            yield {"slave": slave(state=(WAITING, conf)[m % 2], present=bool(m % 3)),
                   "ops": [dict(op, foreign=fr, **({"fault": {"kind": ("silent", "late")[m % 4 // 2]}} if m % 2 else {}))]}


# Hypothesis ---------------------------------------------------------------------
def u32s():
    return st.one_of(
        st.binary(min_size=4, max_size=4).map(lambda b: int.from_bytes(b, "little")),
        st.sampled_from(u32_boundaries()),
        st.integers(0, ALL1),
        st.tuples(st.integers(0, 255), st.integers(0, 3)).map(lambda t: t[0] << (8 * t[1])),
    )


def identities():
    return st.one_of(
        st.binary(min_size=16, max_size=16).map(lambda b: split128(int.from_bytes(b, "little"))),
        st.lists(u32s(), min_size=4, max_size=4),
        st.sets(st.integers(0, 127), min_size=1, max_size=8).map(lambda bits: split128(sum(1 << b for b in bits))),
        st.sets(st.integers(0, 127), min_size=1, max_size=8).map(
            lambda bits: split128(((1 << 128) - 1) ^ sum(1 << b for b in bits))),
    )


@st.composite
def random_scan(draw):
    ident = draw(identities())
    return {"slave": slave(ident), "ops": [{"op": "fast_scan"}]}


@st.composite
def random_selective(draw):
    ident = draw(identities())
    if draw(st.integers(0, 3)) == 0:
        asked = list(ident)
        asked[draw(st.integers(0, 3))] ^= 1 << draw(st.integers(0, 31))
    else:
        asked = list(ident)
    return {"slave": slave(ident), "ops": [{"op": "selective", "id": asked}]}


def faults(svc):
    choices = [st.just({"kind": "silent"}), st.just({"kind": "late"}),
               st.one_of(st.sampled_from(OTHER_CS), st.integers(0, 255)).filter(lambda c: c != REQ_CS[svc])
               .map(lambda c: {"kind": "cs", "cs": c})]
    if svc in ("cfg_node", "cfg_bit", "store"):
        choices.append(st.tuples(st.one_of(st.integers(0, 2), st.integers(0, 255)), st.integers(0, 255))
                       .map(lambda t: {"kind": "err", "code": t[0], "spec": t[1] if t[0] == 255 else 0}))
    return st.one_of(choices)


def _draw_op(draw, idents):
    k = draw(st.sampled_from(["fast_scan", "selective", "global", "global", "activate", "identify",
                              "identify_nc"] + SERVICES * 3))
    ident = idents[0] if len(idents) == 1 else draw(st.sampled_from(idents))
    if k == "fast_scan":
        op = {"op": k}
    elif k == "selective":
        asked = list(ident)
        if draw(st.integers(0, 4)) == 0:
            asked[draw(st.integers(0, 3))] ^= 1 << draw(st.integers(0, 31))
        op = {"op": k, "id": asked}
    elif k == "global":
        op = {"op": k, "mode": draw(st.integers(0, 1)), "alias": draw(st.integers(0, 3)) == 0}
    elif k == "activate":
        op = {"op": k, "delay": draw(st.one_of(st.integers(0, 65535), st.sampled_from([0, 1, 255, 256, 65535])))}
    elif k == "identify":
        if draw(st.booleans()):
            lo_r, hi_r = sorted([draw(u32s()), draw(u32s())])
            lo_s, hi_s = sorted([draw(u32s()), draw(u32s())])
            args = [ident[0], ident[1], lo_r, hi_r, lo_s, hi_s]
        else:
            args = [draw(u32s()) for _ in range(6)]
        op = {"op": k, "args": args}
    elif k == "identify_nc":
        op = {"op": k}
    else:
        if k == "cfg_node":
            op = {"op": k, "nid": draw(st.one_of(st.integers(1, 127), st.integers(0, 255)))}
        elif k == "cfg_bit":
            op = {"op": k, "idx": draw(st.one_of(st.integers(0, 9), st.integers(0, 255)))}
        else:
            op = {"op": k}
        if draw(st.integers(0, 2)) == 0:
            op["fault"] = draw(faults(k))
    return op


@st.composite
def history(draw):
    ident = draw(identities())
    nid = draw(st.sampled_from([UNCONFIGURED, UNCONFIGURED, UNCONFIGURED, 1, 5, 127, 0]))
    state = draw(st.sampled_from([WAITING, WAITING, CONFIGURATION]))
    present = draw(st.integers(0, 9)) != 0
    s = slave(ident, nid, state, present)
    ops = []
    for _ in range(draw(st.integers(2, 10))):
        ops.append(_draw_op(draw, [ident]))
    return {"slave": s, "ops": ops}


@st.composite
def random_scan_lsspos(draw):
    ident = draw(identities())
    return {"slave": dict(slave(ident), pos=draw(st.integers(1, 3))), "ops": [{"op": "fast_scan"}]}


@st.composite
def bus_history(draw):
    """Histories on a bus with two or three devices: identities that agree in 0..4 leading parts (so that
    the devices follow each other's scan and answer the same identify requests), any LSSPos to begin with."""
    ident = draw(identities())
    idents = [ident]
    others = []
    for j in range(draw(st.integers(1, 2))):
        share = draw(st.integers(0, 4))
        oid = list(ident[:min(share, 3)]) + [draw(u32s()) for _ in range(4 - min(share, 3))]
        if share == 4:
            oid[3] = ident[3] ^ (1 << draw(st.integers(0, 31)))
        while oid in idents:                  # identities are unique (CiA 305)
            oid[3] = (oid[3] + 1) & ALL1
        idents.append(oid)
        o = slave(oid, draw(st.sampled_from([UNCONFIGURED, UNCONFIGURED, 5 + j, 127])),
                  draw(st.sampled_from([WAITING] * 5 + [CONFIGURATION])))
        o["pos"] = draw(st.integers(0, 3))
        others.append(o)
    nid = draw(st.sampled_from([UNCONFIGURED, UNCONFIGURED, UNCONFIGURED, 1, 3]))
    s = slave(ident, nid, draw(st.sampled_from([WAITING, WAITING, CONFIGURATION])))
    s["pos"] = draw(st.integers(0, 3))
    ops = []
    for _ in range(draw(st.integers(2, 10))):
        if draw(st.integers(0, 5)) == 0:
            # the identify request every device of this vendor/product answers
            ops.append({"op": "identify", "args": [ident[0], ident[1], 0, ALL1, 0, ALL1]})
        else:
            ops.append(_draw_op(draw, idents))
    return {"slave": s, "others": others, "ops": ops}


def _foreign_frames(draw, op):
    own = _own_cs(op)
    span = SCAN_REQUESTS + 2 if op["op"] == "fast_scan" else 5 if op["op"] == "selective" else \
        7 if op["op"] == "identify" else 2
    out = []
    for _ in range(draw(st.sampled_from([1, 1, 1, 2, 3]))):
        data = draw(st.one_of(st.sampled_from(FOREIGN_FRAMES),
                              st.binary(min_size=8, max_size=8).map(bytes.hex),
                              st.integers(0, 255).map(lambda c: bytes([c] + [0] * 7).hex())))
        if int(data[:2], 16) == own:
            data = f"{own ^ 0x10:02x}" + data[2:]
        out.append({"at": draw(st.integers(0, span - 1)), "data": data})
    return out


@st.composite
def random_scan_foreign(draw):
    ident = draw(identities())
    s = slave(ident)
    c = draw(st.integers(0, 9))
    if c == 0:
        s = slave(ident, present=False)
    elif c == 1:
        s["pos"] = draw(st.integers(1, 3))
    op = {"op": "fast_scan"}
    op["foreign"] = _foreign_frames(draw, op)
    return {"slave": s, "ops": [op]}


@st.composite
def history_foreign(draw):
    """A history (one device, or a bus of 2..3) in which some calls see frames that are no answer to them."""
    case = draw(st.one_of(history(), history(), bus_history()))
    marked = 0
    for op in case["ops"]:
        if draw(st.integers(0, 2)) == 0:
            op["foreign"] = _foreign_frames(draw, op)
            marked += 1
    if not marked:
        op = case["ops"][draw(st.integers(0, len(case["ops"]) - 1))]
        op["foreign"] = _foreign_frames(draw, op)
    return case


def search(ctx):
    thorough = ctx.tier == "thorough"
    ctx.enumerate(enum_cases(thorough),
                  "identities all-zero/all-one/single bit set/single bit cleared"
                  + ("/every pair of bits" if thorough else "")
                  + " for scan and selective switch; node-ids 0..255; bit-timing indexes 0..255; error codes "
                    "0..255 x 3 services; wrong cs 0..255 x 8 services; silence/late per service; switch delays "
                  + ("0..65535" if thorough else "(boundary set)")
                  + "; initial LSSPos 1..3 x " + ("every boundary identity" if thorough else "10 identities")
                  + "; two/three unconfigured devices listening to each other's scan (0..3 leading identity "
                    "parts in common, both orders); 8 services after identify requests answered by 2..4 devices; "
                    "reply latency 1..60 ms against RESPONSE_TIMEOUT 250 ms for scan / selective / every "
                    "confirmed service / faults")
    ctx.enumerate(iter([{"fam": "virtual", "slave": {"id": [0x12345678, 0x9ABCDEF0, 1, 0xFFFFFFFF]}, "phases": 2},
                        {"fam": "virtual", "slave": {"id": [1, 2, 3, 4]}, "phases": 3}]),
                  "inquire services over a python-can virtual bus across disconnect / connect")
    ctx.hypothesis(random_scan(), 6000 if thorough else 2000, salt=1)
    ctx.hypothesis(random_selective(), 3000 if thorough else 500, salt=2)
    ctx.hypothesis(history(), 12000 if thorough else 2500, salt=3)
    ctx.hypothesis(random_scan_lsspos(), 1500 if thorough else 300, salt=4)
    ctx.hypothesis(bus_history(), 6000 if thorough else 1200, salt=5)
    ctx.hypothesis(random_scan_foreign(), 3000 if thorough else 400, salt=6)
    ctx.hypothesis(history_foreign(), 4000 if thorough else 500, salt=7)
