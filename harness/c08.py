"""C08 - importing an EDS/DCF yields exactly the described object dictionary.

SUT: canopen.import_od -> import_eds / build_variable / _convert_variable /
_signed_int_from_hex / copy_variable, ObjectDictionary / ODRecord / ODArray lookups.

Oracle: the abstract model (harness/edsmodel.py, no canopen types) IS the
description; an independent writer renders it as EDS/DCF text with drawn spelling
choices; the imported dictionary is compared attribute by attribute with the model.

Clause -> case family
  "exactly the described objects"            every case: set/iteration/len of od.indices, od.names
  kind (variable/array/record), name, index  every case; families hyp, enum/types
  sub-indices ('sub'/'Sub', hex digits)      records/arrays in hyp; enum/subindex (every sub 0..0xFE,
                                             both words, both digit cases)
  data type, access type (mixed case)        enum/types (23 types x 6 access types x 4 case forms), hyp
  PDO-mappability                            hyp, enum/types (absent / 0 / 1), enum/flags (0/1 in 5 number
                                             spellings on VAR, member, compact element), enum/compact
                                             (every element 1..N, also without a name list)
  default and parameter values               enum/ints+limits (every boundary value of every integer type in
                                             every spelling: decimal, 0x, 0X, digit case, zero padded), hyp
                                             (REAL, strings, OCTET_STRING/DOMAIN hex, DCF ParameterValue)
  limits, two's complement -> negative       enum/ints+limits (every signed width x boundary values x
                                             {negative decimal, 0x.., 0X.., lower-case digits}), hyp
  $NODEID+x / x+$NODEID                      enum/relative (node id 1..127 x 5 forms x explicit/file), hyp
  node id in force: explicit / file / absent hyp + enum/relative (explicit beats file; absent -> only
                                             'relative' is demanded)
  compact arrays, with/without name list     enum/compact (N = 1..20, 127, 254; named N = 1..20), hyp
  missing ObjectType, DOMAIN objects         hyp (ObjectType dropped for 1/3 of the VARs), enum/types
  bit rate, node id, device info, comments   hyp (DeviceComissioning, DeviceInfo typed per CiA 306,
                                             BaudRate_x flags, Comments incl. empty lines)
  lookup by index / name / 'Parent.Child'    every case: od[i] is od[name]; od[i][s] is od[i][child] is
                                             od[name][child] is od['Parent.Child']; names with '.';
                                             enum/names + hyp: keys differing in letter case / one character
  index (no restriction in the quantifier)   0x1000..0x9FFF everywhere; enum/index + hyp: 0xA000..0xFFFF
  comments                                   hyp 0..4 lines; enum/comments + hyp: 5..40, 99..101 lines
  format dispatch by suffix                  hyp: .eds/.EDS/.Eds/.dcf/.DCF/.Dcf; path, StringIO with
                                             .name, open file; LF and CRLF
  "all data types" x default/parameter value enum/time + hyp: TIME_OF_DAY / TIME_DIFFERENCE with values
  "for every ... text" (repeated use of a    hist/reimport: one path, text replaced / kept, time stamp older /
  path)                                      equal / newer, 2..6 imports, each judged against its own text
  lookup routes after re-configuration       hist/reconfigure: replace / delete / add / add_member through the
                                             dictionary's own interface, routes compared after every step
"""
import atexit
import io
import os
import shutil
import tempfile
from collections import Counter

from hypothesis import strategies as st

from harness import edsmodel as em
from harness import refcodec as rc
from harness.core import Discrepancy, Outcome

PROPERTY = "C08"
LEVEL = "exploration"
RULE = ("case = (abstract dictionary model, node-id argument, source kind, file suffix, line ends). The "
        "model (1..5 objects of kind VAR/DOMAIN/ARRAY/RECORD/compact array over 0x1000..0x9FFF, all 23 "
        "data types, 6 access types, typed defaults / parameter values / limits, $NODEID-relative "
        "defaults, device info, baud rates, comments, DeviceComissioning, dummy usage) is rendered by an "
        "independent writer whose spelling choices (decimal/0x/0X, digit case, padding, sub/Sub, "
        "ObjectType absent, key order, blank and comment lines, inline ';' comments, two's-complement or "
        "negative-decimal limits) derive from drawn seeds. Enumerated families cover every boundary "
        "value x spelling of every integer type (defaults and limits), node ids 1..127 x 5 $NODEID forms, "
        "compact sizes (PDOMapping absent/0/1, with and without name list), every sub-index 0..0xFE, every "
        "type x access type x 8 DataType spellings (0x/0X, padded, decimal). Widenings: 0/1 keys (PDOMapping, "
        "BaudRate_x, DeviceInfo booleans) in 5 number spellings (0x1 is what canopen's exporter writes), "
        "comment blocks of 0..40 and 99..101 lines with distinct lines, indices 0xA000..0xFFFF (hex letters "
        "in every section header form) for every kind, names that differ from another key of the same table "
        "in letter case only or in one character (dictionary, record, array, compact name list, "
        "'Parent.Child'); enumerated (enum/flags, enum/comments, enum/index, enum/names) and drawn on top "
        "of the random models. Oracle: every attribute named "
        "by the property compared with the model (PDO-mappability also on the elements a compact array "
        "without name list produces on demand); all lookup routes must reach the identical object; "
        "iteration must yield exactly the described indices / sub-indices (order not demanded). "
        "TIME_OF_DAY / TIME_DIFFERENCE objects carry default and parameter values too (numbers 0..2^48-1 in "
        "every spelling, at VAR / member / compact element; enum/time + drawn). Histories: (1) hist/reimport: "
        "2..4 (thorough 6) imports from ONE path whose text is replaced / kept between imports, node id and "
        "source (path / open file) varying, the file's time stamp set by the case to older / equal / newer than "
        "before (os.utime with fixed numbers) - every import is judged against the text then in the file; "
        "(2) hist/reconfigure: a dictionary imported and fully looked up is re-configured through its own "
        "interface with objects of a second imported text that carry the same index and name but other content "
        "(od[i]=x, od[name]=x, add_object, del od[i], del od[name], add_member of a same-sub same-name member), "
        "1..5 (thorough 8) steps; after every step all lookup routes (index, name, [sub], [child], "
        "'Parent.Child', get_variable) must reach the identical object put there and keys that name nothing "
        "any more must raise KeyError. "
        "Non-trivial = text with a signed limit, an odd-width type, a relative value, a compact array or a "
        "record; distinct = canonical JSON of the case.")
ASSUMPTIONS = [
    "sections are written parent before children (sub-objects and name lists after their index section)",
    "names/texts use letters, digits, blank and _-%=()/:. (no ';' '#' '$', no leading/trailing blanks)",
    "DummyUsage lists all of Dummy0001..Dummy0007 with 0/1 or is absent",
    "the keys of a compact array's name list are decimal sub-index numbers (1=..., 10=..., canopen's reading "
    "and the one of the EDS editors we know); named compact arrays have 1..20 elements",
    "name of elements of a compact array without name list is not checked (CiA 306 and canopen differ; the "
    "repository's own test pins canopen's form); sub 0 of a compact array is only required to be UNSIGNED8",
    "explicit node id and no [DeviceComissioning] section: od.node_id may be the argument or None; explicit "
    "node id and a different NodeID in the file: od.node_id may be either (relative values use the argument)",
    "objects are described at 0x1000..0xFFFF (below 0x1000 lie the data type definitions, not generated)",
    "0/1 keys are spelled 0, 1, 0x0, 0x1, 0X1, 0x01, 0x0001 (no leading-zero decimals); [DummyUsage] keeps "
    "plain 0/1 (the property does not name it)",
    "'Parent.Child' is not tried when the parent's own name contains '.' (inherently ambiguous)",
    "REAL defaults are the Python float of the decimal text (no rounding to binary32 demanded)",
    "StorageLocation / Factor / Unit / Description are compared too (read verbatim by the importer)",
    "a TIME_OF_DAY / TIME_DIFFERENCE value is described as a number (0..2^48-1, decimal or hex); the imported "
    "value may be that int or its 6-byte little-endian image",
    "what an import yields depends on the text in the file at the time of the call and on the node id only: the "
    "file's modification time (set with os.utime to fixed numbers, never read from the clock) and earlier "
    "imports from the same path are not inputs the property names",
    "the lookup sentence is taken to hold for the imported dictionary also after it was re-configured through "
    "ObjectDictionary's own interface (anchor: indices/names 'must stay consistent' in add_object / "
    "add_member); only unambiguous re-configurations are made: same index AND same name replaced, unused "
    "index and name added, object deleted, member of same sub-index and name replaced; a replacement under "
    "another name, and any step that would make a 'Parent.Child' string equal to another key, is skipped; "
    "'Var.x' on a plain variable is not judged",
]
BUDGET = {"quick": 150, "thorough": 240}

_FEATURES_NT = ("slimit", "odd", "rel", "compact", "record")
_feature_counts = Counter()
_scratch = None
_BOOL = st.booleans()

DEVINFO_ATTR = {
    "VendorName": "vendor_name", "VendorNumber": "vendor_number", "ProductName": "product_name",
    "ProductNumber": "product_number", "RevisionNumber": "revision_number", "OrderCode": "order_code",
    "SimpleBootUpMaster": "simple_boot_up_master", "SimpleBootUpSlave": "simple_boot_up_slave",
    "Granularity": "granularity", "DynamicChannelsSupported": "dynamic_channels_supported",
    "GroupMessaging": "group_messaging", "NrOfRXPDO": "nr_of_RXPDO", "NrOfTXPDO": "nr_of_TXPDO",
    "LSS_Supported": "LSS_supported",
}
TIME_TYPES = (0x0C, 0x0D)                 # TIME_OF_DAY, TIME_DIFFERENCE (CiA 301: 48-bit structures)
SUFFIXES = {"eds": [".eds", ".EDS", ".Eds"], "dcf": [".dcf", ".DCF", ".Dcf"]}
BASENAMES = ["dev", "my.device.v2", "a b", "x.dcf.eds.old"]


def scratch_dir():
    global _scratch
    if _scratch is None:
        _scratch = tempfile.mkdtemp(prefix="verif-eds-")
        atexit.register(shutil.rmtree, _scratch, True)
    return _scratch


# ---------------------------------------------------------------------------
def same_value(dt, got, exp):
    """Typed equality of an imported value with the described one."""
    if exp is None:
        return got is None
    if got is None:
        return False
    if dt == rc.BOOLEAN:
        return isinstance(got, int) and got == exp
    if dt in rc.INTEGERS:
        return isinstance(got, int) and not isinstance(got, bool) and got == exp
    if dt in rc.REALS:
        return isinstance(got, float) and rc.float_bits_equal(got, float(exp))
    if dt in em.TEXT_TYPES:
        return isinstance(got, str) and got == exp
    if dt in TIME_TYPES:
        # described as a number (48-bit structure): the number itself, or its 6-byte CiA 301 image
        if isinstance(got, (bytes, bytearray)):
            return len(got) == 6 and int.from_bytes(bytes(got), "little") == exp
        return isinstance(got, int) and not isinstance(got, bool) and got == exp
    return isinstance(got, (bytes, bytearray)) and bytes(got) == exp


class _Cmp:
    def __init__(self, model, node_arg):
        self.model = model
        self.node = em.node_in_force(model, node_arg)
        self.node_arg = node_arg
        self.D = []

    def bad(self, sig, detail):
        if not self.D:                       # first discrepancy only
            self.D.append(Discrepancy("C08/" + sig, detail))

    # ---- one variable --------------------------------------------------------
    def var(self, got, v, index, sub, where, check_name=True, synthesized=False):
        dt = v["dt"]
        if check_name and got.name != v["name"]:
            self.bad("name", f"{where}: name {got.name!r} want {v['name']!r}")
        if got.index != index or got.subindex != sub:
            self.bad("address", f"{where}: index/subindex {got.index:#x}/{got.subindex} want {index:#x}/{sub}")
        if got.data_type != dt:
            self.bad("data_type", f"{where}: data_type {got.data_type!r} want {dt:#x}")
        if got.access_type != v["access"]:
            self.bad("access_type", f"{where}: access_type {got.access_type!r} want {v['access']!r}")
        # PDO-mappability is named by the property and "compact sub-object arrays [are] expanded": every
        # element 1..N carries it, also the ones the array produces on demand (no name list)
        want_pdo = bool(v["pdo"])
        if got.pdo_mappable != want_pdo or not isinstance(got.pdo_mappable, (bool, int)):
            self.bad("pdo_mappable", f"{where}: pdo_mappable {got.pdo_mappable!r} want {want_pdo}")
        # default
        spec = v["default"]
        if spec is not None and spec["k"] == "empty":
            if got.default is not None:
                self.bad("default/empty", f"{where}: empty DefaultValue imported as {got.default!r}")
        else:
            known, exp = em.spec_value(spec, self.node)
            if known and not same_value(dt, got.default, exp):
                kind = "relative" if spec is not None and spec["k"] == "rel" else "plain"
                self.bad(f"default/{kind}", f"{where}: default {got.default!r} want {exp!r} "
                                            f"(node id in force {self.node})")
        if not synthesized:
            want_rel = spec is not None and spec["k"] == "rel"
            if bool(got.relative) != want_rel:
                self.bad("relative", f"{where}: relative {got.relative!r} want {want_rel}")
            # parameter value (DCF only; an EDS carries none)
            spec = v["value"] if self.model["doc"] == "dcf" else None
            known, exp = em.spec_value(spec, self.node)
            if known and not same_value(dt, got.value, exp):
                self.bad("value", f"{where}: value {got.value!r} want {exp!r}")
        for attr, key in (("min", "low"), ("max", "high")):
            spec = v[key]
            exp = None if spec is None else spec["v"]
            g = getattr(got, attr)
            if exp is None:
                ok = g is None
            elif dt in rc.REALS:
                ok = isinstance(g, float) and g == float(exp)
            else:
                ok = isinstance(g, int) and not isinstance(g, bool) and g == exp
            if not ok:
                neg = "negative" if exp is not None and exp < 0 else "plain"
                self.bad(f"limit/{attr}/{neg}", f"{where}: {attr} {g!r} want {exp!r} ({rc.NAMES.get(dt, dt)})")
        if got.storage_location != v["storage"]:
            self.bad("ext/storage", f"{where}: storage_location {got.storage_location!r} want {v['storage']!r}")
        want = 1 if v["factor"] is None else v["factor"]
        if got.factor != want:
            self.bad("ext/factor", f"{where}: factor {got.factor!r} want {want!r}")
        if got.unit != (v["unit"] or ""):
            self.bad("ext/unit", f"{where}: unit {got.unit!r} want {v['unit']!r}")
        if got.description != (v["description"] or ""):
            self.bad("ext/description", f"{where}: description {got.description!r} want {v['description']!r}")

    # ---- one top-level object ------------------------------------------------
    def obj(self, od, o):
        from canopen.objectdictionary import ODArray, ODRecord, ODVariable
        index, name, kind = o["index"], o["name"], o["kind"]
        where = f"{index:04X}"
        try:
            got = od[index]
        except KeyError:
            return self.bad("objects/missing", f"{where} ({kind} {name!r}) is not in the dictionary")
        cls = {"var": ODVariable, "domain": ODVariable, "record": ODRecord}.get(kind, ODArray)
        if type(got) is not cls:
            return self.bad("kind", f"{where}: {kind} imported as {type(got).__name__}")
        if got.name != name or got.index != index:
            return self.bad("name", f"{where}: name/index {got.name!r}/{got.index:#x} want {name!r}")
        # lookup by name reaches the same object
        try:
            by_name = od[name]
        except KeyError:
            return self.bad("lookup/name", f"od[{name!r}] raises KeyError ({where})")
        if by_name is not got:
            return self.bad("lookup/name", f"od[{name!r}] is {by_name!r}, od[{index:#x}] is {got!r}")
        if name not in od or index not in od:
            return self.bad("lookup/contains", f"{name!r} / {index:#x} not 'in' the dictionary")
        if kind in ("var", "domain"):
            for key in (index, name):
                r = od.get_variable(key, 0)
                if r is not got:
                    return self.bad("lookup/get_variable", f"od.get_variable({key!r}, 0) gives {r!r} instead of {got!r}")
            return self.var(got, em.top_var(o), index, 0, where)
        if got.storage_location != o["storage"]:
            self.bad("ext/storage", f"{where}: storage_location {got.storage_location!r} want {o['storage']!r}")
        if kind == "compact":
            return self.compact(od, got, o, where)
        # record / explicit array
        subs = [m["sub"] for m in o["members"]]
        if set(got.subindices) != set(subs) or sorted(got) != sorted(subs) or len(got) != len(subs):
            return self.bad("subindices", f"{where}: sub-indices {sorted(got.subindices)} want {sorted(subs)}")
        if set(got.names) != {m["name"] for m in o["members"]}:
            return self.bad("member-names", f"{where}: member names {sorted(got.names)} "
                                            f"want {sorted(m['name'] for m in o['members'])}")
        for m in o["members"]:
            mv = got.subindices[m["sub"]]
            self.var(mv, m, index, m["sub"], f"{where}sub{m['sub']:X}")
            self.member_lookups(od, got, o, m["sub"], m["name"], mv)
            if self.D:
                return

    def member_lookups(self, od, parent, o, sub, mname, mv):
        index, pname = o["index"], o["name"]
        routes = [("od[i][s]", lambda: od[index][sub]), ("od[i][child]", lambda: od[index][mname]),
                  ("od[name][s]", lambda: od[pname][sub]), ("od[name][child]", lambda: od[pname][mname]),
                  ("od.get_variable(i, s)", lambda: od.get_variable(index, sub)),
                  ("od.get_variable(name, s)", lambda: od.get_variable(pname, sub))]
        if "." not in pname:
            routes.append(("od['Parent.Child']", lambda: od[pname + "." + mname]))
        for label, f in routes:
            try:
                r = f()
            except KeyError as e:
                return self.bad("lookup/member", f"{label} raises KeyError {e} for {index:04X}sub{sub:X} "
                                                 f"{pname!r}.{mname!r}")
            if r is not mv:
                return self.bad("lookup/member", f"{label} gives {r!r} (sub {getattr(r, 'subindex', '?')}) "
                                                 f"instead of {index:04X}sub{sub:X} {pname!r}.{mname!r}")

    def compact(self, od, got, o, where):
        index, n = o["index"], o["n"]
        v = em.top_var(o)
        try:
            zero = got[0]
        except KeyError:
            return self.bad("compact/sub0", f"{where}: compact array has no sub-index 0")
        if zero.subindex != 0 or zero.index != index or zero.data_type != rc.UNSIGNED8:
            return self.bad("compact/sub0", f"{where}: sub 0 is {zero.data_type!r}@{zero.subindex}")
        named = o["names"] is not None
        if named:
            want = set(range(0, n + 1))
            if set(got.subindices) != want or sorted(got) != sorted(want):
                return self.bad("compact/subindices", f"{where}: sub-indices {sorted(got.subindices)} "
                                                      f"want 0..{n} (name list with {n} entries)")
        elif not set(got.subindices) <= set(range(0, n + 1)):
            return self.bad("compact/subindices", f"{where}: sub-indices {sorted(got.subindices)} exceed 0..{n}")
        for k in range(1, n + 1):
            try:
                e = got[k]
            except KeyError:
                return self.bad("compact/missing", f"{where}: element {k} of {n} is missing")
            ev = dict(v, name=o["names"][k - 1]) if named else v
            synthesized = not named and k not in got.subindices
            self.var(e, ev, index, k, f"{where}[{k}/{n}]", check_name=named, synthesized=synthesized)
            gv = od.get_variable(index, k)
            if gv is None or (gv.index, gv.subindex, gv.data_type) != (e.index, e.subindex, e.data_type) or \
                    (not synthesized and gv is not e):
                return self.bad("lookup/get_variable", f"{where}: od.get_variable({index:#x}, {k}) gives {gv!r} "
                                                       f"instead of element {k} of the compact array")
            if named and not self.D:
                self.member_lookups(od, got, o, k, ev["name"], e)
            if self.D:
                return

    # ---- whole dictionary ------------------------------------------------------
    def run(self, od):
        m = self.model
        want = {o["index"] for o in m["objects"]} | set(m["dummies"] or [])
        got = set(od.indices)
        if got != want or sorted(od) != sorted(want) or len(od) != len(want):
            extra = sorted(f"{i:#x}" for i in got - want)
            missing = sorted(f"{i:#x}" for i in want - got)
            return self.bad("objects/set", f"objects differ: unexpected {extra}, missing {missing}")
        if len(od.names) != len(want):
            return self.bad("objects/names-table", f"{len(od.names)} names for {len(want)} objects: "
                                                   f"{sorted(od.names)}")
        for o in m["objects"]:
            self.obj(od, o)
            if self.D:
                return
        for i in m["dummies"] or []:
            if od[i].data_type != i or od[i].index != i:
                return self.bad("dummy", f"dummy object {i} has data type {od[i].data_type!r}")
        # node id / bit rate
        com = m["commissioning"]
        if com is not None:
            want_node = self.node_arg if self.node_arg is not None else com["node_id"]
            ok = od.node_id == want_node
            if not ok and self.node_arg is not None and com["node_id"] is not None:
                # "node id ... taken from the file" vs. "the node id in force": when the caller's argument
                # and the file's NodeID disagree the statement does not say which of the two od.node_id
                # reports (relative values are still resolved against the argument) -> both accepted
                ok = od.node_id == com["node_id"]
            want_rate = None if com["baudrate"] is None else com["baudrate"] * 1000
        else:
            ok = od.node_id is None or (self.node_arg is not None and od.node_id == self.node_arg)
            want_node = self.node_arg
            want_rate = None
        if not ok or isinstance(od.node_id, bool):
            return self.bad("node_id", f"od.node_id {od.node_id!r} want {want_node!r} (argument "
                                       f"{self.node_arg!r}, file {com and com['node_id']!r})")
        if od.bitrate != want_rate:
            return self.bad("bitrate", f"od.bitrate {od.bitrate!r} want {want_rate!r}")
        # device information
        di = m["devinfo"] or {}
        info = od.device_information
        for key, attr in DEVINFO_ATTR.items():
            g = getattr(info, attr)
            if key not in di:
                ok = g is None
            elif key in em.DEVINFO_STR:
                ok = isinstance(g, str) and g == di[key]
            elif key in em.DEVINFO_INT:
                ok = isinstance(g, int) and not isinstance(g, bool) and g == di[key]
            else:
                ok = isinstance(g, (bool, int)) and g == di[key]
            if not ok:
                return self.bad(f"devinfo/{key}", f"device_information.{attr} {g!r} want {di.get(key)!r}")
        want_baud = {kb * 1000 for kb in m["baud"]} if m["devinfo"] is not None else set()
        if set(info.allowed_baudrates) != want_baud:
            return self.bad("devinfo/baudrates", f"allowed_baudrates {sorted(info.allowed_baudrates)} "
                                                 f"want {sorted(want_baud)}")
        want_c = "\n".join(m["comments"]) if m["comments"] is not None else ""
        if od.comments != want_c:
            return self.bad("comments", f"comments {od.comments!r} want {want_c!r}")


def import_text(text, case, doc):
    """Hand the text to canopen.import_od the way the case says."""
    import canopen
    suffix = SUFFIXES[doc][case.get("suffix", 0)]
    base = BASENAMES[case.get("base", 0)]
    node_arg = case["node_arg"]
    src = case.get("source", "stream")
    if case.get("crlf"):
        text = text.replace("\n", "\r\n")
    if src == "stream":
        s = io.StringIO(text)
        s.name = base + suffix
        return canopen.import_od(s) if node_arg is None and case.get("omit_arg") else canopen.import_od(s, node_arg)
    path = os.path.join(scratch_dir(), f"{os.getpid()}-{base}{suffix}")
    with open(path, "w", newline="") as f:
        f.write(text)
    if src == "path":
        return canopen.import_od(path, node_id=node_arg)
    with open(path) as f:
        return canopen.import_od(f, node_arg)


def _klass_of(case, model, nt):
    mode = ("explicit" if case["node_arg"] is not None else
            "file" if model["commissioning"] and model["commissioning"]["node_id"] is not None else "absent")
    family = case.get("family", "hyp")
    return (f"{family}/node-{mode}" if family != "hyp" else
            f"hyp/{model['doc']}/node-{mode}/" + ("+".join(nt) or "plain"))


def _features_nt(model):
    feats = em.features(model)
    for f in feats:
        _feature_counts[f] += 1
    if any(v["dt"] in TIME_TYPES and (v["default"] is not None or v["value"] is not None)
           for _o, v in em.all_vars(model)):
        _feature_counts["timeval"] += 1
    return sorted(feats & set(_FEATURES_NT))


def _import_and_compare(model, how, importer=None):
    """Import the rendered model the way `how` says and compare everything the property names.
    -> (od or None, [Discrepancy])"""
    text = em.render(model)
    try:
        od = (importer or import_text)(text, how, model["doc"])
    except Exception as e:
        return None, [Discrepancy(f"C08/import-raises/{type(e).__name__}",
                                  f"import_od raised {type(e).__name__}: {e}")]
    c = _Cmp(model, how["node_arg"])
    try:
        c.run(od)
    except Exception as e:                           # the dictionary itself misbehaves
        c.bad(f"lookup-raises/{type(e).__name__}", f"{type(e).__name__}: {e}")
    return od, c.D


def run_case(case) -> Outcome:
    if "steps" in case:
        return run_reimport(case)
    if "ops" in case:
        return run_reconfigure(case)
    model = case["model"]
    ex = em.excluded_class(model)
    if ex:
        return Outcome(excluded=ex)
    nt = _features_nt(model)
    klass = _klass_of(case, model, nt)
    _od, D = _import_and_compare(model, case)
    return Outcome(bool(nt), klass, D)


# ---- history 1: the same path imported again after its text was replaced ---------------------------------
# "For every well-formed EDS or DCF text, the imported dictionary contains exactly the described objects":
# what an import yields is a function of the text that is in the file at the time of the call (and of the
# node id argument) - not of what was imported from that path before, and not of the file's time stamp,
# which the property never mentions.  The file's modification time is therefore SET (os.utime, fixed
# numbers from the case: older / equal / newer than at the previous import - what `cp -p`, restoring a
# backup, unpacking an archive or a rewrite within one time-stamp tick leave behind); no wall clock.
MTIME_BASE = 1_500_000_000                 # seconds; an arbitrary fixed instant
MTIME_STEPS = [0, 0, -1, 1, -86400, 3600]


def _history_path(case, doc):
    suffix = SUFFIXES[doc][case.get("suffix", 0)]
    base = BASENAMES[case.get("base", 0)]
    return os.path.join(scratch_dir(), f"{os.getpid()}-hist-{base}{suffix}")


def run_reimport(case) -> Outcome:
    import canopen
    steps = case["steps"]
    doc = steps[0]["model"]["doc"]
    for st_ in steps:
        if st_["model"] is not None:
            ex = em.excluded_class(st_["model"])
            if ex:
                return Outcome(excluded=ex)
            if st_["model"]["doc"] != doc:
                raise ValueError("all steps of a re-import history share one document type")
    path = _history_path(case, doc)
    mtime = MTIME_BASE
    model = None
    contents = 0
    stale = False
    nt_any = False
    D = []
    try:
        for n, st_ in enumerate(steps):
            if st_["model"] is not None:
                if model is not None and st_["model"] != model:
                    contents += 1
                    stale = stale or MTIME_STEPS[st_["mtime"]] <= 0
                model = st_["model"]
                text = em.render(model)
                if case.get("crlf"):
                    text = text.replace("\n", "\r\n")
                with open(path, "w", newline="") as f:
                    f.write(text)
                if n:
                    mtime += MTIME_STEPS[st_["mtime"]]
                os.utime(path, (mtime, mtime))
            nt_any = bool(_features_nt(model)) or nt_any

            def importer(_text, how, _doc):
                if how["source"] == "path":
                    return canopen.import_od(path, node_id=how["node_arg"])
                with open(path) as f:
                    return canopen.import_od(f, how["node_arg"])
            _od, D = _import_and_compare(model, st_, importer)
            if D:
                d = D[0]
                D = [Discrepancy(d.signature, f"import {n + 1} of {len(steps)} from the same path "
                                              f"(text {'kept' if st_['model'] is None else 'replaced'}, "
                                              f"mtime {mtime - MTIME_BASE:+d} s): {d.detail}")]
                break
    finally:
        if os.path.exists(path):
            os.remove(path)
    klass = (f"{case.get('family', 'hist/reimport')}/imports={len(steps)}/texts={contents + 1}/"
             + ("mtime-not-newer" if stale else "mtime-newer"))
    return Outcome(contents >= 1, klass, D)


# ---- history 2: look up - re-configure the dictionary through its own interface - look up again ------------
# "Looking an object up by index, by name, or by 'Parent.Child' reaches the same object" (anchor: the lookup
# tables "must stay consistent" in add_object / add_member).  The imported dictionary is re-configured only
# through the library's own ObjectDictionary interface and only in ways whose meaning is beyond doubt: an
# object is replaced by one of the SAME index and name taken from a second imported dictionary
# (od[index] = x / od[name] = x / od.add_object(x)), removed (del od[index] / del od[name]), put (back) under
# an index and a name nobody uses, or a member is replaced by one of the same sub-index and name
# (add_member).  Demanded after every step: every route reaches the identical object that was put there, and
# a key that names nothing any more reaches nothing (KeyError).
def _named_members(o):
    if o["kind"] in ("record", "array"):
        return [(m["sub"], m["name"]) for m in o["members"]]
    if o["kind"] == "compact" and o["names"] is not None:
        return [(k + 1, nm) for k, nm in enumerate(o["names"])]
    return []


class _Entry:
    def __init__(self, o, obj, src):
        self.o, self.obj, self.src = o, obj, src
        self.index, self.name = o["index"], o["name"]
        # members reached on the held object itself (not through the dictionary)
        self.members = {sub: (nm, obj[sub]) for sub, nm in _named_members(o)}


def _check_routes(od, cur, dummies, dead, c):
    want = set(cur) | set(dummies)
    if set(od.indices) != want or sorted(od) != sorted(want) or len(od) != len(want):
        return c.bad("reconfigure/objects", f"indices {sorted(od.indices)} want {sorted(want)}")
    live = set()
    for e in cur.values():
        live |= {e.index, e.name}
        live |= {e.name + "." + nm for nm, _v in e.members.values()}
    for e in cur.values():
        for key in (e.index, e.name):
            try:
                r = od[key]
            except KeyError:
                return c.bad("lookup/name", f"od[{key!r}] raises KeyError, {e.index:04X} {e.name!r} is there")
            if r is not e.obj or key not in od:
                return c.bad("lookup/name", f"od[{key!r}] is {r!r}, not the object put at {e.index:04X}")
        for sub, (nm, mv) in sorted(e.members.items()):
            c.member_lookups(od, e.obj, e.o, sub, nm, mv)
            if c.D:
                return
    names_now = {e.name: e for e in cur.values()}
    for key in sorted(dead - live, key=str):
        if isinstance(key, str) and "." in key:
            parent = names_now.get(key.split(".", 1)[0])
            if parent is not None and parent.o["kind"] in ("var", "domain"):
                continue                     # 'Var.x': a variable has no children; no statement about the error
            if parent is not None and parent.o["kind"] == "compact" and parent.o["names"] is None:
                continue                     # names of synthesized elements are not checked (ASSUMPTIONS)
        try:
            r = od[key]
        except KeyError:
            continue
        shown = f"{key:#x}" if isinstance(key, int) else repr(key)
        return c.bad("lookup/stale", f"od[{shown}] still reaches {r!r}; nothing with that key is in the "
                                     f"dictionary (by index: {sorted(f'{i:04X}' for i in cur)})")


def run_reconfigure(case) -> Outcome:
    A, B = case["model"], case["model2"]
    for m in (A, B):
        ex = em.excluded_class(m)
        if ex:
            return Outcome(excluded=ex)
    nt = _features_nt(A)
    family = case.get("family", "hist/reconfigure")
    od, D = _import_and_compare(A, case)             # looks every 'Parent.Child' up at least once
    if D:
        return Outcome(bool(nt), family + "/import", D)
    od2, D = _import_and_compare(B, dict(case, source="stream"))
    if D:
        return Outcome(bool(nt), family + "/import", D)
    c = _Cmp(A, case["node_arg"])
    pools = {"A": [(o, od[o["index"]]) for o in A["objects"]],
             "B": [(o, od2[o["index"]]) for o in B["objects"]]}
    cur = {o["index"]: _Entry(o, obj, "A") for o, obj in pools["A"]}
    dead = set()
    applied = []

    def retire(e):
        dead.update({e.index, e.name})
        if "." not in e.name:
            dead.update(e.name + "." + nm for nm, _v in e.members.values())

    try:
        for op in case["ops"]:
            what = op["op"]
            if what == "put":
                pool = pools[op["src"]]
                o, obj = pool[op["k"] % len(pool)]
                old = cur.get(o["index"])
                names = {e.name for e in cur.values()}
                if old is not None:
                    if old.name != o["name"] or old.obj is obj:
                        continue                     # other name (stale name: no statement) / nothing to do
                elif o["name"] in names or o["index"] in (A["dummies"] or []):
                    continue
                mine = {o["name"]} | {o["name"] + "." + nm for _s, nm in _named_members(o)}
                others = set()
                for e in cur.values():
                    if e is not old:
                        others |= {e.name} | {e.name + "." + nm for nm, _v in e.members.values()}
                if mine & others:
                    continue                         # a 'Parent.Child' string equal to another key: ambiguous
                if obj.name != o["name"] or obj.index != o["index"]:
                    raise AssertionError("held object does not carry the described index/name")
                via = op.get("via", 0) % 3
                if via == 0:
                    od[o["index"]] = obj
                elif via == 1:
                    od[o["name"]] = obj
                else:
                    od.add_object(obj)
                if old is not None:
                    retire(old)
                cur[o["index"]] = _Entry(o, obj, op["src"])
                applied.append("replace" if old is not None else "add")
            elif what == "del":
                if not cur:
                    continue
                index = sorted(cur)[op["k"] % len(cur)]
                e = cur.pop(index)
                if op.get("via", 0) % 2:
                    del od[e.name]
                else:
                    del od[index]
                retire(e)
                applied.append("del")
            elif what == "member":
                # replace one member by the member of the same sub-index and name of the counterpart object
                cands = []
                for index in sorted(cur):
                    e = cur[index]
                    if e.o["kind"] not in ("record", "array"):
                        continue
                    for src in ("A", "B"):
                        for o2, obj2 in pools[src]:
                            if o2["index"] != index or obj2 is e.obj or o2["kind"] not in ("record", "array"):
                                continue
                            for m2 in o2["members"]:
                                have = e.members.get(m2["sub"])
                                if have is not None and have[0] == m2["name"] and \
                                        have[1] is not obj2[m2["sub"]]:
                                    cands.append((e, m2["sub"], m2["name"], obj2[m2["sub"]]))
                if not cands:
                    continue
                e, sub, nm, donor = cands[op["k"] % len(cands)]
                e.obj.add_member(donor)
                e.members[sub] = (nm, donor)
                applied.append("member")
            else:
                raise ValueError(what)
            _check_routes(od, cur, A["dummies"] or [], dead, c)
            if c.D:
                d = c.D[0]
                c.D = [Discrepancy(d.signature, f"after {'+'.join(applied)} ({len(applied)} re-configuration "
                                                f"step(s) on the imported dictionary): {d.detail}")]
                break
    except AssertionError:
        raise
    except Exception as e:                           # the dictionary itself misbehaves
        c.bad(f"reconfigure-raises/{type(e).__name__}", f"after {'+'.join(applied)}: {type(e).__name__}: {e}")
    kinds = "+".join(sorted(set(applied))) or "none"
    return Outcome(bool(applied), f"{family}/{kinds}/steps={min(len(applied), 5)}", c.D)


# ---- enumerated families -----------------------------------------------------
def _var(dt, **kw):
    v = {"sub": 0, "name": "", "dt": dt, "access": "rw", "pdo": None, "default": None, "value": None,
         "low": None, "high": None, "storage": None, "factor": None, "unit": None, "description": None,
         "sp": 0}
    v.update(kw)
    return v


def _model(objs, doc="eds", sp=0, **kw):
    m = {"doc": doc, "sp": sp, "objects": objs, "dummies": None, "devinfo": None, "baud": [],
         "comments": None, "commissioning": None}
    m.update(kw)
    return m


def _case(model, family, node_arg=None, **kw):
    c = {"model": model, "node_arg": node_arg, "source": "stream", "suffix": 0, "base": 0,
         "crlf": False, "family": family}
    c.update(kw)
    return c


def _top(index, name, var, kind="var", sp=0):
    return {"kind": kind, "index": index, "name": name, "sp": sp, "storage": None, "var": var}


def enum_cases(tier):
    # every integer type: every boundary value as default/parameter value in every spelling,
    # and as low/high limit in every spelling (two's complement for the negative ones)
    for dt in sorted(rc.INTEGERS):
        pad = max(2, rc.width(dt) // 4)
        for val in em.bounds(dt):
            dforms = ["-%d" % -val] if val < 0 else em.uint_forms(val, pad)[:5]
            lforms = em.limit_forms(val, dt)[:5]
            for i in range(max(len(dforms), len(lforms))):
                d, lim = dforms[i % len(dforms)], lforms[i % len(lforms)]
                v = _var(dt, default={"k": "int", "v": val}, value={"k": "int", "v": val},
                         low={"k": "int", "v": val}, high={"k": "int", "v": val},
                         raw={"DefaultValue": d, "ParameterValue": d, "LowLimit": lim, "HighLimit": lim})
                yield _case(_model([_top(0x2000 + dt, "v", v)], doc="dcf"), "enum/ints+limits")
    # every type x access type x case form, PDOMapping absent/0/1, ObjectType forms, DOMAIN kind
    n = 0
    # TIME_OF_DAY (0x0C) and TIME_DIFFERENCE (0x0D) are standard types too (no codec in canopen: only
    # the data type itself is compared)
    for dt in em.ALL_TYPES + [0x0C, 0x0D]:
        for acc in em.ACCESS:
            for form in (acc, acc.upper(), acc.capitalize(), acc[:1] + acc[1:].upper()):
                n += 1
                pdo = [None, 0, 1][n % 3]
                raw = {"AccessType": form, "DataType": dt_forms(dt)[n % 8]}
                if pdo is not None:
                    raw["PDOMapping"] = FLAG_FORMS[pdo][(n // 3) % len(FLAG_FORMS[pdo])]
                v = _var(dt, access=acc, pdo=pdo, raw=raw, sp=n % 7)
                kind = "domain" if dt == rc.DOMAIN and n % 2 else "var"
                yield _case(_model([_top(0x1000 + n, f"t {n}", v, kind)]), "enum/types")
    # $NODEID forms x node ids, node id explicit / from the file / both / absent
    for node in range(1, 128):
        for fi, form in enumerate(em.REL_FORMS):
            for xi, x in enumerate((0x180, 0x80000200)):
                xs = em.uint_forms(x, 3)[(fi + xi + node) % 5]
                v = _var(rc.UNSIGNED32, default={"k": "rel", "x": x}, raw={"DefaultValue": form % xs})
                objs = [_top(0x1400, "rpdo", v)]
                how = (node + fi) % 4
                if how == 0:
                    yield _case(_model(objs), "enum/relative", node_arg=node)
                elif how == 1:
                    com = {"node_id": node, "baudrate": None, "baud_hex": False}
                    yield _case(_model(objs, doc="dcf", commissioning=com), "enum/relative")
                elif how == 2:
                    com = {"node_id": (node % 127) + 1, "baudrate": 500, "baud_hex": False}
                    yield _case(_model(objs, doc="dcf", commissioning=com), "enum/relative", node_arg=node)
                else:
                    yield _case(_model(objs), "enum/relative")
    # compact arrays of every size, with and without a name list
    for di, dt in enumerate((rc.UNSIGNED32, rc.INTEGER24, rc.REAL32, rc.VISIBLE_STRING)):
        for size in list(range(1, 21)) + [127, 254]:
            for named in (False, True):
                if named and size > 20:
                    continue
                v = _var(dt, sub=1, access="ro", pdo=[1, 0, None][(size + di) % 3],
                         default={"k": "int", "v": size} if dt in rc.INTEGERS else None)
                o = {"kind": "compact", "index": 0x3000 + size, "name": f"arr {size}", "sp": size,
                     "storage": None, "var": v, "n": size,
                     "names": [f"el {k}" for k in range(1, size + 1)] if named else None, "n_hex": False}
                yield _case(_model([o]), "enum/compact")
    # every sub-index, 'sub'/'Sub', upper/lower-case hex digits (seeds 1..4 vary the spelling)
    for sub in range(1, 0xFF):
        for seed in ((1, 2, 3, 4) if tier == "thorough" else (1 + sub % 4, 1 + (sub + 1) % 4)):
            members = [_var(rc.UNSIGNED8, sub=0, name="n", access="ro"),
                       _var(rc.INTEGER16, sub=sub, name=f"m {sub}", sp=seed * 1000 + sub)]
            o = {"kind": "record" if sub % 2 else "array", "index": 0x6000 + sub, "name": f"rec {sub}",
                 "sp": seed, "storage": None, "members": members}
            yield _case(_model([o]), "enum/subindex")


# ---- spellings of flags / data types, wide indices, long comments, near-miss names ---------------
# 0/1 keys (PDOMapping, BaudRate_x, the booleans of [DeviceInfo]) in "decimal and hex number spellings"
# (canopen's own exporter writes PDOMapping=0x1; no leading-zero decimals: "01" is not a number spelling
# the quantifier names)
FLAG_FORMS = {0: ["0", "0x0", "0X0", "0x00", "0x0000"], 1: ["1", "0x1", "0X1", "0x01", "0x0001"]}


def dt_forms(dt):
    return ["0x%04X" % dt, str(dt), "0x%X" % dt, "0X%X" % dt, "0x%04x" % dt, "0X%04X" % dt, "0x%x" % dt,
            "0X%04x" % dt]


def _seed_with(tag, k, want):
    """Smallest spelling seed >= 1 whose first pick(k) under `tag` is `want`."""
    seed = 1
    while em.Sp(seed, tag).pick(k) != want:
        seed += 1
    return seed


def respell(model, seed):
    """Respell (in place) DataType, PDOMapping and the 0/1 keys of [DeviceInfo] with choices derived from
    `seed` (0 = leave the writer's canonical spelling)."""
    if not seed:
        return model
    sp = em.Sp(seed, "respell")
    for _o, v in em.all_vars(model):
        raw = dict(v.get("raw") or {})
        if v["pdo"] is not None and sp.pick(2):
            forms = FLAG_FORMS[v["pdo"]]
            raw["PDOMapping"] = forms[sp.pick(len(forms))]
        if sp.pick(2):
            raw["DataType"] = dt_forms(v["dt"])[sp.pick(8)]
        if raw:
            v["raw"] = raw
    if model["devinfo"] is not None:
        over = {}
        for key in em.DEVINFO_BOOL:
            if key in model["devinfo"] and sp.pick(2):
                forms = FLAG_FORMS[int(model["devinfo"][key])]
                over[key] = forms[sp.pick(len(forms))]
        for kb in em.STD_BAUD:
            if sp.pick(2):
                forms = FLAG_FORMS[1 if kb in model["baud"] else 0]
                over["BaudRate_%d" % kb] = forms[sp.pick(len(forms))]
        if over:
            model["raw"] = {"DeviceInfo": over}
    return model


def name_variant(name, how):
    """A different name that differs from `name` in letter case only or in one character."""
    if how == 0:
        r = name.swapcase()
    elif how == 1:
        r = name.upper()
    elif how == 2:
        r = name.lower()
    elif how == 3:
        r = name[:1].swapcase() + name[1:]
    elif how == 4:
        r = name[:-1] + ("x" if name[-1:] != "x" else "y")
    else:
        r = name + "x"
    if r.startswith("Dummy"):
        r = "d" + r
    return r                              # may equal `name` (no letters): fix_names makes it unique again


NEAR_PAIRS = [("Speed", "speed"), ("Speed", "SPEED"), ("speed", "sPEED"), ("x", "X"), ("Speed", "Speed1"),
              ("Speed", "Spee"), ("Speed", "Sqeed"), ("Speed", "Speeds"), ("a b", "A b"), ("a b", "a  b"),
              ("Value_1", "Value_l"), ("T(1)", "t(1)")]


def _rec(index, name, members, kind="record", sp=0):
    return {"kind": kind, "index": index, "name": name, "sp": sp, "storage": None, "members": members}


def near_name_models():
    """Dictionaries whose lookup keys differ in letter case only or in one character, at every level a
    name is a key: dictionary, record, array, compact name list, 'Parent.Child'."""
    def n0():
        return _var(rc.UNSIGNED8, sub=0, name="n", access="ro")
    for a, b in NEAR_PAIRS + [(b, a) for a, b in NEAR_PAIRS]:
        yield [_top(0x2000, a, _var(rc.UNSIGNED16)), _top(0x2001, b, _var(rc.INTEGER16))]
        yield [_rec(0x2000, a, [n0(), _var(rc.UNSIGNED16, sub=1, name="m")]),
               _rec(0x2001, b, [n0(), _var(rc.INTEGER16, sub=1, name="m")], kind="array")]
        yield [_rec(0x2000, "rec", [n0(), _var(rc.UNSIGNED16, sub=1, name=a), _var(rc.INTEGER16, sub=2, name=b)])]
        yield [_rec(0x2000, "arr", [n0(), _var(rc.UNSIGNED16, sub=1, name=a), _var(rc.UNSIGNED16, sub=2, name=b)],
                    kind="array")]
        yield [{"kind": "compact", "index": 0x2000, "name": "cmp", "sp": 0, "storage": None,
                "var": _var(rc.UNSIGNED16, sub=1, pdo=1), "n": 2, "names": [a, b], "n_hex": False}]
        yield [_top(0x2000, a + ".m", _var(rc.UNSIGNED16)),
               _rec(0x2001, b, [n0(), _var(rc.INTEGER16, sub=1, name="m")])]
        yield [_rec(0x2000, a, [n0(), _var(rc.UNSIGNED16, sub=1, name=b)]), _top(0x2001, b, _var(rc.INTEGER16))]


WIDE_INDICES = [0xA000, 0xA001, 0xA0FF, 0xA100, 0xA47F, 0xAFFF, 0xB000, 0xBEEF, 0xBFFF, 0xC000, 0xC0DE,
                0xD00D, 0xDFFF, 0xE000, 0xEEEE, 0xF000, 0xFACE, 0xFFFE, 0xFFFF, 0xABCD, 0xFEDC, 0xAAAA]


def index_objects(index, sp):
    """One object of every kind at `index` (section headers <index>, <index>subN, <index>Name)."""
    def n0():
        return _var(rc.UNSIGNED8, sub=0, name="n", access="ro")
    yield _top(index, "v", _var(rc.UNSIGNED32, default={"k": "int", "v": index}), sp=sp)
    yield _top(index, "d", _var(rc.DOMAIN), kind="domain", sp=sp)
    yield _rec(index, "r", [n0(), _var(rc.INTEGER16, sub=1, name="m1", sp=sp),
                            _var(rc.INTEGER24, sub=0xA, name="ma", sp=sp + 1)], sp=sp)
    yield _rec(index, "a", [n0(), _var(rc.UNSIGNED16, sub=1, name="e1", sp=sp),
                            _var(rc.UNSIGNED16, sub=2, name="e2", sp=sp + 1)], kind="array", sp=sp)
    for names in (None, ["e1", "e2", "e3"]):
        yield {"kind": "compact", "index": index, "name": "c", "sp": sp, "storage": None,
               "var": _var(rc.UNSIGNED16, sub=1, pdo=1, default={"k": "int", "v": 7}), "n": 3, "names": names,
               "n_hex": False}


def comment_lines(n, base="line", empty_mask=0):
    """n distinct comment lines (so every permutation is visible), some of them empty."""
    return ["" if k % 3 == 0 and (empty_mask >> (k % 16)) & 1 else "%s %d" % (base, k) for k in range(1, n + 1)]


def enum_wide(tier):
    thorough = tier == "thorough"
    # 0/1 keys in every number spelling: BaudRate_x, [DeviceInfo] booleans, PDOMapping at every place
    for fi in range(len(FLAG_FORMS[0])):
        f0, f1 = FLAG_FORMS[0][fi], FLAG_FORMS[1][fi]
        for kb in em.STD_BAUD:
            over = {"BaudRate_%d" % x: (f1 if x == kb else f0) for x in em.STD_BAUD}
            yield _case(_model([_top(0x2000, "v", _var(rc.UNSIGNED8))], devinfo={}, baud=[kb],
                               raw={"DeviceInfo": over}), "enum/flags")
        for key in em.DEVINFO_BOOL:
            for val in (0, 1):
                yield _case(_model([_top(0x2000, "v", _var(rc.UNSIGNED8))], devinfo={key: val},
                                   baud=[], raw={"DeviceInfo": {key: (f1 if val else f0)}}), "enum/flags")
        for val in (0, 1):
            raw = {"PDOMapping": f1 if val else f0}
            yield _case(_model([_top(0x2000, "v", _var(rc.UNSIGNED16, pdo=val, raw=raw))]), "enum/flags")
            yield _case(_model([_rec(0x2000, "r", [_var(rc.UNSIGNED8, sub=0, name="n", pdo=1 - val,
                                                        raw={"PDOMapping": f0 if val else f1}),
                                                   _var(rc.INTEGER16, sub=1, name="m", pdo=val, raw=raw)])]),
                        "enum/flags")
            for names in (None, ["e1", "e2", "e3"]):
                o = {"kind": "compact", "index": 0x2000, "name": "c", "sp": 0, "storage": None,
                     "var": _var(rc.UNSIGNED16, sub=1, pdo=val, raw=raw), "n": 3, "names": names,
                     "n_hex": False}
                yield _case(_model([o]), "enum/flags")
    # comment blocks of every length around the one-digit / two-digit / three-digit line numbers
    lengths = list(range(0, 121)) if thorough else list(range(0, 31)) + [99, 100, 101]
    for n in lengths:
        lf = em.uint_forms(n, 2)[n % 5]
        yield _case(_model([_top(0x2000, "v", _var(rc.UNSIGNED8))], comments=comment_lines(n, "l", n * 37),
                           raw={"Comments": {"Lines": lf}}, sp=n % 4), "enum/comments")
    # indices with hex letters in the section header (0xA000..0xFFFF), every kind, both digit cases
    up, low = _seed_with("obj", 2, 0), _seed_with("obj", 2, 1)
    indices = WIDE_INDICES + ([i for i in range(0xA000, 0x10000, 0x111)] if thorough else [])
    for n, index in enumerate(indices):
        for o in index_objects(index, (up, low)[n % 2]):
            yield _case(_model([o, _top(0x1000 + n, "other", _var(rc.UNSIGNED32))]), "enum/index")
        if thorough:
            for o in index_objects(index, (low, up)[n % 2]):
                yield _case(_model([_top(0x1000 + n, "other", _var(rc.UNSIGNED32)), o]), "enum/index")
    # names that differ in letter case only / in one character
    for objs in near_name_models():
        yield _case(_model(objs), "enum/names")
        if thorough:
            yield _case(_model(list(reversed(objs)), doc="dcf"), "enum/names")


_XINDEX = st.one_of(st.none(), st.none(), st.sampled_from(WIDE_INDICES), st.integers(0xA000, 0xFFFF))
_NLONG = st.one_of(st.sampled_from([9, 10, 11, 12, 19, 20, 21, 25, 99, 100, 101]), st.integers(5, 40))
_HOW = st.integers(0, 5)
_WIDE = st.integers(0, 0xFFFF)
_MASK = st.integers(0, 0xFFFF)
_SPELL = st.integers(0, 1 << 32)
_PICK = st.integers(0, 1 << 16)


def _near_names(draw, objs):
    """Make one lookup key a near miss (letter case / one character) of another key of the same table."""
    scopes = []
    if len(objs) >= 2:
        scopes.append(("top", objs))
    for o in objs:
        if o["kind"] in ("record", "array") and len(o["members"]) >= 2:
            scopes.append(("members", o["members"]))
        elif o["kind"] == "compact" and o["names"] is not None and o["n"] >= 2:
            scopes.append(("names", o))
        if o["kind"] in ("record", "array"):
            scopes.append(("child-of", o))
    if not scopes:
        return
    kind, what = scopes[draw(_PICK) % len(scopes)]
    how = draw(_HOW)
    if kind == "child-of":
        m = what["members"][draw(_PICK) % len(what["members"])]
        m["name"] = name_variant(what["name"], how)
    elif kind == "names":
        i = draw(_PICK) % what["n"]
        j = (i + 1 + draw(_PICK) % (what["n"] - 1)) % what["n"]
        what["names"][j] = name_variant(what["names"][i], how)
    else:
        i = draw(_PICK) % len(what)
        j = (i + 1 + draw(_PICK) % (len(what) - 1)) % len(what)
        what[j]["name"] = name_variant(what[i]["name"], how)
    em.fix_names(objs)


@st.composite
def cases(draw):
    model = draw(em.models(quirks=True))
    flags = draw(st.integers(0, 0xFFF))
    node_arg = draw(st.one_of(st.none(), st.integers(1, 127)))
    # widenings on top of the shared model strategy (each at a moderate rate, all Hypothesis draws)
    wide = draw(_WIDE)
    objs = model["objects"]
    if wide & 0x3 == 0x3:                            # indices 0xA000..0xFFFF
        used = {o["index"] for o in objs}
        for o in objs:
            i = draw(_XINDEX)
            if i is not None and i not in used:
                used.discard(o["index"])
                used.add(i)
                o["index"] = i
    if wide & 0xC == 0xC:                            # comment blocks with two- and three-digit line numbers
        model["comments"] = comment_lines(draw(_NLONG), draw(em.FREE_TEXT), draw(_MASK))
    if wide & 0x30 == 0x30:                          # near-miss names
        _near_names(draw, objs)
    if wide & 0x40:                                  # PDOMapping=1 on compact arrays without a name list
        for o in objs:
            if o["kind"] == "compact" and o["names"] is None and o["var"]["pdo"] == 0 and draw(_BOOL):
                o["var"]["pdo"] = 1
    if wide & 0x300 == 0x300:                        # TIME_OF_DAY / TIME_DIFFERENCE objects with values
        for _o, v in em.all_vars(model):
            if _o["kind"] != "domain" and draw(_BOOL):
                v["dt"] = TIME_TYPES[draw(_PICK) % 2]
                v["low"] = v["high"] = None
                v["default"] = {"k": "int", "v": draw(_TIME_VALUE)} if draw(_SMALL4) else None
                v["value"] = ({"k": "int", "v": draw(_TIME_VALUE)}
                              if draw(_BOOL) and _o["kind"] != "compact" else None)
    if wide & 0x80:                                  # flags / data types in every number spelling
        respell(model, draw(_SPELL))
    return {"model": model, "node_arg": node_arg,
            "source": ["stream", "path", "file", "stream"][flags & 3],
            "suffix": [0, 0, 1, 2][(flags >> 2) & 3],
            "base": [0, 0, 0, 1, 2, 3, 0, 0][(flags >> 4) & 7],
            "crlf": (flags >> 7) & 3 == 3,
            "omit_arg": bool((flags >> 9) & 1),
            "family": "hyp"}


# ---- TIME_OF_DAY / TIME_DIFFERENCE values, histories ------------------------------------------------------
TIME_VALUES = [0, 1, 9, 10, 16, 20, 99, 255, 256, 1000, 86399999, 86400000, (1 << 28) - 1, 1 << 28, 1 << 32,
               (1 << 32) + 20, 0x100010, (1 << 47) + 1, (1 << 48) - 1]
_TIME_VALUE = st.one_of(st.sampled_from(TIME_VALUES), st.integers(0, (1 << 48) - 1), st.integers(0, 100000))


def enum_time(tier):
    """"default and parameter values" for "all data types": the two 48-bit time types, every number spelling,
    at every place a value can stand (VAR, record member, array member, compact element; EDS and DCF)."""
    n = 0
    for dt in TIME_TYPES:
        for val in TIME_VALUES:
            forms = em.uint_forms(val, 12)[:5]
            for fi, form in enumerate(forms if tier == "thorough" else
                                      [forms[(n + k) % 5] for k in (0, 2)] + ([str(val)] if val >= 10 else [])):
                n += 1
                place = n % 4
                doc = "dcf" if n % 3 else "eds"
                other = TIME_VALUES[(n * 7) % len(TIME_VALUES)]
                spec, spec2 = {"k": "int", "v": val}, {"k": "int", "v": other}
                raw = {"DefaultValue": form, "ParameterValue": em.uint_forms(other, 12)[(n + fi) % 5]}
                if place == 0:
                    v = _var(dt, default=spec, value=spec2, raw=raw, sp=n)
                    objs = [_top(0x2000 + dt, "t", v)]
                elif place in (1, 2):
                    members = [_var(rc.UNSIGNED8, sub=0, name="n", access="ro"),
                               _var(dt, sub=1 + n % 5, name="when", default=spec, value=spec2, raw=raw, sp=n)]
                    if place == 2:
                        members.append(_var(dt, sub=7, name="then", default=spec2, sp=n + 1))
                    objs = [_rec(0x2000 + dt, "r", members, kind="record" if place == 1 else "array", sp=n)]
                else:
                    objs = [{"kind": "compact", "index": 0x2000 + dt, "name": "c", "sp": n, "storage": None,
                             "var": _var(dt, sub=1, default=spec, raw={"DefaultValue": form}), "n": 1 + n % 4,
                             "names": [None, ["e1", "e2", "e3", "e4"][:1 + n % 4]][(n // 4) % 2],
                             "n_hex": False}]
                yield _case(_model(objs, doc=doc), "enum/time")


def _simple_models(doc):
    """Small dictionaries that differ from each other in every clause of the statement."""
    def n0():
        return _var(rc.UNSIGNED8, sub=0, name="n", access="ro")
    a = _model([_rec(0x2000, "rec", [n0(), _var(rc.UNSIGNED16, sub=1, name="m", default={"k": "int", "v": 7}),
                                     _var(rc.UNSIGNED16, sub=2, name="old", access="ro")]),
                _top(0x2001, "v", _var(rc.UNSIGNED32, default={"k": "rel", "x": 0x180})),
                _rec(0x2002, "arr", [n0(), _var(rc.INTEGER8, sub=1, name="e1"), _var(rc.INTEGER8, sub=2, name="e2")],
                     kind="array")],
               doc=doc, comments=["first text"], devinfo={"VendorName": "one", "Granularity": 8}, baud=[125])
    b = _model([_rec(0x2000, "rec", [n0(), _var(rc.INTEGER32, sub=1, name="m", access="ro", pdo=1,
                                                default={"k": "int", "v": -7}, low={"k": "int", "v": -9}),
                                     _var(rc.REAL32, sub=3, name="new")]),
                _top(0x2001, "v", _var(rc.INTEGER16, access="const", default={"k": "int", "v": -2})),
                _rec(0x2002, "arr", [n0(), _var(rc.UNSIGNED24, sub=1, name="e1", pdo=1),
                                     _var(rc.UNSIGNED24, sub=2, name="e2", pdo=1)], kind="array"),
                {"kind": "compact", "index": 0x2003, "name": "cmp", "sp": 0, "storage": None,
                 "var": _var(rc.UNSIGNED16, sub=1, pdo=1), "n": 2, "names": ["c1", "c2"], "n_hex": False}],
               doc=doc, comments=["second", "text"], devinfo={"VendorName": "two", "Granularity": 16},
               baud=[250, 500])
    c = _model([_top(0x2000, "rec", _var(rc.UNSIGNED8)), _top(0x3000, "w", _var(rc.VISIBLE_STRING,
                                                                                 default={"k": "str", "v": "x"}))],
               doc=doc)
    if doc == "dcf":
        a["commissioning"] = {"node_id": 5, "baudrate": 125, "baud_hex": False}
        b["commissioning"] = {"node_id": 9, "baudrate": 500, "baud_hex": False}
    return a, b, c


def _steps_case(steps, family="hist/reimport", **kw):
    c = {"steps": steps, "suffix": 0, "base": 0, "crlf": False, "family": family}
    c.update(kw)
    return c


def _step(model, node_arg=None, source="path", mtime=0):
    return {"model": model, "node_arg": node_arg, "source": source, "mtime": mtime}


def enum_histories(tier):
    # one path: text X imported, replaced by text Y (time stamp older / equal / newer), imported again, ...
    for doc in ("eds", "dcf"):
        a, b, c = _simple_models(doc)
        for mt in range(len(MTIME_STEPS)):
            for x, y in ((a, b), (b, a), (a, c), (c, b)):
                yield _steps_case([_step(x, 3), _step(y, 3, mtime=mt)])
                yield _steps_case([_step(x), _step(None, 17), _step(y, 4, mtime=mt), _step(None, None)],
                                  suffix=mt % 3, base=mt % 4)
            yield _steps_case([_step(a, 1), _step(b, 2, mtime=3), _step(c, 3, mtime=mt), _step(a, 4, mtime=mt)])
            yield _steps_case([_step(a, 1, "file"), _step(b, 2, "path", mtime=mt), _step(c, 3, "file", mtime=mt),
                               _step(b, 4, "path", mtime=mt)], crlf=True)
    # one dictionary: looked up, re-configured through its own interface, looked up again
    for doc in ("eds", "dcf"):
        a, b, c = _simple_models(doc)
        seqs = []
        for via in range(3):
            seqs.append([{"op": "put", "src": "B", "k": 0, "via": via}])
            seqs.append([{"op": "put", "src": "B", "k": 2, "via": via}, {"op": "put", "src": "A", "k": 2, "via": via}])
        for via in range(2):
            for k in range(3):
                seqs.append([{"op": "del", "k": k, "via": via}])
            seqs.append([{"op": "del", "k": 0, "via": via}, {"op": "put", "src": "B", "k": 0, "via": via}])
            seqs.append([{"op": "del", "k": 0, "via": via}, {"op": "put", "src": "A", "k": 0, "via": 2}])
        seqs.append([{"op": "member", "k": 0}])
        seqs.append([{"op": "member", "k": 1}, {"op": "member", "k": 0}, {"op": "del", "k": 0, "via": 0}])
        seqs.append([{"op": "put", "src": "B", "k": 3, "via": 2}, {"op": "del", "k": 3, "via": 1},
                     {"op": "put", "src": "B", "k": 3, "via": 0}])
        seqs.append([{"op": "put", "src": "B", "k": k, "via": k} for k in range(4)] +
                    [{"op": "put", "src": "A", "k": k, "via": k + 1} for k in range(3)])
        for ops in seqs:
            yield dict(_case(a, "hist/reconfigure", node_arg=3), model2=b, ops=ops)
        for ops in seqs[:6]:
            yield dict(_case(b, "hist/reconfigure", node_arg=None, source="path"), model2=a, ops=ops)
            yield dict(_case(a, "hist/reconfigure", node_arg=3), model2=c, ops=ops)


_MT = st.integers(0, len(MTIME_STEPS) - 1)
_NODE = st.one_of(st.none(), st.integers(1, 127))
_SRC = st.sampled_from(["path", "path", "path", "file"])


@st.composite
def reimport_cases(draw, max_steps=4):
    doc = draw(em._DOC)
    n = draw(st.integers(2, max_steps))
    steps = []
    pool = []
    for k in range(n):
        how = draw(st.integers(0, 5)) if k else 0
        if how == 5:
            model = None                                    # text kept, imported once more (other node id)
        elif how == 4 and len(pool) >= 2:
            model = pool[draw(_PICK) % (len(pool) - 1)]     # an earlier text comes back (restored backup)
        else:
            model = draw(em.models(doc=doc, quirks=True, max_objects=3, max_members=6))
            pool.append(model)
        steps.append(_step(model, draw(_NODE), draw(_SRC), draw(_MT)))
    flags = draw(st.integers(0, 0xFF))
    return _steps_case(steps, suffix=[0, 0, 1, 2][flags & 3], base=[0, 0, 1, 2, 3, 0, 0, 0][(flags >> 2) & 7],
                       crlf=(flags >> 5) == 7)


def _graft(draw, a, b):
    """Give objects of `b` the index and name (and member names) of objects of `a`: the same keys, other
    content."""
    import copy
    used = {o["index"] for o in b["objects"]}
    order = list(range(len(a["objects"])))
    for k, o2 in enumerate(b["objects"]):
        if not order or draw(_SMALL4) == 0:
            continue
        o = a["objects"][order.pop(draw(_PICK) % len(order))]
        if o["index"] != o2["index"] and o["index"] in used:
            continue
        used.discard(o2["index"])
        used.add(o["index"])
        o2["index"], o2["name"] = o["index"], o["name"]
        names = [nm for _s, nm in _named_members(o)]
        if not names:
            continue
        if o2["kind"] in ("record", "array"):
            same_subs = o["kind"] in ("record", "array") and draw(_BOOL)
            for p, m2 in enumerate(o2["members"]):
                if p < len(names) and draw(_SMALL4):
                    m2["name"] = names[p]
                    if same_subs and p and o["members"][p]["sub"] not in {m["sub"] for m in o2["members"]}:
                        m2["sub"] = o["members"][p]["sub"]
            o2["members"].sort(key=lambda m: m["sub"])
        elif o2["kind"] == "compact" and o2["names"] is not None:
            o2["names"] = [names[p] if p < len(names) and draw(_SMALL4) else nm
                           for p, nm in enumerate(o2["names"])]
    if draw(_SMALL4) == 0 and a["objects"]:
        # the same object once more with other content: a deep copy whose variables are redrawn below
        o = copy.deepcopy(a["objects"][draw(_PICK) % len(a["objects"])])
        if o["index"] not in used and o["kind"] in ("record", "array"):
            for m in o["members"][1:]:
                m["access"] = em.ACCESS[draw(_PICK) % len(em.ACCESS)]
                m["pdo"] = draw(_PICK) % 2
            b["objects"].append(o)
    em.fix_names(b["objects"])


_SMALL4 = st.integers(0, 3)
_OP = st.sampled_from(["put", "put", "put", "del", "del", "member"])


@st.composite
def reconfigure_cases(draw, max_ops=5):
    a = draw(em.models(quirks=True, max_objects=4, max_members=6))
    b = draw(em.models(doc=a["doc"], quirks=True, max_objects=4, max_members=6))
    b["dummies"] = None
    _graft(draw, a, b)
    ops = []
    for _ in range(draw(st.integers(1, max_ops))):
        what = draw(_OP)
        op = {"op": what, "k": draw(st.integers(0, 7))}
        if what == "put":
            op["src"] = draw(st.sampled_from(["B", "B", "A"]))
        if what != "member":
            op["via"] = draw(st.integers(0, 2))
        ops.append(op)
    c = _case(a, "hist/reconfigure", node_arg=draw(_NODE), source=draw(st.sampled_from(["stream", "path"])))
    c["model2"] = b
    c["ops"] = ops
    return c


def _violation_in(exc):
    """The harness Violation inside a Hypothesis Flaky/ExceptionGroup wrapper, if any."""
    from harness.core import Violation
    if isinstance(exc, Violation):
        return exc
    for sub in getattr(exc, "exceptions", ()) or ():
        v = _violation_in(sub)
        if v is not None:
            return v
    for sub in (exc.__cause__, exc.__context__):
        if sub is not None and sub is not exc:
            v = _violation_in(sub)
            if v is not None:
                return v
    return None


def hyp_chunks(ctx, strategy, total, chunk, salt0=0):
    """Hypothesis part in chunks (own seed each).  The time budget is looked at between
    chunks only: core's in-test budget check would otherwise (a) keep generating all
    remaining examples after the budget ran out and (b) turn a genuine failure into a
    'flaky' harness error when the budget runs out while Hypothesis is shrinking it."""
    salt = salt0
    while total > 0 and not ctx.over_budget():
        n = min(chunk, total)
        saved, ctx.budget_s = ctx.budget_s, None
        try:
            ctx.hypothesis(strategy, n, salt=salt)
        except BaseException as e:                     # noqa: BLE001
            v = _violation_in(e)
            if v is not None and v is not e:
                raise v from None
            raise
        finally:
            ctx.budget_s = saved
        total -= n
        salt += 1


def search(ctx):
    ctx.enumerate(enum_cases(ctx.tier),
                  "boundary values x spellings of every integer type (defaults, parameter values, limits); "
                  "25 types x 6 access types x 4 case forms x 8 DataType spellings; node ids 1..127 x 5 $NODEID "
                  "forms; compact sizes 1..20,127,254 x PDOMapping absent/0/1; sub-indices 1..0xFE")
    ctx.enumerate(enum_wide(ctx.tier),
                  "0/1 keys (BaudRate_x, DeviceInfo booleans, PDOMapping of VAR / member / compact element) x 5 "
                  "number spellings; comment blocks of 0..30, 99..101 lines (thorough 0..120); indices "
                  "0xA000..0xFFFF x every kind x both hex digit cases; near-miss names (letter case / one "
                  "character) at every level a name is a lookup key")
    ctx.enumerate(enum_time(ctx.tier),
                  "TIME_OF_DAY / TIME_DIFFERENCE default and parameter values: 19 values x number spellings x "
                  "VAR / record member / array member / compact element x EDS / DCF")
    ctx.enumerate(enum_histories(ctx.tier),
                  "one path imported again after its text was replaced (time stamp older / equal / newer, text "
                  "kept, node id changed, path / open file); one imported dictionary looked up, re-configured "
                  "through its own interface (replace / remove / add / add_member), looked up again")
    thorough = ctx.tier == "thorough"
    total, chunk = (20000, 500) if thorough else (1800, 300)
    hyp_chunks(ctx, cases(), total, chunk)
    hyp_chunks(ctx, reimport_cases(6 if thorough else 4), 1500 if thorough else 200, 100, salt0=1000)
    hyp_chunks(ctx, reconfigure_cases(8 if thorough else 5), 3000 if thorough else 300, 150, salt0=2000)
    if _feature_counts and ctx.shard == 0:
        ctx.notes.append("shard 0 feature counts (cases containing the feature): " +
                         ", ".join(f"{k}={v}" for k, v in sorted(_feature_counts.items())))
